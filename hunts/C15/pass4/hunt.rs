//! Hunt for violations of property C15 (interpreter CHECKSIG / CHECKMULTISIG).
//!
//! Oracle: a reference signature-hash (BIP143-with-FORKID and original/legacy algorithm) written here from the
//! specifications, and signatures made here directly with the k256 primitives over that reference digest.
//! The library is only used as the system under test (Transaction/TxIn/Script containers + Interpreter).
#![allow(dead_code)]
#![allow(clippy::too_many_arguments)]

use bsv::{Interpreter, P2PKHAddress, PrivateKey, Script, ScriptBit, SigHash, Transaction, TxIn, TxOut};
use ecdsa::hazmat::SignPrimitive;
use k256::elliptic_curve::ops::Reduce;
use k256::elliptic_curve::sec1::ToEncodedPoint;
use k256::{Scalar, SecretKey, U256};
use num_bigint::BigUint;
use ripemd160::Ripemd160;
use sha2::{Digest, Sha256};
use std::panic::{catch_unwind, AssertUnwindSafe};

// ---------------------------------------------------------------------------------------------------------------
// opcodes
// ---------------------------------------------------------------------------------------------------------------
const OP_0: u8 = 0x00;
const OP_1: u8 = 0x51;
const OP_NOP: u8 = 0x61;
const OP_VERIFY: u8 = 0x69;
const OP_DROP: u8 = 0x75;
const OP_DUP: u8 = 0x76;
const OP_EQUALVERIFY: u8 = 0x88;
const OP_NOT: u8 = 0x91;
const OP_HASH160: u8 = 0xa9;
const OP_CODESEPARATOR: u8 = 0xab;
const OP_CHECKSIG: u8 = 0xac;
const OP_CHECKSIGVERIFY: u8 = 0xad;
const OP_CHECKMULTISIG: u8 = 0xae;
const OP_CHECKMULTISIGVERIFY: u8 = 0xaf;

const STANDARD_FLAGS: [u8; 12] = [0x01, 0x02, 0x03, 0x81, 0x82, 0x83, 0x41, 0x42, 0x43, 0xc1, 0xc2, 0xc3];

// ---------------------------------------------------------------------------------------------------------------
// tiny deterministic PRNG
// ---------------------------------------------------------------------------------------------------------------
struct Rng(u64);
impl Rng {
    fn next(&mut self) -> u64 {
        // splitmix64
        self.0 = self.0.wrapping_add(0x9E3779B97F4A7C15);
        let mut z = self.0;
        z = (z ^ (z >> 30)).wrapping_mul(0xBF58476D1CE4E5B9);
        z = (z ^ (z >> 27)).wrapping_mul(0x94D049BB133111EB);
        z ^ (z >> 31)
    }
    fn below(&mut self, n: usize) -> usize {
        (self.next() % n as u64) as usize
    }
    fn bytes(&mut self, n: usize) -> Vec<u8> {
        (0..n).map(|_| self.next() as u8).collect()
    }
    fn chance(&mut self, num: usize, den: usize) -> bool {
        self.below(den) < num
    }
}

// ---------------------------------------------------------------------------------------------------------------
// hashes
// ---------------------------------------------------------------------------------------------------------------
fn sha256(d: &[u8]) -> Vec<u8> {
    Sha256::digest(d).to_vec()
}
fn sha256d(d: &[u8]) -> [u8; 32] {
    let mut out = [0u8; 32];
    out.copy_from_slice(&sha256(&sha256(d)));
    out
}
fn hash160(d: &[u8]) -> Vec<u8> {
    Ripemd160::digest(&sha256(d)).to_vec()
}

// ---------------------------------------------------------------------------------------------------------------
// reference transaction model
// ---------------------------------------------------------------------------------------------------------------
#[derive(Clone, Debug, PartialEq)]
struct RIn {
    txid_wire: [u8; 32],
    vout: u32,
    script_sig: Vec<u8>,
    seq: u32,
}
#[derive(Clone, Debug, PartialEq)]
struct ROut {
    value: u64,
    script: Vec<u8>,
}
#[derive(Clone, Debug, PartialEq)]
struct RTx {
    version: u32,
    ins: Vec<RIn>,
    outs: Vec<ROut>,
    locktime: u32,
}

fn varint(n: u64) -> Vec<u8> {
    if n < 0xfd {
        vec![n as u8]
    } else if n <= 0xffff {
        let mut v = vec![0xfd];
        v.extend_from_slice(&(n as u16).to_le_bytes());
        v
    } else if n <= 0xffff_ffff {
        let mut v = vec![0xfe];
        v.extend_from_slice(&(n as u32).to_le_bytes());
        v
    } else {
        let mut v = vec![0xff];
        v.extend_from_slice(&n.to_le_bytes());
        v
    }
}

impl ROut {
    fn ser(&self) -> Vec<u8> {
        let mut v = self.value.to_le_bytes().to_vec();
        v.extend(varint(self.script.len() as u64));
        v.extend_from_slice(&self.script);
        v
    }
}
impl RIn {
    fn outpoint(&self) -> Vec<u8> {
        let mut v = self.txid_wire.to_vec();
        v.extend_from_slice(&self.vout.to_le_bytes());
        v
    }
    fn ser(&self) -> Vec<u8> {
        let mut v = self.outpoint();
        v.extend(varint(self.script_sig.len() as u64));
        v.extend_from_slice(&self.script_sig);
        v.extend_from_slice(&self.seq.to_le_bytes());
        v
    }
}
impl RTx {
    fn ser(&self) -> Vec<u8> {
        let mut v = self.version.to_le_bytes().to_vec();
        v.extend(varint(self.ins.len() as u64));
        for i in &self.ins {
            v.extend(i.ser());
        }
        v.extend(varint(self.outs.len() as u64));
        for o in &self.outs {
            v.extend(o.ser());
        }
        v.extend_from_slice(&self.locktime.to_le_bytes());
        v
    }
}

/// Splits a script into its elements (opcode byte ranges), own parser
fn script_elements(script: &[u8]) -> Vec<Vec<u8>> {
    let mut out = vec![];
    let mut i = 0;
    while i < script.len() {
        let op = script[i];
        let (hdr, len) = match op {
            1..=0x4b => (1, op as usize),
            0x4c => (2, script[i + 1] as usize),
            0x4d => (3, u16::from_le_bytes([script[i + 1], script[i + 2]]) as usize),
            0x4e => (5, u32::from_le_bytes([script[i + 1], script[i + 2], script[i + 3], script[i + 4]]) as usize),
            _ => (1, 0),
        };
        out.push(script[i..i + hdr + len].to_vec());
        i += hdr + len;
    }
    out
}

fn without_codeseparators(script: &[u8]) -> Vec<u8> {
    script_elements(script).into_iter().filter(|e| e.as_slice() != [OP_CODESEPARATOR]).flatten().collect()
}

/// Reference signature hash. Rules:
/// - flag & 0x40 (FORKID): "replay protected sighash" (BIP143 layout, BCH/BSV UAHF spec)
/// - otherwise: original algorithm (OP_CODESEPARATOR removed from the script code, SIGHASH_SINGLE bug => digest 1)
fn ref_digest(tx: &RTx, idx: usize, script_code: &[u8], value: u64, flag: u8) -> [u8; 32] {
    let base = flag & 0x1f;
    let acp = flag & 0x80 != 0;
    if flag & 0x40 != 0 {
        let mut pre = tx.version.to_le_bytes().to_vec();
        let hash_prevouts = if !acp { sha256d(&tx.ins.iter().flat_map(|i| i.outpoint()).collect::<Vec<u8>>()) } else { [0u8; 32] };
        let hash_sequence = if !acp && base != 2 && base != 3 { sha256d(&tx.ins.iter().flat_map(|i| i.seq.to_le_bytes()).collect::<Vec<u8>>()) } else { [0u8; 32] };
        let hash_outputs = if base != 2 && base != 3 {
            sha256d(&tx.outs.iter().flat_map(|o| o.ser()).collect::<Vec<u8>>())
        } else if base == 3 && idx < tx.outs.len() {
            sha256d(&tx.outs[idx].ser())
        } else {
            [0u8; 32]
        };
        pre.extend_from_slice(&hash_prevouts);
        pre.extend_from_slice(&hash_sequence);
        pre.extend(tx.ins[idx].outpoint());
        pre.extend(varint(script_code.len() as u64));
        pre.extend_from_slice(script_code);
        pre.extend_from_slice(&value.to_le_bytes());
        pre.extend_from_slice(&tx.ins[idx].seq.to_le_bytes());
        pre.extend_from_slice(&hash_outputs);
        pre.extend_from_slice(&tx.locktime.to_le_bytes());
        pre.extend_from_slice(&(flag as u32).to_le_bytes());
        sha256d(&pre)
    } else {
        if base == 3 && idx >= tx.outs.len() {
            let mut one = [0u8; 32];
            one[0] = 1;
            return one;
        }
        let mut t = tx.clone();
        for i in t.ins.iter_mut() {
            i.script_sig = vec![];
        }
        t.ins[idx].script_sig = without_codeseparators(script_code);
        if base == 2 {
            t.outs.clear();
        }
        if base == 3 {
            t.outs.truncate(idx + 1);
            for o in t.outs.iter_mut().take(idx) {
                o.value = u64::MAX;
                o.script = vec![];
            }
        }
        if base == 2 || base == 3 {
            for (i, inp) in t.ins.iter_mut().enumerate() {
                if i != idx {
                    inp.seq = 0;
                }
            }
        }
        if acp {
            t.ins = vec![t.ins[idx].clone()];
        }
        let mut pre = t.ser();
        pre.extend_from_slice(&(flag as u32).to_le_bytes());
        sha256d(&pre)
    }
}

// ---------------------------------------------------------------------------------------------------------------
// reference keys and signatures (k256 primitives, not the library)
// ---------------------------------------------------------------------------------------------------------------
#[derive(Clone)]
struct Key {
    sk: [u8; 32],
}
impl Key {
    fn new(seed: u8) -> Key {
        let mut sk = [0u8; 32];
        sk.copy_from_slice(&sha256(&[b'k', b'e', b'y', seed]));
        sk[0] &= 0x7f; // certainly below the group order
        Key { sk }
    }
    /// a key that is certainly none of Key::new(..)
    fn stranger(seed: u8) -> Key {
        let mut sk = [0u8; 32];
        sk.copy_from_slice(&sha256(&[b's', b't', b'r', seed]));
        sk[0] &= 0x7f;
        Key { sk }
    }
    fn secret(&self) -> SecretKey {
        SecretKey::from_be_bytes(&self.sk).unwrap()
    }
    fn pk(&self, compressed: bool) -> Vec<u8> {
        self.secret().public_key().to_encoded_point(compressed).as_bytes().to_vec()
    }
    /// (r, s) with low s, big endian 32 bytes each
    fn sign_rs(&self, digest: &[u8; 32]) -> ([u8; 32], [u8; 32]) {
        let d: Scalar = *self.secret().to_nonzero_scalar();
        let z = <Scalar as Reduce<U256>>::from_be_bytes_reduced((*digest).into());
        let mut counter = 0u8;
        loop {
            let mut seed = self.sk.to_vec();
            seed.extend_from_slice(digest);
            seed.push(counter);
            let mut kb = [0u8; 32];
            kb.copy_from_slice(&sha256(&seed));
            let k = <Scalar as Reduce<U256>>::from_be_bytes_reduced(kb.into());
            if let Ok((sig, _)) = d.try_sign_prehashed(k, z) {
                let mut r = [0u8; 32];
                let mut s = [0u8; 32];
                r.copy_from_slice(&sig.r().to_bytes());
                s.copy_from_slice(&sig.s().to_bytes());
                return (r, s);
            }
            counter += 1;
        }
    }
    fn sign_der(&self, digest: &[u8; 32]) -> Vec<u8> {
        let (r, s) = self.sign_rs(digest);
        der(&r, &s)
    }
    /// DER signature followed by the flag byte
    fn sign_tx(&self, tx: &RTx, idx: usize, script_code: &[u8], value: u64, flag: u8) -> Vec<u8> {
        let mut sig = self.sign_der(&ref_digest(tx, idx, script_code, value, flag));
        sig.push(flag);
        sig
    }
}

fn der_int(x: &[u8]) -> Vec<u8> {
    let mut v: Vec<u8> = x.iter().cloned().skip_while(|b| *b == 0).collect();
    if v.is_empty() {
        v.push(0);
    }
    if v[0] & 0x80 != 0 {
        v.insert(0, 0);
    }
    let mut out = vec![0x02, v.len() as u8];
    out.extend(v);
    out
}
fn der(r: &[u8], s: &[u8]) -> Vec<u8> {
    let mut body = der_int(r);
    body.extend(der_int(s));
    let mut out = vec![0x30, body.len() as u8];
    out.extend(body);
    out
}
fn group_order() -> BigUint {
    BigUint::parse_bytes(b"FFFFFFFFFFFFFFFFFFFFFFFFFFFFFFFEBAAEDCE6AF48A03BBFD25E8CD0364141", 16).unwrap()
}
fn to32(x: &BigUint) -> [u8; 32] {
    let b = x.to_bytes_be();
    let mut out = [0u8; 32];
    out[32 - b.len()..].copy_from_slice(&b);
    out
}

// ---------------------------------------------------------------------------------------------------------------
// script assembly (bytes)
// ---------------------------------------------------------------------------------------------------------------
fn push(data: &[u8]) -> Vec<u8> {
    let mut v = match data.len() {
        0 => vec![0x00],
        1..=0x4b => vec![data.len() as u8],
        0x4c..=0xff => vec![0x4c, data.len() as u8],
        _ => {
            let mut v = vec![0x4d];
            v.extend_from_slice(&(data.len() as u16).to_le_bytes());
            v
        }
    };
    v.extend_from_slice(data);
    v
}
fn cat(parts: &[Vec<u8>]) -> Vec<u8> {
    parts.iter().flatten().cloned().collect()
}
fn small(n: usize) -> Vec<u8> {
    match n {
        0 => vec![OP_0],
        _ => vec![0x50 + n as u8],
    }
}

fn p2pk_elems(pk: &[u8]) -> Vec<Vec<u8>> {
    vec![push(pk), vec![OP_CHECKSIG]]
}
fn p2pkh_elems(pk: &[u8]) -> Vec<Vec<u8>> {
    vec![vec![OP_DUP], vec![OP_HASH160], push(&hash160(pk)), vec![OP_EQUALVERIFY], vec![OP_CHECKSIG]]
}
fn multisig_elems(m: usize, pks: &[Vec<u8>]) -> Vec<Vec<u8>> {
    let mut v = vec![small(m)];
    for pk in pks {
        v.push(push(pk));
    }
    v.push(small(pks.len()));
    v.push(vec![OP_CHECKMULTISIG]);
    v
}

/// Inserts OP_CODESEPARATOR before the elements whose index is in `at` (index == len means at the end).
/// Returns (script bytes, subscript bytes that a CHECKSIG placed at element `checksig_index` commits to)
fn with_separators(elems: &[Vec<u8>], at: &[usize], checksig_index: usize) -> (Vec<u8>, Vec<u8>) {
    let mut full: Vec<Vec<u8>> = vec![];
    let mut subscript_start = 0usize; // index in `full`
    for (i, e) in elems.iter().enumerate() {
        for _ in at.iter().filter(|p| **p == i) {
            full.push(vec![OP_CODESEPARATOR]);
            if i <= checksig_index {
                subscript_start = full.len();
            }
        }
        full.push(e.clone());
    }
    for _ in at.iter().filter(|p| **p >= elems.len()) {
        full.push(vec![OP_CODESEPARATOR]);
    }
    (cat(&full), cat(&full[subscript_start..]))
}

// ---------------------------------------------------------------------------------------------------------------
// driving the library
// ---------------------------------------------------------------------------------------------------------------
fn lib_tx(rtx: &RTx, idx: usize, lock: &[u8], value: Option<u64>) -> Transaction {
    let mut tx = Transaction::new(rtx.version, rtx.locktime);
    for (i, inp) in rtx.ins.iter().enumerate() {
        let mut txid = inp.txid_wire;
        txid.reverse();
        let mut txin = TxIn::new(&txid, inp.vout, &Script::from_bytes(&inp.script_sig).expect("unlocking script parses"), Some(inp.seq));
        if i == idx {
            txin.set_locking_script(&Script::from_bytes(lock).expect("locking script parses"));
            if let Some(v) = value {
                txin.set_satoshis(v);
            }
        }
        tx.add_input(&txin);
    }
    for o in &rtx.outs {
        tx.add_output(&TxOut::new(o.value, &Script::from_bytes(&o.script).expect("output script parses")));
    }
    assert_eq!(tx.to_bytes().unwrap(), rtx.ser(), "harness: library serialisation of the assembled transaction differs from the reference");
    tx
}

#[derive(Debug, Clone, PartialEq)]
enum Outcome {
    Accept,
    RejectFalse(String),
    RejectErr(String),
    Panic(String),
}
impl Outcome {
    fn accepted(&self) -> bool {
        matches!(self, Outcome::Accept)
    }
    fn rejected(&self) -> bool {
        matches!(self, Outcome::RejectFalse(_) | Outcome::RejectErr(_))
    }
}

fn truthy(v: &[u8]) -> bool {
    for (i, b) in v.iter().enumerate() {
        if *b != 0 {
            return !(i == v.len() - 1 && *b == 0x80);
        }
    }
    false
}

fn run_tx(tx: &Transaction, idx: usize) -> (Outcome, Vec<Vec<u8>>) {
    let res = catch_unwind(AssertUnwindSafe(|| {
        let mut interp = match Interpreter::from_transaction(tx, idx) {
            Ok(i) => i,
            Err(e) => return (Outcome::RejectErr(format!("from_transaction: {}", e)), vec![]),
        };
        match interp.run() {
            Err(e) => (Outcome::RejectErr(e.to_string()), interp.state().stack),
            Ok(()) => {
                let stack = interp.state().stack;
                match stack.last() {
                    Some(top) if truthy(top) => (Outcome::Accept, stack),
                    Some(top) => (Outcome::RejectFalse(format!("top = {}", hex::encode(top))), stack),
                    None => (Outcome::RejectFalse("empty stack".into()), stack),
                }
            }
        }
    }));
    match res {
        Ok(v) => v,
        Err(p) => {
            let msg = p.downcast_ref::<String>().cloned().or_else(|| p.downcast_ref::<&str>().map(|s| s.to_string())).unwrap_or_default();
            (Outcome::Panic(msg), vec![])
        }
    }
}

/// The same through the Iterator interface (next)
fn run_tx_stepping(tx: &Transaction, idx: usize) -> Outcome {
    let mut interp = match Interpreter::from_transaction(tx, idx) {
        Ok(i) => i,
        Err(e) => return Outcome::RejectErr(format!("from_transaction: {}", e)),
    };
    let mut last = None;
    while let Some(step) = interp.next() {
        match step {
            Ok(s) => last = Some(s),
            Err(e) => return Outcome::RejectErr(e.to_string()),
        }
    }
    match last.map(|s| s.stack) {
        Some(stack) => match stack.last() {
            Some(top) if truthy(top) => Outcome::Accept,
            _ => Outcome::RejectFalse("false".into()),
        },
        None => Outcome::RejectFalse("no steps".into()),
    }
}

fn run(rtx: &RTx, idx: usize, lock: &[u8], value: Option<u64>) -> Outcome {
    let tx = lib_tx(rtx, idx, lock, value);
    let (o, _) = run_tx(&tx, idx);
    let stepped = catch_unwind(AssertUnwindSafe(|| run_tx_stepping(&tx, idx)));
    if let Ok(stepped) = stepped {
        assert_eq!(o.accepted(), stepped.accepted(), "run() and next() disagree: {:?} vs {:?}", o, stepped);
    }
    o
}

fn describe(rtx: &RTx, idx: usize, lock: &[u8], value: Option<u64>) -> String {
    format!("tx={} input={} locking={} value={:?} unlocking={}", hex::encode(rtx.ser()), idx, hex::encode(lock), value, hex::encode(&rtx.ins[idx].script_sig))
}

// ---------------------------------------------------------------------------------------------------------------
// fixtures
// ---------------------------------------------------------------------------------------------------------------
fn random_tx(rng: &mut Rng, n_in: usize, n_out: usize) -> RTx {
    RTx {
        version: match rng.below(4) {
            0 => 1,
            1 => 2,
            2 => 0xffff_ffff,
            _ => rng.next() as u32,
        },
        ins: (0..n_in)
            .map(|_| {
                let mut txid = [0u8; 32];
                txid.copy_from_slice(&rng.bytes(32));
                RIn {
                    txid_wire: txid,
                    vout: match rng.below(3) {
                        0 => 0,
                        1 => rng.below(5) as u32,
                        _ => rng.next() as u32,
                    },
                    script_sig: if rng.chance(1, 2) { vec![] } else { { let n = 1 + rng.below(40); push(&rng.bytes(n)) } },
                    seq: match rng.below(3) {
                        0 => 0xffff_ffff,
                        1 => 0,
                        _ => rng.next() as u32,
                    },
                }
            })
            .collect(),
        outs: (0..n_out)
            .map(|_| ROut {
                value: match rng.below(4) {
                    0 => 0,
                    1 => u64::MAX,
                    2 => 21_000_000 * 100_000_000,
                    _ => rng.next() % 1_000_000_000,
                },
                script: match rng.below(3) {
                    0 => vec![],
                    1 => cat(&p2pkh_elems(&Key::new(rng.next() as u8).pk(true))),
                    _ => cat(&[vec![OP_0, 0x6a], { let n = 1 + rng.below(300); push(&rng.bytes(n)) }]),
                },
            })
            .collect(),
        locktime: match rng.below(3) {
            0 => 0,
            1 => 0xffff_ffff,
            _ => rng.next() as u32,
        },
    }
}

fn random_value(rng: &mut Rng) -> u64 {
    match rng.below(5) {
        0 => 0,
        1 => 1,
        2 => u64::MAX,
        3 => 0x8000_0000_0000_0000,
        _ => rng.next() % 2_100_000_000_000_000,
    }
}

fn simple_tx(n_in: usize, n_out: usize) -> RTx {
    let mut rng = Rng(7);
    let mut tx = random_tx(&mut rng, n_in, n_out);
    tx.version = 1;
    tx.locktime = 0;
    for i in tx.ins.iter_mut() {
        i.script_sig = vec![];
    }
    tx
}

// ===============================================================================================================
// EXPERIMENTS
// ===============================================================================================================

/// E01 harness self-check: a signature made by the reference signer verifies under k256's own verification primitive
#[test]
fn ok_e01_reference_signatures_verify_with_k256() {
    use ecdsa::hazmat::VerifyPrimitive;
    for seed in 0..5u8 {
        let key = Key::new(seed);
        let digest = sha256d(&[seed, 1, 2, 3]);
        let (r, s) = key.sign_rs(&digest);
        let sig = k256::ecdsa::Signature::from_scalars(r, s).unwrap();
        let z = <Scalar as Reduce<U256>>::from_be_bytes_reduced(digest.into());
        let point = *key.secret().public_key().as_affine();
        point.verify_prehashed(z, &sig).expect("reference signature verifies");
        let z2 = <Scalar as Reduce<U256>>::from_be_bytes_reduced(sha256d(b"other").into());
        assert!(point.verify_prehashed(z2, &sig).is_err());
    }
}

// ---------------------------------------------------------------------------------------------------------------
// case builder for the three families
// ---------------------------------------------------------------------------------------------------------------
#[derive(Clone, Debug, PartialEq)]
enum Fam {
    P2pk,
    P2pkh,
    Multi(usize, usize),
}

#[derive(Clone)]
struct Case {
    fam: Fam,
    rtx: RTx, // with the unlocking script of `idx` filled in
    idx: usize,
    lock: Vec<u8>,
    subscript: Vec<u8>,
    value: u64,
    keys: Vec<Key>,         // keys of the locking script, in order
    compressed: Vec<bool>,  // per key
    signers: Vec<usize>,    // indices into keys of the keys that signed, ascending
    flags: Vec<u8>,         // flag of each signature
    sigs: Vec<Vec<u8>>,     // signatures with flag byte
    lock_elems: Vec<Vec<u8>>,
    seps: Vec<usize>,
}

impl Case {
    fn unlocking(&self, sigs: &[Vec<u8>]) -> Vec<u8> {
        match self.fam {
            Fam::P2pk => push(&sigs[0]),
            Fam::P2pkh => cat(&[push(&sigs[0]), push(&self.keys[0].pk(self.compressed[0]))]),
            Fam::Multi(..) => {
                let mut v = vec![OP_0];
                for s in sigs {
                    v.extend(push(s));
                }
                v
            }
        }
    }
    fn resign(&mut self) {
        self.sigs = self.signers.iter().zip(self.flags.iter()).map(|(k, f)| self.keys[*k].sign_tx(&self.rtx, self.idx, &self.subscript, self.value, *f)).collect();
        let unlocking = self.unlocking(&self.sigs.clone());
        self.rtx.ins[self.idx].script_sig = unlocking;
    }
    fn run(&self) -> Outcome {
        run(&self.rtx, self.idx, &self.lock, Some(self.value))
    }
    fn describe(&self) -> String {
        format!("{:?} flags={:02x?} seps={:?} {}", self.fam, self.flags, self.seps, describe(&self.rtx, self.idx, &self.lock, Some(self.value)))
    }
}

fn build_case(rng: &mut Rng, fam: Fam, flags: &[u8], n_in: usize, n_out: usize, idx: usize, seps: &[usize]) -> Case {
    let rtx = random_tx(rng, n_in, n_out);
    let value = random_value(rng);
    let n_keys = match fam {
        Fam::Multi(_, n) => n,
        _ => 1,
    };
    let base = rng.next() as u8;
    let keys: Vec<Key> = (0..n_keys).map(|i| Key::new(base.wrapping_add(i as u8))).collect();
    let compressed: Vec<bool> = (0..n_keys).map(|_| rng.chance(3, 4)).collect();
    let pks: Vec<Vec<u8>> = keys.iter().zip(compressed.iter()).map(|(k, c)| k.pk(*c)).collect();
    let (lock_elems, checksig_index, signers) = match fam {
        Fam::P2pk => (p2pk_elems(&pks[0]), 1, vec![0]),
        Fam::P2pkh => (p2pkh_elems(&pks[0]), 4, vec![0]),
        Fam::Multi(m, n) => {
            // choose m of the n keys, ascending
            let mut chosen: Vec<usize> = (0..n).collect();
            while chosen.len() > m {
                let r = rng.below(chosen.len());
                chosen.remove(r);
            }
            (multisig_elems(m, &pks), n + 2, chosen)
        }
    };
    let (lock, subscript) = with_separators(&lock_elems, seps, checksig_index);
    let mut case = Case {
        fam,
        rtx,
        idx,
        lock,
        subscript,
        value,
        keys,
        compressed,
        signers,
        flags: flags.to_vec(),
        sigs: vec![],
        lock_elems,
        seps: seps.to_vec(),
    };
    case.resign();
    case
}

fn families() -> Vec<Fam> {
    let mut v = vec![Fam::P2pk, Fam::P2pkh];
    for n in 1..=3 {
        for m in 1..=n {
            v.push(Fam::Multi(m, n));
        }
    }
    v
}

fn random_seps(rng: &mut Rng, len: usize) -> Vec<usize> {
    let count = match rng.below(4) {
        0 => 0,
        1 => 1,
        2 => 2,
        _ => rng.below(5),
    };
    let mut v: Vec<usize> = (0..count).map(|_| rng.below(len + 1)).collect();
    v.sort();
    v
}

fn n_sigs(fam: &Fam) -> usize {
    match fam {
        Fam::Multi(m, _) => *m,
        _ => 1,
    }
}
fn n_elems(fam: &Fam) -> usize {
    match fam {
        Fam::P2pk => 2,
        Fam::P2pkh => 5,
        Fam::Multi(_, n) => n + 3,
    }
}

/// E02: every family x every flag x separators at every single position, reference-signed => accepted
#[test]
fn ok_e02_every_family_flag_and_single_separator_position_accepts() {
    let mut rng = Rng(2);
    let mut count = 0;
    for fam in families() {
        for flag in STANDARD_FLAGS {
            let len = n_elems(&fam);
            let mut sep_sets: Vec<Vec<usize>> = vec![vec![]];
            for p in 0..=len {
                sep_sets.push(vec![p]);
            }
            for seps in sep_sets {
                let n_in = 1 + rng.below(3);
                let idx = rng.below(n_in);
                let n_out = idx + 1 + rng.below(2);
                let flags = vec![flag; n_sigs(&fam)];
                let case = build_case(&mut rng, fam.clone(), &flags, n_in, n_out, idx, &seps);
                let o = case.run();
                assert!(o.accepted(), "valid spend not accepted: library={:?} expected=Accept\n{}", o, case.describe());
                count += 1;
            }
        }
    }
    assert!(count > 500);
}

/// E03: random transactions, several separators, mixed flags inside one multisig
#[test]
fn ok_e03_random_spends_with_several_separators_and_mixed_flags_accept() {
    let mut rng = Rng(3);
    for round in 0..600 {
        let fams = families();
        let fam = fams[rng.below(fams.len())].clone();
        let flags: Vec<u8> = (0..n_sigs(&fam)).map(|_| STANDARD_FLAGS[rng.below(12)]).collect();
        let n_in = 1 + rng.below(4);
        let idx = rng.below(n_in);
        let n_out = idx + 1 + rng.below(3);
        let seps = random_seps(&mut rng, n_elems(&fam));
        let case = build_case(&mut rng, fam, &flags, n_in, n_out, idx, &seps);
        let o = case.run();
        assert!(o.accepted(), "round {}: valid spend not accepted: library={:?} expected=Accept\n{}", round, o, case.describe());
    }
}

// ---------------------------------------------------------------------------------------------------------------
// mutations of the transaction and the value after signing
// ---------------------------------------------------------------------------------------------------------------
fn tx_mutations(rng: &mut Rng, case: &Case) -> Vec<(String, RTx, u64)> {
    let mut out = vec![];
    let t = &case.rtx;
    let v = case.value;
    let mut m = t.clone();
    m.version ^= 1 << rng.below(32);
    out.push(("version".to_string(), m, v));
    let mut m = t.clone();
    m.locktime ^= 1 << rng.below(32);
    out.push(("locktime".to_string(), m, v));
    for i in 0..t.ins.len() {
        let mut m = t.clone();
        let (byte, bit) = (rng.below(32), rng.below(8));
        m.ins[i].txid_wire[byte] ^= 1 << bit;
        out.push((format!("input {} txid", i), m, v));
        let mut m = t.clone();
        m.ins[i].vout ^= 1 << rng.below(32);
        out.push((format!("input {} vout", i), m, v));
        let mut m = t.clone();
        m.ins[i].seq ^= 1 << rng.below(32);
        out.push((format!("input {} sequence", i), m, v));
        if i != case.idx {
            let mut m = t.clone();
            m.ins[i].script_sig = push(&rng.bytes(3));
            out.push((format!("input {} unlocking script (never signed)", i), m, v));
        }
    }
    for j in 0..t.outs.len() {
        let mut m = t.clone();
        m.outs[j].value ^= 1 << rng.below(64);
        out.push((format!("output {} value", j), m, v));
        let mut m = t.clone();
        m.outs[j].script.push(OP_NOP);
        out.push((format!("output {} script", j), m, v));
    }
    let mut m = t.clone();
    m.outs.push(ROut { value: 1, script: vec![OP_1] });
    out.push(("output appended".to_string(), m, v));
    let mut m = t.clone();
    m.outs.insert(0, ROut { value: 1, script: vec![OP_1] });
    out.push(("output prepended".to_string(), m, v));
    if t.outs.len() > 1 {
        let mut m = t.clone();
        m.outs.pop();
        out.push(("last output removed".to_string(), m, v));
    }
    let mut m = t.clone();
    m.ins.push(RIn { txid_wire: [9u8; 32], vout: 1, script_sig: vec![], seq: 5 });
    out.push(("input appended".to_string(), m, v));
    if case.idx + 1 < t.ins.len() {
        let mut m = t.clone();
        m.ins.pop();
        out.push(("last input removed".to_string(), m, v));
    }
    out.push(("value +1".to_string(), t.clone(), v.wrapping_add(1)));
    out.push(("value top bit".to_string(), t.clone(), v ^ (1 << 63)));
    out
}

/// E04: every single-field mutation of the transaction / value after signing. The reference digest decides: the spend
/// stays valid exactly when no digest of a used signature changed (e.g. other inputs under ANYONECANPAY).
#[test]
fn ok_e04_transaction_and_value_mutations_follow_the_reference_digest() {
    let mut rng = Rng(4);
    let (mut still_valid, mut invalidated) = (0, 0);
    for round in 0..220 {
        let fams = families();
        let fam = fams[round % fams.len()].clone();
        let flag = STANDARD_FLAGS[(round / fams.len()) % 12];
        let flags: Vec<u8> = (0..n_sigs(&fam)).map(|i| if i == 0 { flag } else { STANDARD_FLAGS[rng.below(12)] }).collect();
        let n_in = 1 + rng.below(3);
        let idx = rng.below(n_in);
        let n_out = idx + 1 + rng.below(3);
        let seps = random_seps(&mut rng, n_elems(&fam));
        let case = build_case(&mut rng, fam, &flags, n_in, n_out, idx, &seps);
        assert!(case.run().accepted(), "unmutated: {}", case.describe());
        for (what, mtx, mvalue) in tx_mutations(&mut rng, &case) {
            let unchanged = case.flags.iter().all(|f| ref_digest(&mtx, case.idx, &case.subscript, mvalue, *f) == ref_digest(&case.rtx, case.idx, &case.subscript, case.value, *f));
            let o = run(&mtx, case.idx, &case.lock, Some(mvalue));
            if unchanged {
                still_valid += 1;
                assert!(o.accepted(), "mutation of {} is not covered by flags {:02x?} but the spend is no longer accepted: library={:?} expected=Accept\noriginal {}\nmutated {}", what, case.flags, o, case.describe(), describe(&mtx, case.idx, &case.lock, Some(mvalue)));
            } else {
                invalidated += 1;
                assert!(o.rejected(), "mutation of {} changes the signed digest (flags {:02x?}) but library={:?}, expected=Reject\noriginal {}\nmutated {}", what, case.flags, o, case.describe(), describe(&mtx, case.idx, &case.lock, Some(mvalue)));
            }
        }
    }
    assert!(still_valid > 100 && invalidated > 1000, "{} {}", still_valid, invalidated);
}

// ---------------------------------------------------------------------------------------------------------------
// E05: mutations of signature, flag byte and key after signing => reject
// ---------------------------------------------------------------------------------------------------------------
fn split_sig(sig: &[u8]) -> ([u8; 32], [u8; 32], u8) {
    // own DER reader for signatures made by der()
    let flag = *sig.last().unwrap();
    let rlen = sig[3] as usize;
    let r = &sig[4..4 + rlen];
    let slen = sig[5 + rlen] as usize;
    let s = &sig[6 + rlen..6 + rlen + slen];
    (to32(&BigUint::from_bytes_be(r)), to32(&BigUint::from_bytes_be(s)), flag)
}

#[test]
fn ok_e05_signature_flag_and_key_mutations_reject() {
    let mut rng = Rng(5);
    let mut checked = 0;
    for round in 0..120 {
        let fams = families();
        let fam = fams[round % fams.len()].clone();
        let flags: Vec<u8> = (0..n_sigs(&fam)).map(|_| STANDARD_FLAGS[rng.below(12)]).collect();
        let n_in = 1 + rng.below(3);
        let idx = rng.below(n_in);
        let n_out = idx + 1 + rng.below(2);
        let seps = random_seps(&mut rng, n_elems(&fam));
        let case = build_case(&mut rng, fam.clone(), &flags, n_in, n_out, idx, &seps);
        assert!(case.run().accepted());
        let which = rng.below(case.sigs.len());
        let (r, s, flag) = split_sig(&case.sigs[which]);
        let n = group_order();
        let mut variants: Vec<(String, Vec<u8>)> = vec![];
        // every other standard flag byte
        for f in STANDARD_FLAGS.iter().filter(|f| **f != flag) {
            let mut v = case.sigs[which].clone();
            *v.last_mut().unwrap() = *f;
            variants.push((format!("flag {:02x}->{:02x}", flag, f), v));
        }
        // s + 1, r + 1, high s (n - s), s with one bit flipped, raw byte flip
        let s1 = to32(&((BigUint::from_bytes_be(&s) + 1u8) % &n));
        variants.push(("s+1".into(), [der(&r, &s1), vec![flag]].concat()));
        let r1 = to32(&((BigUint::from_bytes_be(&r) + 1u8) % &n));
        variants.push(("r+1".into(), [der(&r1, &s), vec![flag]].concat()));
        let hs = to32(&(&n - BigUint::from_bytes_be(&s)));
        variants.push(("high s (n-s)".into(), [der(&r, &hs), vec![flag]].concat()));
        let mut raw = case.sigs[which].clone();
        let pos = rng.below(raw.len() - 1);
        raw[pos] ^= 1 << rng.below(8);
        variants.push((format!("raw bit flip at {}", pos), raw));
        // signature by a key that is not in the script
        let stranger = Key::stranger(200);
        variants.push(("signature by a stranger".into(), stranger.sign_tx(&case.rtx, case.idx, &case.subscript, case.value, flag)));
        // signature over the whole locking script when the subscript is shorter, and the other way round
        if ref_digest(&case.rtx, case.idx, &case.lock, case.value, flag) != ref_digest(&case.rtx, case.idx, &case.subscript, case.value, flag) {
            variants.push(("signed the whole locking script instead of the subscript".into(), case.keys[case.signers[which]].sign_tx(&case.rtx, case.idx, &case.lock, case.value, flag)));
        }
        // signature with the digest algorithm of the other family (FORKID bit toggled in the digest only)
        {
            let d = ref_digest(&case.rtx, case.idx, &case.subscript, case.value, flag ^ 0x40);
            let mut v = case.keys[case.signers[which]].sign_der(&d);
            v.push(flag);
            variants.push(("digest computed for flag^0x40, flag byte unchanged".into(), v));
        }
        // signature for another input index
        if case.rtx.ins.len() > 1 {
            let other = (case.idx + 1) % case.rtx.ins.len();
            if ref_digest(&case.rtx, other, &case.subscript, case.value, flag) != ref_digest(&case.rtx, case.idx, &case.subscript, case.value, flag) {
                variants.push(("signed for another input index".into(), case.keys[case.signers[which]].sign_tx(&case.rtx, other, &case.subscript, case.value, flag)));
            }
        }
        for (what, sig) in variants {
            let mut sigs = case.sigs.clone();
            sigs[which] = sig;
            let mut m = case.rtx.clone();
            m.ins[case.idx].script_sig = case.unlocking(&sigs);
            let o = run(&m, case.idx, &case.lock, Some(case.value));
            assert!(o.rejected(), "signature mutation '{}' library={:?} expected=Reject\n{}\nmutated unlocking={}", what, o, case.describe(), hex::encode(&m.ins[case.idx].script_sig));
            checked += 1;
        }
        // key mutations: the key in the locking script (P2PK, multisig) replaced after signing
        match fam {
            Fam::P2pkh => {
                // another key in the unlocking script; and another key + matching hash in the locking script
                let other = Key::stranger(201).pk(true);
                let mut m = case.rtx.clone();
                m.ins[case.idx].script_sig = cat(&[push(&case.sigs[0]), push(&other)]);
                let o = run(&m, case.idx, &case.lock, Some(case.value));
                assert!(o.rejected(), "P2PKH with another key in the unlocking script: {:?}\n{}", o, case.describe());
                let (lock2, _) = with_separators(&p2pkh_elems(&other), &case.seps, 4);
                let o = run(&m, case.idx, &lock2, Some(case.value));
                assert!(o.rejected(), "P2PKH with another key in both scripts: {:?}\n{}", o, case.describe());
                checked += 2;
            }
            _ => {
                for k in 0..case.keys.len() {
                    let mut pks: Vec<Vec<u8>> = case.keys.iter().zip(case.compressed.iter()).map(|(k, c)| k.pk(*c)).collect();
                    // (a) another key, (b) same key in the other encoding
                    for variant in 0..2 {
                        pks[k] = match variant {
                            0 => Key::stranger(202).pk(case.compressed[k]),
                            _ => case.keys[k].pk(!case.compressed[k]),
                        };
                        let elems = match fam {
                            Fam::P2pk => p2pk_elems(&pks[0]),
                            Fam::Multi(m, _) => multisig_elems(m, &pks),
                            _ => unreachable!(),
                        };
                        let checksig_index = elems.len() - 1;
                        let (lock2, _) = with_separators(&elems, &case.seps, checksig_index);
                        let o = run(&case.rtx, case.idx, &lock2, Some(case.value));
                        // the key is part of the subscript unless a separator cut it off; then only a signer's key matters
                        let key_in_subscript = lock2.ends_with(&case.subscript) == false;
                        let is_signer = case.signers.contains(&k);
                        if key_in_subscript || (is_signer && variant == 0) {
                            assert!(o.rejected(), "key {} replaced (variant {}) after signing: library={:?} expected=Reject\n{}\nnew locking={}", k, variant, o, case.describe(), hex::encode(&lock2));
                            checked += 1;
                        } else if !is_signer || variant == 1 {
                            // not committed to by the signature and (not needed | the same key): still a valid spend
                            assert!(o.accepted(), "key {} replaced (variant {}) outside the signed subscript, still valid: library={:?} expected=Accept\n{}\nnew locking={}", k, variant, o, case.describe(), hex::encode(&lock2));
                            checked += 1;
                        }
                    }
                }
            }
        }
    }
    assert!(checked > 1500, "{}", checked);
}

// ---------------------------------------------------------------------------------------------------------------
// E06..: CHECKMULTISIG matching protocol
// ---------------------------------------------------------------------------------------------------------------
struct Multi {
    rtx: RTx,
    lock: Vec<u8>,
    value: u64,
    keys: Vec<Key>,
}
impl Multi {
    fn new(m_push: Vec<u8>, keys: Vec<Key>, n_push: Vec<u8>, op: u8, tail: Vec<u8>) -> Multi {
        let mut elems = vec![m_push];
        for k in &keys {
            elems.push(push(&k.pk(true)));
        }
        elems.push(n_push);
        elems.push(vec![op]);
        elems.push(tail);
        Multi { rtx: simple_tx(2, 2), lock: cat(&elems), value: 5000, keys }
    }
    fn std(m: usize, keys: Vec<Key>) -> Multi {
        let n = keys.len();
        Multi::new(small(m), keys, small(n), OP_CHECKMULTISIG, vec![])
    }
    fn sig(&self, key: &Key, flag: u8) -> Vec<u8> {
        key.sign_tx(&self.rtx, 0, &self.lock, self.value, flag)
    }
    fn run_with(&self, unlocking: Vec<u8>) -> Outcome {
        let mut t = self.rtx.clone();
        t.ins[0].script_sig = unlocking;
        run(&t, 0, &self.lock, Some(self.value))
    }
    fn run_sigs(&self, sigs: &[Vec<u8>]) -> Outcome {
        let mut u = vec![OP_0];
        for s in sigs {
            u.extend(push(s));
        }
        self.run_with(u)
    }
}

#[test]
fn ok_e06_multisig_signatures_must_follow_key_order() {
    let (a, b, c) = (Key::new(1), Key::new(2), Key::new(3));
    let ms = Multi::std(2, vec![a.clone(), b.clone(), c.clone()]);
    for flag in STANDARD_FLAGS {
        let (sa, sb, sc) = (ms.sig(&a, flag), ms.sig(&b, flag), ms.sig(&c, flag));
        for (sigs, expect, name) in [
            (vec![sa.clone(), sb.clone()], true, "A B"),
            (vec![sa.clone(), sc.clone()], true, "A C"),
            (vec![sb.clone(), sc.clone()], true, "B C"),
            (vec![sb.clone(), sa.clone()], false, "B A"),
            (vec![sc.clone(), sa.clone()], false, "C A"),
            (vec![sc.clone(), sb.clone()], false, "C B"),
            (vec![sa.clone(), sa.clone()], false, "A A (each key used at most once)"),
            (vec![sc.clone(), sc.clone()], false, "C C"),
        ] {
            let o = ms.run_sigs(&sigs);
            assert_eq!(o.accepted(), expect, "2-of-3 sigs {} flag {:02x}: library={:?}", name, flag, o);
            assert!(o.accepted() || o.rejected(), "{:?}", o);
        }
    }
}

#[test]
fn ok_e07_multisig_three_of_three_all_permutations() {
    let keys = vec![Key::new(11), Key::new(12), Key::new(13)];
    let ms = Multi::std(3, keys.clone());
    let sigs: Vec<Vec<u8>> = keys.iter().enumerate().map(|(i, k)| ms.sig(k, STANDARD_FLAGS[i * 5 % 12])).collect();
    for perm in [[0, 1, 2], [0, 2, 1], [1, 0, 2], [1, 2, 0], [2, 0, 1], [2, 1, 0]] {
        let o = ms.run_sigs(&[sigs[perm[0]].clone(), sigs[perm[1]].clone(), sigs[perm[2]].clone()]);
        assert_eq!(o.accepted(), perm == [0, 1, 2], "3-of-3 order {:?}: {:?}", perm, o);
    }
}

#[test]
fn ok_e08_multisig_duplicate_keys() {
    let (a, b) = (Key::new(21), Key::new(22));
    // keys A A B, 2-of-3: A's signature twice is one signature per listed key => valid
    let ms = Multi::std(2, vec![a.clone(), a.clone(), b.clone()]);
    let (sa, sb) = (ms.sig(&a, 0x41), ms.sig(&b, 0x41));
    assert!(ms.run_sigs(&[sa.clone(), sa.clone()]).accepted(), "A A against keys A A B");
    assert!(ms.run_sigs(&[sa.clone(), sb.clone()]).accepted(), "A B against keys A A B");
    assert!(ms.run_sigs(&[sb.clone(), sa.clone()]).rejected(), "B A against keys A A B");
    assert!(ms.run_sigs(&[sb.clone(), sb.clone()]).rejected(), "B B against keys A A B");
    // keys A B A: B A is in order (B = key 2, A = key 3)
    let ms = Multi::std(2, vec![a.clone(), b.clone(), a.clone()]);
    let (sa, sb) = (ms.sig(&a, 0x01), ms.sig(&b, 0xc3));
    assert!(ms.run_sigs(&[sb.clone(), sa.clone()]).accepted(), "B A against keys A B A");
    assert!(ms.run_sigs(&[sa.clone(), sa.clone()]).accepted(), "A A against keys A B A");
    // 3-of-3 with A A A needs three signatures, two do not do
    let ms = Multi::std(3, vec![a.clone(), a.clone(), a.clone()]);
    let sa = ms.sig(&a, 0x42);
    assert!(ms.run_sigs(&[sa.clone(), sa.clone(), sa.clone()]).accepted());
    assert!(ms.run_sigs(&[sa.clone(), sa.clone()]).rejected(), "3-of-3 with two signatures");
}

#[test]
fn ok_e09_multisig_wrong_number_of_signatures_and_dummy() {
    let (a, b, c) = (Key::new(31), Key::new(32), Key::new(33));
    let ms = Multi::std(2, vec![a.clone(), b.clone(), c.clone()]);
    let (sa, sb, sc) = (ms.sig(&a, 0x41), ms.sig(&b, 0x41), ms.sig(&c, 0x41));
    // one signature for 2-of-3: the dummy is then taken as a signature and nothing is left for the dummy
    let o = ms.run_sigs(&[sa.clone()]);
    assert!(o.rejected(), "one signature for 2-of-3: {:?}", o);
    // no dummy at all
    let o = ms.run_with(cat(&[push(&sa), push(&sb)]));
    assert!(o.rejected(), "no dummy element: {:?}", o);
    // three signatures for 2-of-3: the two topmost are used (B C), A is the dummy: consensus accepts (NULLDUMMY is policy)
    let o = ms.run_with(cat(&[push(&sa), push(&sb), push(&sc)]));
    assert!(o.accepted(), "dummy = a signature, sigs B C: {:?}", o);
    // three signatures and a dummy: the item below is left on the stack, the result is still true
    let o = ms.run_sigs(&[sa.clone(), sb.clone(), sc.clone()]);
    assert!(o.accepted(), "extra item under the dummy: {:?}", o);
    // non empty dummy
    let o = ms.run_with(cat(&[vec![OP_1], push(&sa), push(&sc)]));
    assert!(o.accepted(), "dummy OP_1 (consensus does not look at the dummy): {:?}", o);
    // a valid signature among garbage in the wrong position
    let o = ms.run_sigs(&[sc.clone(), sa.clone()]);
    assert!(o.rejected());
}

// ---------------------------------------------------------------------------------------------------------------
// SIGHASH_SINGLE with an input index that has no matching output
// ---------------------------------------------------------------------------------------------------------------
fn single_case(flag: u8, fam: Fam) -> (Case, Outcome) {
    let mut rng = Rng(10);
    // two inputs, one output, spending input 1
    let case = build_case(&mut rng, fam, &vec![flag; 1], 2, 1, 1, &[]);
    let o = case.run();
    (case, o)
}

/// FORKID digest, SIGHASH_SINGLE, input 1 of a transaction with one output.
/// Spec (replay-protected-sighash / BIP143 item 8): "If sighash type is SINGLE and the input index is smaller than the
/// number of outputs, hashOutputs is the double SHA256 of the output with the same index as the input; otherwise
/// hashOutputs is a uint256 of 0x0000......0000." The preimage is well defined and a signature over it is valid.
#[test]
fn violation_single_forkid_input_index_without_matching_output_rejected() {
    for flag in [0x43u8, 0xc3] {
        for fam in [Fam::P2pk, Fam::P2pkh, Fam::Multi(1, 1)] {
            let (case, o) = single_case(flag, fam);
            assert!(
                o.accepted(),
                "valid signature (flag {:02x}, hashOutputs = 32 zero bytes because input index 1 >= 1 output) is not accepted: library={:?} expected=Accept\n{}",
                flag,
                o,
                case.describe()
            );
        }
    }
}

/// Original digest algorithm, SIGHASH_SINGLE, input 1 of a transaction with one output: the digest is the number 1
/// (uint256 "one", bytes 01 00 .. 00) - the well known SIGHASH_SINGLE rule of the original client, kept by every node.
#[test]
fn violation_borderline_single_legacy_input_index_without_matching_output_rejected() {
    for flag in [0x03u8, 0x83] {
        let (case, o) = single_case(flag, Fam::P2pk);
        assert!(o.accepted(), "valid signature over the digest 0100..00 (legacy SIGHASH_SINGLE, flag {:02x}, input index 1 >= 1 output) is not accepted: library={:?} expected=Accept\n{}", flag, o, case.describe());
    }
}

/// control: the same shapes with a second output are accepted
#[test]
fn ok_e10_single_with_matching_output_accepts() {
    let mut rng = Rng(10);
    for flag in [0x43u8, 0xc3, 0x03, 0x83] {
        let case = build_case(&mut rng, Fam::P2pk, &[flag], 2, 2, 1, &[]);
        assert!(case.run().accepted(), "{}", case.describe());
        // and outputs other than the one at the input's index are free
        let mut m = case.rtx.clone();
        m.outs[0].value ^= 1;
        assert!(run(&m, 1, &case.lock, Some(case.value)).accepted());
        let mut m = case.rtx.clone();
        m.outs[1].value ^= 1;
        assert!(run(&m, 1, &case.lock, Some(case.value)).rejected());
    }
}

// ---------------------------------------------------------------------------------------------------------------
// flag bytes outside the twelve
// ---------------------------------------------------------------------------------------------------------------
/// Signs, for a flag byte outside the twelve, every digest that could be meant and returns what was accepted:
/// variant 0 = reference digest for the flag as it is (FORKID layout if bit 0x40 is set, else original layout),
/// variant 1 = reference digest of the other layout, variant 2 = original layout with the whole byte in the type field.
fn try_nonstandard_flag(flag: u8) -> Vec<(u8, usize, Outcome)> {
    let mut rng = Rng(11);
    let case = build_case(&mut rng, Fam::P2pk, &[0x41], 2, 2, 0, &[]);
    let key = &case.keys[0];
    let mut accepted = vec![];
    let digests = [ref_digest(&case.rtx, 0, &case.subscript, case.value, flag), ref_digest(&case.rtx, 0, &case.subscript, case.value, flag ^ 0x40), {
        let mut t = case.rtx.clone();
        for i in t.ins.iter_mut() {
            i.script_sig = vec![];
        }
        t.ins[0].script_sig = case.subscript.clone();
        if flag & 0x80 != 0 {
            t.ins = vec![t.ins[0].clone()];
        }
        let mut pre = t.ser();
        pre.extend_from_slice(&(flag as u32).to_le_bytes());
        sha256d(&pre)
    }];
    for (n, d) in digests.iter().enumerate() {
        let mut sig = key.sign_der(d);
        sig.push(flag);
        let mut m = case.rtx.clone();
        m.ins[0].script_sig = push(&sig);
        let o = run(&m, 0, &case.lock, Some(case.value));
        if !o.rejected() {
            accepted.push((flag, n, o));
        }
    }
    accepted
}

/// Every flag byte that is not one of the twelve (0x40 and 0x80 are looked at separately below): none may be accepted
/// (base type must be 1..3: STRICTENC "SIG_HASHTYPE"; the property only names twelve flag bytes).
#[test]
fn ok_e11_flag_bytes_outside_the_twelve_never_accept() {
    let mut accepted = vec![];
    for flag in 0u8..=255 {
        if STANDARD_FLAGS.contains(&flag) || flag == 0x40 || flag == 0x80 {
            continue;
        }
        accepted.extend(try_nonstandard_flag(flag));
    }
    assert!(accepted.is_empty(), "non-standard flag bytes accepted (flag, digest variant, outcome): {:02x?}", accepted);
}

/// BORDERLINE (flag byte outside the property's twelve). Flag byte 0x40 = FORKID with base type 0. A node either refuses it
/// (STRICTENC: base type must be ALL, NONE or SINGLE) or, without STRICTENC, computes the FORKID (BIP143 layout) digest because
/// bit 0x40 is set. The library accepts a signature over the *original-layout* digest with type 0x40 - a digest no rule selects.
#[test]
fn violation_borderline_flag_byte_0x40_accepted_over_legacy_layout_digest() {
    let accepted = try_nonstandard_flag(0x40);
    assert!(accepted.is_empty(), "flag byte 0x40 (not one of the twelve, base type 0): accepted (flag, digest variant, outcome) = {:02x?}, expected: no acceptance", accepted);
}

/// BORDERLINE (flag byte outside the property's twelve). Flag byte 0x80 = ANYONECANPAY with base type 0: STRICTENC refuses it
/// (SIG_HASHTYPE); only the original non-strict client treated base type 0 like ALL. The library accepts it.
#[test]
fn violation_borderline_flag_byte_0x80_accepted() {
    let accepted = try_nonstandard_flag(0x80);
    assert!(accepted.is_empty(), "flag byte 0x80 (not one of the twelve, base type 0): accepted (flag, digest variant, outcome) = {:02x?}, expected: no acceptance", accepted);
}

// ---------------------------------------------------------------------------------------------------------------
// standard spends assembled and signed through the library's own API
// ---------------------------------------------------------------------------------------------------------------
fn lib_flag(flag: u8) -> SigHash {
    SigHash::try_from(flag).unwrap()
}

#[test]
fn ok_e12_standard_spends_through_the_library_api_are_accepted() {
    let mut rng = Rng(12);
    let wifs = ["L2WAdy8C19GHNtZDSkbsVBJrBaF9XHpPLTgmnc2N5aGyguhJf7zh", "Kz859spUJBWUBTYqesPMbW1kmFZ7BisBSJckSVYthvvFZ8cRnaPd", "KxQZuMUEecRFubLb52hmfzK4q1Mq4Wi2FfaEs7ZXHkF2cuJqjK16"];
    for flag in STANDARD_FLAGS {
        for compressed in [true, false] {
            for n_in in 1..=3usize {
                let idx = rng.below(n_in);
                let privs: Vec<PrivateKey> = wifs.iter().map(|w| PrivateKey::from_wif(w).unwrap().compress_public_key(compressed)).collect();
                let pubs: Vec<_> = privs.iter().map(|p| p.to_public_key().unwrap()).collect();
                let address = P2PKHAddress::from_pubkey(&pubs[0]).unwrap();
                let mut locks: Vec<(String, Script)> = vec![
                    ("p2pkh".into(), address.get_locking_script().unwrap()),
                    ("p2pk".into(), Script::from_asm_string(&format!("{} OP_CHECKSIG", pubs[0].to_hex().unwrap())).unwrap()),
                ];
                for n in 1..=3usize {
                    for m in 1..=n {
                        let keys: Vec<String> = pubs[..n].iter().map(|p| p.to_hex().unwrap()).collect();
                        locks.push((format!("multi {} {}", m, n), Script::from_asm_string(&format!("OP_{} {} OP_{} OP_CHECKMULTISIG", m, keys.join(" "), n)).unwrap()));
                    }
                }
                for (name, lock) in locks {
                    let value = random_value(&mut rng);
                    let mut tx = Transaction::new(1, rng.next() as u32);
                    for i in 0..n_in {
                        let mut txin = TxIn::new(&rng.bytes(32), i as u32, &Script::default(), Some(rng.next() as u32));
                        if i == idx {
                            txin.set_locking_script(&lock);
                            txin.set_satoshis(value);
                        }
                        tx.add_input(&txin);
                    }
                    for _ in 0..=idx {
                        tx.add_output(&TxOut::new(rng.next() % 10000, &address.get_locking_script().unwrap()));
                    }
                    let unlocking = if name == "p2pkh" {
                        let sig = tx.sign(&privs[0], lib_flag(flag), idx, &lock, value).unwrap();
                        address.get_unlocking_script(&pubs[0], &sig).unwrap()
                    } else if name == "p2pk" {
                        let sig = tx.sign(&privs[0], lib_flag(flag), idx, &lock, value).unwrap();
                        Script::from_asm_string(&sig.to_hex().unwrap()).unwrap()
                    } else {
                        let m: usize = name.split(' ').nth(1).unwrap().parse().unwrap();
                        let n: usize = name.split(' ').nth(2).unwrap().parse().unwrap();
                        // the last m of the n keys sign
                        let sigs: Vec<String> = (n - m..n).map(|k| tx.sign(&privs[k], lib_flag(flag), idx, &lock, value).unwrap().to_hex().unwrap()).collect();
                        Script::from_asm_string(&format!("OP_0 {}", sigs.join(" "))).unwrap()
                    };
                    let mut txin = tx.get_input(idx).unwrap();
                    txin.set_unlocking_script(&unlocking);
                    tx.set_input(idx, &txin);
                    let (o, stack) = run_tx(&tx, idx);
                    assert!(o.accepted(), "{} flag {:02x} compressed={} input {}/{}: library={:?} stack={:?} tx={}", name, flag, compressed, idx, n_in, o, stack, tx.to_hex().unwrap());
                    // and the reference agrees that these signatures are over the right digest: mutate the value => reject
                    let mut txin = tx.get_input(idx).unwrap();
                    txin.set_satoshis(value ^ 1);
                    let mut tx2 = tx.clone();
                    tx2.set_input(idx, &txin);
                    let (o2, _) = run_tx(&tx2, idx);
                    assert_eq!(o2.accepted(), flag & 0x40 == 0, "{} flag {:02x}: value changed after signing, library={:?} (only the FORKID digest commits to the value)", name, flag, o2);
                }
            }
        }
    }
}

/// Signing through the library fills its hash cache; every later change through the public setters must be seen by the
/// interpreter (a stale cache would keep an old signature valid).
#[test]
fn ok_e13_changes_through_the_library_setters_after_signing_are_seen() {
    let privk = PrivateKey::from_wif("L2WAdy8C19GHNtZDSkbsVBJrBaF9XHpPLTgmnc2N5aGyguhJf7zh").unwrap();
    let pubk = privk.to_public_key().unwrap();
    let lock = Script::from_asm_string(&format!("{} OP_CHECKSIG", pubk.to_hex().unwrap())).unwrap();
    let build = || {
        let mut tx = Transaction::new(1, 0);
        for i in 0..2u32 {
            let mut txin = TxIn::new(&[i as u8 + 1; 32], i, &Script::default(), Some(7));
            if i == 0 {
                txin.set_locking_script(&lock);
                txin.set_satoshis(1000);
            }
            tx.add_input(&txin);
        }
        tx.add_output(&TxOut::new(10, &lock));
        tx.add_output(&TxOut::new(20, &lock));
        let sig = tx.sign(&privk, SigHash::InputsOutputs, 0, &lock, 1000).unwrap();
        let mut txin = tx.get_input(0).unwrap();
        txin.set_unlocking_script(&Script::from_asm_string(&sig.to_hex().unwrap()).unwrap());
        tx.set_input(0, &txin);
        tx
    };
    assert!(run_tx(&build(), 0).0.accepted());
    let mut checks: Vec<(&str, Transaction)> = vec![];
    let mut t = build();
    t.set_output(1, &TxOut::new(21, &lock));
    checks.push(("set_output", t));
    let mut t = build();
    t.add_output(&TxOut::new(21, &lock));
    checks.push(("add_output", t));
    let mut t = build();
    t.prepend_output(&TxOut::new(21, &lock));
    checks.push(("prepend_output", t));
    let mut t = build();
    t.insert_output(1, &TxOut::new(21, &lock));
    checks.push(("insert_output", t));
    let mut t = build();
    t.add_outputs(vec![TxOut::new(21, &lock)]);
    checks.push(("add_outputs", t));
    let mut t = build();
    let mut other = t.get_input(1).unwrap();
    other.set_sequence(8);
    t.set_input(1, &other);
    checks.push(("set_input sequence of the other input", t));
    let mut t = build();
    let mut other = t.get_input(1).unwrap();
    other.set_vout(9);
    t.set_input(1, &other);
    checks.push(("set_input vout of the other input", t));
    let mut t = build();
    t.add_input(&TxIn::new(&[5; 32], 0, &Script::default(), None));
    checks.push(("add_input", t));
    let mut t = build();
    t.add_inputs(vec![TxIn::new(&[5; 32], 0, &Script::default(), None)]);
    checks.push(("add_inputs", t));
    let mut t = build();
    t.insert_input(2, &TxIn::new(&[5; 32], 0, &Script::default(), None));
    checks.push(("insert_input behind", t));
    let mut t = build();
    t.set_version(2);
    checks.push(("set_version", t));
    let mut t = build();
    t.set_nlocktime(2);
    checks.push(("set_nlocktime", t));
    for (what, t) in checks {
        let (o, _) = run_tx(&t, 0);
        assert!(o.rejected(), "{} after signing with ALL|FORKID: library={:?} expected=Reject", what, o);
    }
    // through the serialised forms too (cache is not serialised, the scripts and the value are)
    let t = build();
    let back = Transaction::from_compact_bytes(&t.to_compact_bytes().unwrap()).unwrap();
    assert!(run_tx(&back, 0).0.accepted(), "compact round trip keeps the spend valid");
    let back = Transaction::from_json_string(&t.to_json_string().unwrap()).unwrap();
    assert!(run_tx(&back, 0).0.accepted(), "json round trip keeps the spend valid");
}

// ---------------------------------------------------------------------------------------------------------------
// code separators in the unlocking script
// ---------------------------------------------------------------------------------------------------------------
/// The unlocking script is a script of its own: a separator executed there does not move the start of the subscript of
/// the locking script (each script evaluation starts with the subscript at its own beginning).
#[test]
fn ok_e14_code_separators_in_the_unlocking_script_do_not_move_the_subscript() {
    let mut rng = Rng(14);
    for round in 0..300 {
        let fams = families();
        let fam = fams[rng.below(fams.len())].clone();
        let flags: Vec<u8> = (0..n_sigs(&fam)).map(|_| STANDARD_FLAGS[rng.below(12)]).collect();
        let n_in = 1 + rng.below(2);
        let idx = rng.below(n_in);
        let seps = random_seps(&mut rng, n_elems(&fam));
        let case = build_case(&mut rng, fam, &flags, n_in, idx + 1, idx, &seps);
        let mut elems = script_elements(&case.rtx.ins[idx].script_sig);
        for _ in 0..1 + rng.below(3) {
            let at = rng.below(elems.len() + 1);
            elems.insert(at, vec![OP_CODESEPARATOR]);
        }
        let mut m = case.rtx.clone();
        m.ins[idx].script_sig = cat(&elems);
        let o = run(&m, idx, &case.lock, Some(case.value));
        assert!(o.accepted(), "round {}: separators in the unlocking script: library={:?} expected=Accept\n{}\nunlocking with separators={}", round, o, case.describe(), hex::encode(&m.ins[idx].script_sig));
        // and a signature over a subscript that such a separator would cut (the locking script minus its first element) is not valid
        if case.seps.is_empty() {
            let cut: Vec<u8> = cat(&case.lock_elems[1..]);
            let sigs: Vec<Vec<u8>> = case.signers.iter().zip(case.flags.iter()).map(|(k, f)| case.keys[*k].sign_tx(&case.rtx, idx, &cut, case.value, *f)).collect();
            let mut elems = script_elements(&case.unlocking(&sigs));
            elems.push(vec![OP_CODESEPARATOR]);
            let mut m = case.rtx.clone();
            m.ins[idx].script_sig = cat(&elems);
            let o = run(&m, idx, &case.lock, Some(case.value));
            assert!(o.rejected(), "signature over a cut subscript: {:?}", o);
        }
    }
}

// ---------------------------------------------------------------------------------------------------------------
// several signature checks in one locking script, each with its own subscript (own oracle, all flags)
// ---------------------------------------------------------------------------------------------------------------
#[test]
fn ok_e15_several_checks_each_commit_to_their_own_subscript() {
    let mut rng = Rng(15);
    let (a, b, c) = (Key::new(41), Key::new(42), Key::new(43));
    for round in 0..60 {
        let fa = STANDARD_FLAGS[rng.below(12)];
        let fb = STANDARD_FLAGS[rng.below(12)];
        let fc = STANDARD_FLAGS[rng.below(12)];
        // <pkA> CHECKSIGVERIFY CODESEP <pkB> CHECKSIGVERIFY CODESEP CODESEP 1 <pkC> 1 CHECKMULTISIGVERIFY CODESEP 1
        let e: Vec<Vec<u8>> = vec![
            push(&a.pk(true)),
            vec![OP_CHECKSIGVERIFY],
            vec![OP_CODESEPARATOR],
            push(&b.pk(false)),
            vec![OP_CHECKSIGVERIFY],
            vec![OP_CODESEPARATOR],
            vec![OP_CODESEPARATOR],
            small(1),
            push(&c.pk(true)),
            small(1),
            vec![OP_CHECKMULTISIGVERIFY],
            vec![OP_CODESEPARATOR],
            small(1),
        ];
        let lock = cat(&e);
        let mut rtx = random_tx(&mut rng, 2, 2);
        let value = random_value(&mut rng);
        let idx = round % 2;
        let sa = a.sign_tx(&rtx, idx, &cat(&e[0..]), value, fa);
        let sb = b.sign_tx(&rtx, idx, &cat(&e[3..]), value, fb);
        let sc = c.sign_tx(&rtx, idx, &cat(&e[7..]), value, fc);
        // stack order: the multisig runs last, so its items are deepest
        rtx.ins[idx].script_sig = cat(&[vec![OP_0], push(&sc), push(&sb), push(&sa)]);
        let o = run(&rtx, idx, &lock, Some(value));
        assert!(o.accepted(), "flags {:02x} {:02x} {:02x}: {:?}\n{}", fa, fb, fc, o, describe(&rtx, idx, &lock, Some(value)));
        // each signature made for a neighbouring subscript fails (when the digest differs)
        for (which, wrong_from) in [(0usize, 3usize), (1, 0), (1, 6), (2, 6), (2, 5), (2, 3), (2, 12)] {
            let (key, flag, right_from) = [(&a, fa, 0usize), (&b, fb, 3), (&c, fc, 7)][which];
            if ref_digest(&rtx, idx, &cat(&e[wrong_from..]), value, flag) == ref_digest(&rtx, idx, &cat(&e[right_from..]), value, flag) {
                continue; // legacy digests drop the separators: 5, 6 and 7 start the same subscript
            }
            let wrong = key.sign_tx(&rtx, idx, &cat(&e[wrong_from..]), value, flag);
            let mut sigs = [sa.clone(), sb.clone(), sc.clone()];
            sigs[which] = wrong;
            let mut m = rtx.clone();
            m.ins[idx].script_sig = cat(&[vec![OP_0], push(&sigs[2]), push(&sigs[1]), push(&sigs[0])]);
            let o = run(&m, idx, &lock, Some(value));
            assert!(o.rejected(), "signature {} made for the subscript from element {} instead of {}: {:?}", which, wrong_from, right_from, o);
        }
    }
}

// ---------------------------------------------------------------------------------------------------------------
// stack effects
// ---------------------------------------------------------------------------------------------------------------
fn final_stack(rtx: &RTx, idx: usize, lock: &[u8], value: u64) -> (Outcome, Vec<Vec<u8>>) {
    run_tx(&lib_tx(rtx, idx, lock, Some(value)), idx)
}

#[test]
fn ok_e16_stack_effects_of_the_four_opcodes() {
    let a = Key::new(51);
    let b = Key::new(52);
    let mut rtx = simple_tx(1, 1);
    let value = 77;
    let marker = vec![0xaa, 0xbb];
    // CHECKSIG: pops 2 pushes 01
    let lock = cat(&[push(&a.pk(true)), vec![OP_CHECKSIG]]);
    let sig = a.sign_tx(&rtx, 0, &lock, value, 0x41);
    rtx.ins[0].script_sig = cat(&[push(&marker), push(&sig)]);
    let (o, stack) = final_stack(&rtx, 0, &lock, value);
    assert!(o.accepted());
    assert_eq!(stack, vec![marker.clone(), vec![1]], "CHECKSIG success leaves marker, 01");
    // CHECKSIG failing with a well formed signature by another key: pushes the empty vector, no error
    let bad = b.sign_tx(&rtx, 0, &lock, value, 0x41);
    rtx.ins[0].script_sig = cat(&[push(&marker), push(&bad)]);
    let (o, stack) = final_stack(&rtx, 0, &lock, value);
    assert!(o.rejected(), "{:?}", o);
    if let Outcome::RejectFalse(_) = o {
        assert_eq!(stack, vec![marker.clone(), vec![]], "CHECKSIG failure leaves marker, empty");
    }
    // CHECKSIGVERIFY: pops 2, pushes nothing
    let lock = cat(&[push(&a.pk(true)), vec![OP_CHECKSIGVERIFY]]);
    let sig = a.sign_tx(&rtx, 0, &lock, value, 0x41);
    rtx.ins[0].script_sig = cat(&[push(&marker), push(&sig)]);
    let (o, stack) = final_stack(&rtx, 0, &lock, value);
    assert!(o.accepted(), "{:?}", o);
    assert_eq!(stack, vec![marker.clone()], "CHECKSIGVERIFY success leaves only what was below");
    rtx.ins[0].script_sig = push(&sig);
    let (o, stack) = final_stack(&rtx, 0, &lock, value);
    assert!(o.rejected(), "nothing left on the stack after CHECKSIGVERIFY is not a success: {:?} {:?}", o, stack);
    rtx.ins[0].script_sig = cat(&[push(&marker), push(&b.sign_tx(&rtx, 0, &lock, value, 0x41))]);
    let (o, _) = final_stack(&rtx, 0, &lock, value);
    assert!(matches!(o, Outcome::RejectErr(_)), "CHECKSIGVERIFY failure is an error: {:?}", o);
    // CHECKMULTISIG: pops n+m+3, pushes 01
    let lock = cat(&multisig_elems(1, &[a.pk(true), b.pk(true)]));
    let sig = b.sign_tx(&rtx, 0, &lock, value, 0xc2);
    rtx.ins[0].script_sig = cat(&[push(&marker), vec![OP_0], push(&sig)]);
    let (o, stack) = final_stack(&rtx, 0, &lock, value);
    assert!(o.accepted(), "{:?}", o);
    assert_eq!(stack, vec![marker.clone(), vec![1]]);
    // CHECKMULTISIGVERIFY
    let mut e = multisig_elems(1, &[a.pk(true), b.pk(true)]);
    *e.last_mut().unwrap() = vec![OP_CHECKMULTISIGVERIFY];
    let lock = cat(&e);
    let sig = b.sign_tx(&rtx, 0, &lock, value, 0xc2);
    rtx.ins[0].script_sig = cat(&[push(&marker), vec![OP_0], push(&sig)]);
    let (o, stack) = final_stack(&rtx, 0, &lock, value);
    assert!(o.accepted(), "{:?}", o);
    assert_eq!(stack, vec![marker.clone()]);
    rtx.ins[0].script_sig = cat(&[push(&marker), vec![OP_0], push(&Key::stranger(1).sign_tx(&rtx, 0, &lock, value, 0xc2))]);
    let (o, _) = final_stack(&rtx, 0, &lock, value);
    assert!(matches!(o, Outcome::RejectErr(_)), "CHECKMULTISIGVERIFY failure is an error: {:?}", o);
}

// ---------------------------------------------------------------------------------------------------------------
// key encodings
// ---------------------------------------------------------------------------------------------------------------
/// x, y of the public key
fn xy(k: &Key) -> (Vec<u8>, Vec<u8>) {
    let u = k.pk(false);
    (u[1..33].to_vec(), u[33..65].to_vec())
}

/// For P2PK and multisig: the locking script carries a "key" in an encoding that is not a Bitcoin public key encoding,
/// the owner of the underlying point signs the digest for that very script. CHECKSIG must not succeed
/// (STRICTENC: PUBKEYTYPE error; without it CPubKey::IsValid() is false and the check fails).
#[test]
fn ok_e17_keys_in_non_standard_encodings_never_verify() {
    let k = Key::new(61);
    let (x, y) = xy(&k);
    let odd = y[31] & 1;
    let mut encodings: Vec<(&str, Vec<u8>)> = vec![
        ("hybrid 06/07 matching parity", [vec![0x06 + odd], x.clone(), y.clone()].concat()),
        ("hybrid 06/07 wrong parity", [vec![0x07 - odd], x.clone(), y.clone()].concat()),
        ("compact 05 || x", [vec![0x05], x.clone()].concat()),
        ("tag 04 with 33 bytes", [vec![0x04], x.clone()].concat()),
        ("tag 02 with 65 bytes", [vec![0x02], x.clone(), y.clone()].concat()),
        ("x only (32 bytes)", x.clone()),
        ("x || y without tag", [x.clone(), y.clone()].concat()),
        ("compressed with a trailing byte", [k.pk(true), vec![0]].concat()),
        ("uncompressed with a trailing byte", [k.pk(false), vec![0]].concat()),
        ("identity 00", vec![0]),
        ("empty", vec![]),
        ("uncompressed with y negated but tag 04 and original y low byte flipped", {
            let mut u = k.pk(false);
            u[64] ^= 1;
            u
        }),
    ];
    // compressed encoding with the other parity is a *different valid key*: the signature is not by that key
    encodings.push(("compressed, other parity (a different key)", [vec![0x03 - odd], x.clone()].concat()));
    for (what, enc) in encodings {
        for multisig in [false, true] {
            let lock = if multisig { cat(&multisig_elems(1, &[enc.clone()])) } else { cat(&[push(&enc), vec![OP_CHECKSIG]]) };
            for flag in [0x41u8, 0x01] {
                let mut rtx = simple_tx(1, 1);
                let sig = k.sign_tx(&rtx, 0, &lock, 9, flag);
                rtx.ins[0].script_sig = if multisig { cat(&[vec![OP_0], push(&sig)]) } else { push(&sig) };
                let o = run(&rtx, 0, &lock, Some(9));
                assert!(o.rejected(), "key encoding '{}' ({}) multisig={} flag {:02x}: library={:?} expected=Reject", what, hex::encode(&enc), multisig, flag, o);
            }
        }
    }
    // control: compressed and uncompressed are accepted
    for enc in [k.pk(true), k.pk(false)] {
        let lock = cat(&[push(&enc), vec![OP_CHECKSIG]]);
        let mut rtx = simple_tx(1, 1);
        let sig = k.sign_tx(&rtx, 0, &lock, 9, 0x41);
        rtx.ins[0].script_sig = push(&sig);
        assert!(run(&rtx, 0, &lock, Some(9)).accepted());
    }
}

// ---------------------------------------------------------------------------------------------------------------
// signature encodings
// ---------------------------------------------------------------------------------------------------------------
/// Reference strict DER check (BIP66 IsValidSignatureEncoding) on sig-with-flag
fn bip66_valid(sig: &[u8]) -> bool {
    if sig.len() < 9 || sig.len() > 73 {
        return false;
    }
    if sig[0] != 0x30 || sig[1] as usize != sig.len() - 3 {
        return false;
    }
    let len_r = sig[3] as usize;
    if 5 + len_r >= sig.len() {
        return false;
    }
    let len_s = sig[5 + len_r] as usize;
    if len_r + len_s + 7 != sig.len() {
        return false;
    }
    if sig[2] != 0x02 || len_r == 0 || sig[4] & 0x80 != 0 {
        return false;
    }
    if len_r > 1 && sig[4] == 0 && sig[5] & 0x80 == 0 {
        return false;
    }
    if sig[len_r + 4] != 0x02 || len_s == 0 || sig[len_r + 6] & 0x80 != 0 {
        return false;
    }
    if len_s > 1 && sig[len_r + 6] == 0 && sig[len_r + 7] & 0x80 == 0 {
        return false;
    }
    true
}

#[test]
fn ok_e18_re_encodings_of_a_valid_signature_are_rejected() {
    let k = Key::new(71);
    let lock = cat(&p2pk_elems(&k.pk(true)));
    let rtx = simple_tx(1, 1);
    let mut tried = 0;
    for salt in 0..40u32 {
        let mut t = rtx.clone();
        t.locktime = salt;
        let flag = STANDARD_FLAGS[salt as usize % 12];
        let d = ref_digest(&t, 0, &lock, 3, flag);
        let (r, s) = k.sign_rs(&d);
        let good = [der(&r, &s), vec![flag]].concat();
        assert!(bip66_valid(&good));
        let ri = der_int(&r);
        let si = der_int(&s);
        let mut variants: Vec<(&str, Vec<u8>)> = vec![];
        // padded r / s
        let pad = |i: &Vec<u8>| -> Vec<u8> {
            let mut v = vec![0x02, i[1] + 1, 0x00];
            v.extend_from_slice(&i[2..]);
            v
        };
        let seq = |body: Vec<u8>| -> Vec<u8> {
            let mut v = vec![0x30, body.len() as u8];
            v.extend(body);
            v
        };
        variants.push(("r padded with 00", seq([pad(&ri), si.clone()].concat())));
        variants.push(("s padded with 00", seq([ri.clone(), pad(&si)].concat())));
        variants.push(("long form sequence length", {
            let body = [ri.clone(), si.clone()].concat();
            let mut v = vec![0x30, 0x81, body.len() as u8];
            v.extend(body);
            v
        }));
        variants.push(("long form integer length", {
            let mut r2 = vec![0x02, 0x81, ri[1]];
            r2.extend_from_slice(&ri[2..]);
            seq([r2, si.clone()].concat())
        }));
        variants.push(("garbage byte inside the sequence", seq([ri.clone(), si.clone(), vec![0x00]].concat())));
        variants.push(("garbage byte after the sequence", [seq([ri.clone(), si.clone()].concat()), vec![0x00]].concat()));
        variants.push(("sequence length one too small", {
            let mut v = seq([ri.clone(), si.clone()].concat());
            v[1] -= 1;
            v
        }));
        variants.push(("sequence length one too large", {
            let mut v = seq([ri.clone(), si.clone()].concat());
            v[1] += 1;
            v
        }));
        variants.push(("BER indefinite length", {
            let mut v = vec![0x30, 0x80];
            v.extend([ri.clone(), si.clone(), vec![0, 0]].concat());
            v
        }));
        variants.push(("flag byte twice", [der(&r, &s), vec![flag]].concat()));
        variants.push(("r and s swapped", der(&s, &r)));
        variants.push(("compact 64 byte r||s", [r.to_vec(), s.to_vec()].concat()));
        variants.push(("no DER at all, only the flag", vec![]));
        if ri[2] == 0 {
            // r needed its 00: without it r reads negative
            variants.push(("r without its sign byte", {
                let mut r2 = vec![0x02, ri[1] - 1];
                r2.extend_from_slice(&ri[3..]);
                seq([r2, si.clone()].concat())
            }));
        }
        for (what, enc) in variants {
            let sig = [enc, vec![flag]].concat();
            let mut m = t.clone();
            m.ins[0].script_sig = push(&sig);
            let o = run(&m, 0, &lock, Some(3));
            assert!(!bip66_valid(&sig) || what == "r and s swapped", "harness: variant '{}' should not be strict DER", what);
            assert!(o.rejected(), "'{}' of a valid signature: library={:?} expected=Reject sig={}", what, o, hex::encode(&sig));
            tried += 1;
        }
        let mut m = t.clone();
        m.ins[0].script_sig = push(&good);
        assert!(run(&m, 0, &lock, Some(3)).accepted());
    }
    assert!(tried > 400);
}

/// r or s out of range: 0, n, n+1, 2^256-1; r+n (same x coordinate mod n) - none verifies
#[test]
fn ok_e19_out_of_range_r_and_s_reject() {
    let k = Key::new(72);
    let lock = cat(&p2pk_elems(&k.pk(true)));
    let rtx = simple_tx(1, 1);
    let d = ref_digest(&rtx, 0, &lock, 3, 0x41);
    let (r, s) = k.sign_rs(&d);
    let n = group_order();
    let big = |b: &[u8; 32]| BigUint::from_bytes_be(b);
    let enc = |x: &BigUint| -> Vec<u8> { x.to_bytes_be() };
    let cases: Vec<(&str, Vec<u8>, Vec<u8>)> = vec![
        ("r = 0", vec![0], s.to_vec()),
        ("s = 0", r.to_vec(), vec![0]),
        ("r = n", enc(&n), s.to_vec()),
        ("s = n", r.to_vec(), enc(&n)),
        ("s + n", r.to_vec(), enc(&(big(&s) + &n))),
        ("r + n", enc(&(big(&r) + &n)), s.to_vec()),
        ("n - s (high s)", r.to_vec(), enc(&(&n - big(&s)))),
        ("n - r", enc(&(&n - big(&r))), s.to_vec()),
        ("r = 2^256-1", vec![0xff; 32], s.to_vec()),
    ];
    for (what, r2, s2) in cases {
        let sig = [der(&r2, &s2), vec![0x41]].concat();
        let mut m = rtx.clone();
        m.ins[0].script_sig = push(&sig);
        let o = run(&m, 0, &lock, Some(3));
        assert!(o.rejected(), "{}: {:?}", what, o);
    }
}

// ---------------------------------------------------------------------------------------------------------------
// value missing
// ---------------------------------------------------------------------------------------------------------------
#[test]
fn ok_e20_forkid_signature_needs_the_declared_value() {
    let mut rng = Rng(20);
    for flag in [0x41u8, 0x42, 0x43, 0xc1, 0xc2, 0xc3] {
        let case = build_case(&mut rng, Fam::P2pkh, &[flag], 1, 1, 0, &[]);
        let o = run(&case.rtx, 0, &case.lock, None);
        assert!(o.rejected(), "no value declared, FORKID flag {:02x}: {:?}", flag, o);
        // in particular no default of 0 is taken
        let case0 = {
            let mut c = case.clone();
            c.value = 0;
            c.resign();
            c
        };
        assert!(case0.run().accepted());
        let o = run(&case0.rtx, 0, &case0.lock, None);
        assert!(o.rejected(), "signature over value 0 and no value declared, flag {:02x}: {:?}", flag, o);
    }
}

/// BORDERLINE: the original digest (flags 01 02 03 81 82 83) does not contain the value of the spent output, so the
/// signature is a valid signature over the specified preimage whatever the value is - also when none was declared on the
/// input. The interpreter refuses to run CHECKSIG at all without a declared value.
#[test]
fn violation_borderline_legacy_signature_rejected_when_no_value_is_declared() {
    let mut rng = Rng(21);
    for flag in [0x01u8, 0x02, 0x03, 0x81, 0x82, 0x83] {
        let case = build_case(&mut rng, Fam::P2pkh, &[flag], 1, 1, 0, &[]);
        assert!(case.run().accepted());
        let o = run(&case.rtx, 0, &case.lock, None);
        assert!(o.accepted(), "legacy flag {:02x}: the digest does not depend on the value, yet without a declared value library={:?}, expected=Accept\n{}", flag, o, case.describe());
    }
}

// ---------------------------------------------------------------------------------------------------------------
// multisig: keys that are never needed
// ---------------------------------------------------------------------------------------------------------------
/// BORDERLINE. 1-of-2 with keys [X, B] where X is 33 bytes that are no curve point (02 || x with x^3+7 a non-residue) and
/// B's owner signs. Reference nodes walk keys and signatures from the last to the first: the signature is checked against B
/// first, succeeds, and X is never looked at (its encoding 02||32 bytes passes the STRICTENC form check anyway) => accepted.
/// The library walks from the first key, fails to parse X and aborts with an error.
#[test]
fn violation_borderline_multisig_unparsable_earlier_key_aborts_although_signature_matches_later_key() {
    let b = Key::new(81);
    // find an x that is not on the curve
    let mut x = [0u8; 32];
    let mut n = 0u8;
    let bad = loop {
        x.copy_from_slice(&sha256(&[b'x', n]));
        let enc = [vec![0x02], x.to_vec()].concat();
        if k256::PublicKey::from_sec1_bytes(&enc).is_err() {
            break enc;
        }
        n += 1;
    };
    let lock = cat(&multisig_elems(1, &[bad.clone(), b.pk(true)]));
    let mut rtx = simple_tx(1, 1);
    let sig = b.sign_tx(&rtx, 0, &lock, 9, 0x41);
    rtx.ins[0].script_sig = cat(&[vec![OP_0], push(&sig)]);
    let o = run(&rtx, 0, &lock, Some(9));
    assert!(o.accepted(), "1-of-2, keys [not-a-point {}, B], signature by B: library={:?} expected=Accept (signature is valid for a supplied key, in order)\n{}", hex::encode(&bad), o, describe(&rtx, 0, &lock, Some(9)));
}

/// The mirror image: keys [A, X], signature by A. Reference nodes test the signature against X first; X has a well formed
/// encoding (02 || 32 bytes), the check merely fails, and A is tried next => accepted. The library never reaches X.
#[test]
fn ok_e21_multisig_unparsable_later_key_is_never_needed() {
    let a = Key::new(82);
    let mut x = [0u8; 32];
    let mut n = 0u8;
    let bad = loop {
        x.copy_from_slice(&sha256(&[b'x', n]));
        let enc = [vec![0x02], x.to_vec()].concat();
        if k256::PublicKey::from_sec1_bytes(&enc).is_err() {
            break enc;
        }
        n += 1;
    };
    let lock = cat(&multisig_elems(1, &[a.pk(true), bad]));
    let mut rtx = simple_tx(1, 1);
    let sig = a.sign_tx(&rtx, 0, &lock, 9, 0x41);
    rtx.ins[0].script_sig = cat(&[vec![OP_0], push(&sig)]);
    let o = run(&rtx, 0, &lock, Some(9));
    assert!(o.accepted(), "{:?}", o);
}

// ---------------------------------------------------------------------------------------------------------------
// m and n in unusual encodings
// ---------------------------------------------------------------------------------------------------------------
#[test]
fn ok_e22_counts_as_script_numbers() {
    let (a, b) = (Key::new(91), Key::new(92));
    let run_counts = |m_push: Vec<u8>, n_push: Vec<u8>, sigs_by: &[&Key]| -> Outcome {
        let ms = Multi::new(m_push, vec![a.clone(), b.clone()], n_push, OP_CHECKMULTISIG, vec![]);
        let sigs: Vec<Vec<u8>> = sigs_by.iter().map(|k| ms.sig(k, 0x41)).collect();
        ms.run_sigs(&sigs)
    };
    // plain
    assert!(run_counts(small(1), small(2), &[&b]).accepted());
    // the same numbers as one byte pushes and as padded two / five byte numbers (numbers need not be minimal by consensus)
    assert!(run_counts(push(&[1]), push(&[2]), &[&b]).accepted(), "01 / 02 as data pushes");
    assert!(run_counts(push(&[1, 0]), push(&[2, 0]), &[&b]).accepted(), "0100 / 0200");
    assert!(run_counts(push(&[2, 0, 0, 0]), push(&[2, 0, 0, 0]), &[&a, &b]).accepted(), "02000000 / 02000000");
    // n negative, n = 0 with keys present, n larger than the stack, m > n, m negative
    assert!(run_counts(small(1), vec![0x4f], &[&b]).rejected(), "n = -1");
    assert!(run_counts(small(1), push(&[0x82]), &[&b]).rejected(), "n = -2");
    assert!(run_counts(small(1), small(0), &[&b]).rejected(), "n = 0 < m = 1");
    assert!(run_counts(small(1), small(16), &[&b]).rejected(), "n = 16 with 2 keys on the stack");
    assert!(run_counts(small(3), small(2), &[&a, &b, &b]).rejected(), "m = 3 > n = 2");
    assert!(run_counts(vec![0x4f], small(2), &[&b]).rejected(), "m = -1");
    assert!(run_counts(push(&[0xff, 0xff, 0xff, 0xff, 0x7f]), small(2), &[&b]).rejected(), "m = 2^39-1");
    assert!(run_counts(small(1), push(&[0xff, 0xff, 0xff, 0xff, 0xff, 0xff, 0xff, 0xff, 0x7f]), &[&b]).rejected(), "n huge");
    // negative zero as m with keys present: m = 0 (see the borderline test below)
}

/// BORDERLINE (m = 0 is outside 1 <= m). OP_0 <keys> n CHECKMULTISIG needs no signatures and succeeds on every node
/// ("0-of-n"); the library treats m = 0 as an error.
#[test]
fn violation_borderline_zero_of_n_multisig_is_an_error() {
    let (a, b) = (Key::new(93), Key::new(94));
    let ms = Multi::new(small(0), vec![a, b], small(2), OP_CHECKMULTISIG, vec![]);
    let o = ms.run_with(vec![OP_0]);
    assert!(o.accepted(), "0-of-2 with only the dummy: library={:?} expected=Accept (no signature is required, none is supplied)", o);
}

#[test]
fn ok_e23_more_than_three_keys_and_many_keys() {
    // 2-of-5 and 1-of-21 (the 20 key limit is gone after Genesis; before, it is an error) - only the first is asserted
    let keys: Vec<Key> = (0..5).map(|i| Key::new(100 + i)).collect();
    let ms = Multi::std(2, keys.clone());
    let sigs = [ms.sig(&keys[1], 0x41), ms.sig(&keys[4], 0x01)];
    assert!(ms.run_sigs(&sigs).accepted());
    assert!(ms.run_sigs(&[sigs[1].clone(), sigs[0].clone()]).rejected());
    let keys: Vec<Key> = (0..21).map(|i| Key::new(100 + i)).collect();
    let ms = Multi::new(small(1), keys.clone(), push(&[21]), OP_CHECKMULTISIG, vec![]);
    let o = ms.run_sigs(&[ms.sig(&keys[20], 0x41)]);
    println!("1-of-21: {:?}", o);
    assert!(o.accepted() || o.rejected());
}

// ---------------------------------------------------------------------------------------------------------------
// empty signature
// ---------------------------------------------------------------------------------------------------------------
#[test]
fn ok_e24_empty_signature_never_accepts_in_the_standard_families() {
    let a = Key::new(95);
    for lock in [cat(&p2pk_elems(&a.pk(true))), cat(&multisig_elems(1, &[a.pk(true)]))] {
        let mut rtx = simple_tx(1, 1);
        rtx.ins[0].script_sig = vec![OP_0, OP_0];
        let o = run(&rtx, 0, &lock, Some(1));
        assert!(o.rejected(), "{:?}", o);
    }
}

/// BORDERLINE (locking script outside the three families). <pk> CHECKSIG NOT with an empty signature: the empty signature is
/// the one allowed way to make CHECKSIG push false (NULLFAIL), so the script succeeds on every node. The library raises an
/// error for a signature without flag byte instead of pushing false.
#[test]
fn violation_borderline_empty_signature_is_an_error_instead_of_false() {
    let a = Key::new(96);
    let lock = cat(&[push(&a.pk(true)), vec![OP_CHECKSIG, OP_NOT]]);
    let mut rtx = simple_tx(1, 1);
    rtx.ins[0].script_sig = vec![OP_0];
    let o = run(&rtx, 0, &lock, Some(1));
    assert!(o.accepted(), "OP_0 | <pk> OP_CHECKSIG OP_NOT: library={:?} expected=Accept (CHECKSIG pushes false for the empty signature)", o);
}

// ---------------------------------------------------------------------------------------------------------------
// big transactions, long script code, no outputs
// ---------------------------------------------------------------------------------------------------------------
#[test]
fn ok_e25_compact_size_boundaries_in_the_preimage() {
    let mut rng = Rng(25);
    let a = Key::new(97);
    for (n_in, n_out) in [(252usize, 252usize), (253, 253), (254, 300), (1, 0), (3, 0)] {
        for flag in STANDARD_FLAGS {
            let mut rtx = random_tx(&mut rng, n_in, n_out);
            let idx = if n_out == 0 { 0 } else { rng.below(n_in.min(n_out)) };
            if n_out == 0 && flag & 0x1f == 3 {
                continue; // SINGLE without output: see the violation tests
            }
            // script code longer than 252 bytes: P2PK followed by 300 separators (FORKID keeps them in the script code)
            let mut elems = p2pk_elems(&a.pk(false));
            for _ in 0..300 {
                elems.push(vec![OP_CODESEPARATOR]);
            }
            let lock = cat(&elems);
            let sig = a.sign_tx(&rtx, idx, &lock, 12345, flag);
            rtx.ins[idx].script_sig = push(&sig);
            let o = run(&rtx, idx, &lock, Some(12345));
            assert!(o.accepted(), "{} inputs {} outputs flag {:02x} input {}: {:?}", n_in, n_out, flag, idx, o);
            let mut m = rtx.clone();
            m.locktime ^= 1;
            assert!(run(&m, idx, &lock, Some(12345)).rejected());
        }
    }
}

// ---------------------------------------------------------------------------------------------------------------
// library signing entry points other than Transaction::sign
// ---------------------------------------------------------------------------------------------------------------
#[test]
fn ok_e26_other_library_signing_routes_are_accepted() {
    use bsv::{SighashSignature, SigningHash, ECDSA};
    let privk = PrivateKey::from_wif("Kz859spUJBWUBTYqesPMbW1kmFZ7BisBSJckSVYthvvFZ8cRnaPd").unwrap();
    let pubk = privk.to_public_key().unwrap();
    let lock = Script::from_asm_string(&format!("OP_CODESEPARATOR {} OP_CHECKSIG", pubk.to_hex().unwrap())).unwrap();
    let subscript = Script::from_asm_string(&format!("{} OP_CHECKSIG", pubk.to_hex().unwrap())).unwrap();
    for (i, flag) in STANDARD_FLAGS.iter().enumerate() {
        for route in 0..5 {
            let mut tx = Transaction::new(2, 99);
            let mut txin = TxIn::new(&[3; 32], 1, &Script::default(), None);
            txin.set_locking_script(&lock);
            txin.set_satoshis(600);
            tx.add_input(&txin);
            tx.add_output(&TxOut::new(500, &lock));
            let f = lib_flag(*flag);
            let sig_hex = match route {
                0 => tx.sign_with_k(&privk, &PrivateKey::from_bytes(&sha256(&[i as u8])).unwrap(), f, 0, &subscript, 600).unwrap().to_hex().unwrap(),
                1 | 2 | 3 => {
                    let preimage = tx.sighash_preimage(f, 0, &subscript, 600).unwrap();
                    let sig = match route {
                        1 => ECDSA::sign_with_deterministic_k(&privk, &preimage, SigningHash::Sha256d, false).unwrap(),
                        2 => ECDSA::sign_with_deterministic_k(&privk, &preimage, SigningHash::Sha256d, true).unwrap(),
                        _ => ECDSA::sign_with_random_k(&privk, &preimage, SigningHash::Sha256d, false).unwrap(),
                    };
                    SighashSignature::new(&sig, f, &preimage).to_hex().unwrap()
                }
                _ => {
                    let preimage = tx.sighash_preimage(f, 0, &subscript, 600).unwrap();
                    let sig = ECDSA::sign_digest_with_deterministic_k(&privk, &sha256d(&preimage)).unwrap();
                    SighashSignature::new(&sig, f, &preimage).to_hex().unwrap()
                }
            };
            txin.set_unlocking_script(&Script::from_asm_string(&sig_hex).unwrap());
            tx.set_input(0, &txin);
            let (o, _) = run_tx(&tx, 0);
            assert!(o.accepted(), "route {} flag {:02x}: {:?}", route, flag, o);
        }
    }
}

// ---------------------------------------------------------------------------------------------------------------
// a spending transaction with an OP_RETURN output whose data ends in a push that runs past the end of the script
// ---------------------------------------------------------------------------------------------------------------
fn tx_with_op_return_output(output_script: &[u8]) -> RTx {
    RTx {
        version: 1,
        ins: vec![RIn { txid_wire: [0x11; 32], vout: 0, script_sig: vec![], seq: 0xffff_ffff }],
        outs: vec![ROut { value: 0, script: output_script.to_vec() }],
        locktime: 0,
    }
}

/// Loads the raw transaction with the library's own parser and attaches the spent output's script and value
fn load_raw(raw: &[u8], lock: &[u8], value: u64) -> Transaction {
    let mut tx = Transaction::from_bytes(raw).expect("the library parses the raw transaction");
    let mut txin = tx.get_input(0).unwrap();
    txin.set_locking_script(&Script::from_bytes(lock).unwrap());
    txin.set_satoshis(value);
    tx.set_input(0, &txin);
    tx
}

/// Output script 6a 05 01 02 (OP_RETURN, then data whose last push declares 5 bytes with 2 present - legal on chain, the
/// bytes after OP_RETURN are never executed). The outputs are a signed part of the transaction (flags 01/41/81/c1 sign all
/// of them, 03/43/83/c3 the one at the input's index): the digest is over the output script bytes as they are in the
/// transaction. The library accepts the transaction (Transaction::from_bytes), but holds the script as OP_RETURN PUSH(01 02)
/// and hashes 6a 02 01 02 instead, so (a) the valid P2PK spend is rejected ...
#[test]
fn violation_output_with_truncated_push_after_op_return_valid_spend_rejected() {
    let k = Key::new(1);
    let lock = cat(&p2pk_elems(&k.pk(true)));
    for flag in [0x41u8, 0x01, 0x43, 0x03, 0xc1, 0x81] {
        let mut rtx = tx_with_op_return_output(&[0x6a, 0x05, 0x01, 0x02]);
        let sig = k.sign_tx(&rtx, 0, &lock, 1000, flag);
        rtx.ins[0].script_sig = push(&sig);
        let raw = rtx.ser();
        let tx = load_raw(&raw, &lock, 1000);
        let (o, _) = run_tx(&tx, 0);
        assert!(
            o.accepted(),
            "valid P2PK spend, flag {:02x}, of raw tx {} (output script 6a050102): library={:?} expected=Accept; the library re-serialises the transaction as {}",
            flag,
            hex::encode(&raw),
            o,
            tx.to_hex().unwrap()
        );
    }
}

/// ... and (b) a signature made for a *different* transaction (output script 6a 02 01 02) is accepted on this one:
/// a change to a signed output that does not make the spend reject.
#[test]
fn violation_output_with_truncated_push_after_op_return_signature_for_other_outputs_accepted() {
    let k = Key::new(1);
    let lock = cat(&p2pk_elems(&k.pk(true)));
    for flag in [0x41u8, 0x01, 0x43, 0x03, 0xc1, 0x81] {
        // signed: the transaction whose output script is 6a 02 01 02
        let signed = tx_with_op_return_output(&[0x6a, 0x02, 0x01, 0x02]);
        let sig = k.sign_tx(&signed, 0, &lock, 1000, flag);
        {
            let mut control = signed.clone();
            control.ins[0].script_sig = push(&sig);
            assert!(run_tx(&load_raw(&control.ser(), &lock, 1000), 0).0.accepted(), "control: the signed transaction itself is accepted");
        }
        // presented: the output script changed to 6a 05 01 02 after signing (one byte of a signed output changed)
        let mut mutated = tx_with_op_return_output(&[0x6a, 0x05, 0x01, 0x02]);
        assert_ne!(ref_digest(&mutated, 0, &lock, 1000, flag), ref_digest(&signed, 0, &lock, 1000, flag), "the two transactions have different digests");
        mutated.ins[0].script_sig = push(&sig);
        let raw = mutated.ser();
        let (o, _) = run_tx(&load_raw(&raw, &lock, 1000), 0);
        assert!(o.rejected(), "output script changed from 6a020102 to 6a050102 after signing (flag {:02x}), raw tx {}: library={:?} expected=Reject", flag, hex::encode(&raw), o);
    }
}

/// control for the two tests above: the same through a well formed OP_RETURN output
#[test]
fn ok_e27_op_return_output_with_complete_pushes() {
    let k = Key::new(1);
    let lock = cat(&p2pk_elems(&k.pk(true)));
    for flag in STANDARD_FLAGS {
        let mut rtx = tx_with_op_return_output(&[0x00, 0x6a, 0x02, 0x01, 0x02, 0x4c, 0x01, 0xff, 0x4d, 0x01, 0x00, 0xee]);
        let sig = k.sign_tx(&rtx, 0, &lock, 1000, flag);
        rtx.ins[0].script_sig = push(&sig);
        let (o, _) = run_tx(&load_raw(&rtx.ser(), &lock, 1000), 0);
        assert!(o.accepted(), "flag {:02x}: {:?}", flag, o);
    }
}

// ---------------------------------------------------------------------------------------------------------------
// minimal form of the SIGHASH_SINGLE violation
// ---------------------------------------------------------------------------------------------------------------
/// version 1, two inputs (outpoints 11..11:0 and 22..22:0, sequence ffffffff), one output (value 1, script OP_1), locktime 0;
/// input 1 spends a P2PK output of value 1000 with flag 0x43 (SINGLE|FORKID). hashOutputs is 32 zero bytes.
#[test]
fn violation_single_forkid_minimal() {
    let k = Key::new(1);
    let lock = cat(&p2pk_elems(&k.pk(true)));
    let mut rtx = RTx {
        version: 1,
        ins: vec![RIn { txid_wire: [0x11; 32], vout: 0, script_sig: vec![], seq: 0xffff_ffff }, RIn { txid_wire: [0x22; 32], vout: 0, script_sig: vec![], seq: 0xffff_ffff }],
        outs: vec![ROut { value: 1, script: vec![OP_1] }],
        locktime: 0,
    };
    // the preimage spelled out (BIP143 layout with hashOutputs = 0)
    let mut pre = 1u32.to_le_bytes().to_vec();
    pre.extend_from_slice(&sha256d(&[[0x11u8; 32].to_vec(), vec![0; 4], [0x22u8; 32].to_vec(), vec![0; 4]].concat()));
    pre.extend_from_slice(&[0u8; 32]); // hashSequence: SINGLE
    pre.extend_from_slice(&[0x22; 32]);
    pre.extend_from_slice(&[0; 4]);
    pre.push(lock.len() as u8);
    pre.extend_from_slice(&lock);
    pre.extend_from_slice(&1000u64.to_le_bytes());
    pre.extend_from_slice(&[0xff; 4]);
    pre.extend_from_slice(&[0u8; 32]); // hashOutputs: no output at index 1
    pre.extend_from_slice(&[0; 4]);
    pre.extend_from_slice(&[0x43, 0, 0, 0]);
    assert_eq!(sha256d(&pre), ref_digest(&rtx, 1, &lock, 1000, 0x43));
    let sig = [k.sign_der(&sha256d(&pre)), vec![0x43]].concat();
    rtx.ins[1].script_sig = push(&sig);
    let o = run(&rtx, 1, &lock, Some(1000));
    assert!(o.accepted(), "SINGLE|FORKID at input 1 of a one-output transaction: library={:?} expected=Accept\npreimage={}\n{}", o, hex::encode(&pre), describe(&rtx, 1, &lock, Some(1000)));
}

// ---------------------------------------------------------------------------------------------------------------
// fuzz: arbitrary stack items against the three families - never a panic, never accepted without valid signatures
// ---------------------------------------------------------------------------------------------------------------
#[test]
fn ok_e28_fuzzed_unlocking_items_never_panic_or_accept() {
    let mut rng = Rng(28);
    for round in 0..1500 {
        let fams = families();
        let fam = fams[rng.below(fams.len())].clone();
        let flags: Vec<u8> = (0..n_sigs(&fam)).map(|_| STANDARD_FLAGS[rng.below(12)]).collect();
        let seps = random_seps(&mut rng, n_elems(&fam));
        let idx = rng.below(2);
        let case = build_case(&mut rng, fam, &flags, 2, 2, idx, &seps);
        let mut elems = script_elements(&case.rtx.ins[case.idx].script_sig);
        // damage one element (keeping at least one signature damaged): replace / truncate / extend / drop / duplicate
        let sig_positions: Vec<usize> = elems.iter().enumerate().filter(|(_, e)| e.len() > 60 && e[1] == 0x30).map(|(i, _)| i).collect();
        let at = sig_positions[rng.below(sig_positions.len())];
        match rng.below(7) {
            0 => {
                let n = rng.below(80);
                elems[at] = push(&rng.bytes(n));
            }
            1 => {
                let data = elems[at][1..].to_vec();
                let keep = rng.below(data.len());
                elems[at] = push(&data[..keep]);
            }
            2 => {
                let mut data = elems[at][1..].to_vec();
                let extra = 1 + rng.below(4);
                data.extend(rng.bytes(extra));
                elems[at] = push(&data);
            }
            3 => {
                elems.remove(at);
            }
            4 => {
                elems[at] = small(rng.below(17));
            }
            5 => {
                let mut data = elems[at][1..].to_vec();
                let p = rng.below(data.len());
                data[p] = rng.next() as u8 | 1 ^ data[p];
                if data == elems[at][1..] {
                    data[p] ^= 0x10;
                }
                elems[at] = push(&data);
            }
            _ => {
                elems[at] = vec![0x4f];
            }
        }
        let mut m = case.rtx.clone();
        m.ins[case.idx].script_sig = cat(&elems);
        let o = run(&m, case.idx, &case.lock, Some(case.value));
        assert!(o.rejected(), "round {}: damaged unlocking script: library={:?} expected=Reject\n{}\ndamaged unlocking={}", round, o, case.describe(), hex::encode(&m.ins[case.idx].script_sig));
    }
}

/// The re-serialisation difference used by the two violation tests above is confined to one shape: after an OP_RETURN, a
/// final direct push (01..4b) that declares more bytes than remain. Everything else that parses, serialises back unchanged
/// (random scripts over pushes, PUSHDATA1/2/4, OP_RETURN, conditionals and arbitrary opcode bytes).
#[test]
fn ok_e29_only_the_truncated_final_push_after_op_return_changes_when_reserialised() {
    let mut rng = Rng(99);
    let mut parsed = 0;
    for _ in 0..100000 {
        let n = 1 + rng.below(8);
        let mut bytes = vec![];
        for _ in 0..n {
            match rng.below(10) {
                0 => bytes.push(0x6a),
                1 => bytes.push(0x63),
                2 => bytes.push(0x67),
                3 => bytes.push(0x68),
                4 => bytes.extend(push(&rng.bytes(2))),
                5 => bytes.push(rng.below(6) as u8),
                6 => bytes.extend([0x4c, rng.below(3) as u8]),
                7 => bytes.extend([0x4d, rng.below(3) as u8, 0]),
                8 => bytes.extend([0x4e, rng.below(3) as u8, 0, 0, 0]),
                _ => bytes.push(rng.next() as u8),
            }
        }
        if let Ok(s) = Script::from_bytes(&bytes) {
            parsed += 1;
            let back = s.to_bytes();
            if back != bytes {
                // own reading: walk the elements; the last one must be a direct push running past the end
                let mut i = 0;
                let mut seen_return = false;
                let mut truncated_direct_push = false;
                while i < bytes.len() {
                    let op = bytes[i];
                    let (hdr, len) = match op {
                        1..=0x4b => (1, op as usize),
                        0x4c => (2, bytes[i + 1] as usize),
                        0x4d => (3, u16::from_le_bytes([bytes[i + 1], bytes[i + 2]]) as usize),
                        0x4e => (5, u32::from_le_bytes([bytes[i + 1], bytes[i + 2], bytes[i + 3], bytes[i + 4]]) as usize),
                        _ => (1, 0),
                    };
                    if i + hdr + len > bytes.len() {
                        truncated_direct_push = (1..=0x4b).contains(&op);
                        break;
                    }
                    seen_return |= op == 0x6a;
                    i += hdr + len;
                }
                assert!(seen_return && truncated_direct_push, "script {} parses but serialises back as {}", hex::encode(&bytes), hex::encode(&back));
            }
        }
    }
    assert!(parsed > 10000);
}
