// Second-pass hunt for property C15 (interpreter CHECKSIG / CHECKMULTISIG accept exactly valid signatures on the right data).
//
// Oracle: everything the library is compared against is computed here, independently of the library:
//   * secp256k1 arithmetic and ECDSA signing / verification with num-bigint (Jacobian coordinates),
//   * transaction serialisation, the BIP143-style (FORKID) preimage and the legacy preimage from the specifications,
//   * script serialisation from a token list, subscript = tokens after the last code separator before the checking opcode.
#![allow(dead_code)]
use bsv::*;
use num_bigint::BigUint;
use sha2::{Digest, Sha256};
use std::panic::{catch_unwind, AssertUnwindSafe};

// ---------------------------------------------------------------- hashes
fn sha256(d: &[u8]) -> Vec<u8> {
    Sha256::digest(d).to_vec()
}
fn sha256d(d: &[u8]) -> Vec<u8> {
    sha256(&sha256(d))
}
fn hash160(d: &[u8]) -> Vec<u8> {
    ripemd160::Ripemd160::digest(&sha256(d)).to_vec()
}

// ---------------------------------------------------------------- reference secp256k1
fn hexn(s: &str) -> BigUint {
    BigUint::parse_bytes(s.as_bytes(), 16).unwrap()
}
fn p() -> BigUint {
    hexn("FFFFFFFFFFFFFFFFFFFFFFFFFFFFFFFFFFFFFFFFFFFFFFFFFFFFFFFEFFFFFC2F")
}
fn n() -> BigUint {
    hexn("FFFFFFFFFFFFFFFFFFFFFFFFFFFFFFFEBAAEDCE6AF48A03BBFD25E8CD0364141")
}
fn gx() -> BigUint {
    hexn("79BE667EF9DCBBAC55A06295CE870B07029BFCDB2DCE28D959F2815B16F81798")
}
fn gy() -> BigUint {
    hexn("483ADA7726A3C4655DA4FBFC0E1108A8FD17B448A68554199C47D08FFB10D4B8")
}
fn zero() -> BigUint {
    BigUint::from(0u8)
}
fn one() -> BigUint {
    BigUint::from(1u8)
}

#[derive(Clone, Debug)]
struct Jac {
    x: BigUint,
    y: BigUint,
    z: BigUint,
} // z == 0 : infinity

fn fsub(a: &BigUint, b: &BigUint, m: &BigUint) -> BigUint {
    ((a % m) + m - (b % m)) % m
}
fn jac_double(a: &Jac) -> Jac {
    let p = p();
    if a.z == zero() || a.y == zero() {
        return Jac { x: one(), y: one(), z: zero() };
    }
    let y2 = (&a.y * &a.y) % &p;
    let s = (BigUint::from(4u8) * &a.x * &y2) % &p;
    let m = (BigUint::from(3u8) * &a.x * &a.x) % &p;
    let x3 = fsub(&((&m * &m) % &p), &((BigUint::from(2u8) * &s) % &p), &p);
    let y4 = (&y2 * &y2) % &p;
    let y3 = fsub(&((&m * fsub(&s, &x3, &p)) % &p), &((BigUint::from(8u8) * &y4) % &p), &p);
    let z3 = (BigUint::from(2u8) * &a.y * &a.z) % &p;
    Jac { x: x3, y: y3, z: z3 }
}
fn jac_add(a: &Jac, b: &Jac) -> Jac {
    let p = p();
    if a.z == zero() {
        return b.clone();
    }
    if b.z == zero() {
        return a.clone();
    }
    let z1z1 = (&a.z * &a.z) % &p;
    let z2z2 = (&b.z * &b.z) % &p;
    let u1 = (&a.x * &z2z2) % &p;
    let u2 = (&b.x * &z1z1) % &p;
    let s1 = (&a.y * &z2z2 % &p * &b.z) % &p;
    let s2 = (&b.y * &z1z1 % &p * &a.z) % &p;
    if u1 == u2 {
        if s1 != s2 {
            return Jac { x: one(), y: one(), z: zero() };
        }
        return jac_double(a);
    }
    let h = fsub(&u2, &u1, &p);
    let r = fsub(&s2, &s1, &p);
    let h2 = (&h * &h) % &p;
    let h3 = (&h2 * &h) % &p;
    let u1h2 = (&u1 * &h2) % &p;
    let x3 = fsub(&fsub(&((&r * &r) % &p), &h3, &p), &((BigUint::from(2u8) * &u1h2) % &p), &p);
    let y3 = fsub(&((&r * fsub(&u1h2, &x3, &p)) % &p), &((&s1 * &h3) % &p), &p);
    let z3 = (&h * &a.z % &p * &b.z) % &p;
    Jac { x: x3, y: y3, z: z3 }
}
fn jac_mul(k: &BigUint, pt: &Jac) -> Jac {
    let mut acc = Jac { x: one(), y: one(), z: zero() };
    let bits = k.bits();
    for i in (0..bits).rev() {
        acc = jac_double(&acc);
        if k.bit(i) {
            acc = jac_add(&acc, pt);
        }
    }
    acc
}
fn inv(a: &BigUint, m: &BigUint) -> BigUint {
    a.modpow(&(m - BigUint::from(2u8)), m)
}
fn to_affine(a: &Jac) -> Option<(BigUint, BigUint)> {
    if a.z == zero() {
        return None;
    }
    let p = p();
    let zi = inv(&a.z, &p);
    let zi2 = (&zi * &zi) % &p;
    Some(((&a.x * &zi2) % &p, (&a.y * &zi2 % &p * &zi) % &p))
}
fn g() -> Jac {
    Jac { x: gx(), y: gy(), z: one() }
}
fn be32(v: &BigUint) -> Vec<u8> {
    let b = v.to_bytes_be();
    let mut out = vec![0u8; 32 - b.len()];
    out.extend(b);
    out
}
fn pubkey_of(d: &BigUint, compressed: bool) -> Vec<u8> {
    let (x, y) = to_affine(&jac_mul(d, &g())).unwrap();
    if compressed {
        let mut v = vec![if y.bit(0) { 3 } else { 2 }];
        v.extend(be32(&x));
        v
    } else {
        let mut v = vec![4u8];
        v.extend(be32(&x));
        v.extend(be32(&y));
        v
    }
}
/// textbook ECDSA signature of digest z with nonce k (no low-S normalisation)
fn ref_sign(d: &BigUint, z: &[u8], k: &BigUint) -> (BigUint, BigUint) {
    let n = n();
    let (x, _) = to_affine(&jac_mul(k, &g())).unwrap();
    let r = x % &n;
    assert!(r != zero());
    let zz = BigUint::from_bytes_be(z) % &n;
    let s = (inv(k, &n) * ((zz + &r * d) % &n)) % &n;
    assert!(s != zero());
    (r, s)
}
fn low_s(s: &BigUint) -> BigUint {
    let n = n();
    if s > &(&n >> 1) {
        &n - s
    } else {
        s.clone()
    }
}
/// textbook ECDSA verification against a SEC1 public key (compressed or uncompressed)
fn ref_verify(pubkey: &[u8], z: &[u8], r: &BigUint, s: &BigUint) -> bool {
    let n = n();
    let p = p();
    if *r == zero() || *s == zero() || r >= &n || s >= &n {
        return false;
    }
    let (x, y) = match pubkey[0] {
        4 => (BigUint::from_bytes_be(&pubkey[1..33]), BigUint::from_bytes_be(&pubkey[33..65])),
        2 | 3 => {
            let x = BigUint::from_bytes_be(&pubkey[1..33]);
            let rhs = (x.modpow(&BigUint::from(3u8), &p) + BigUint::from(7u8)) % &p;
            let y = rhs.modpow(&((&p + one()) >> 2), &p);
            if (&y * &y) % &p != rhs {
                return false;
            }
            let y = if y.bit(0) == (pubkey[0] == 3) { y } else { &p - y };
            (x, y)
        }
        _ => return false,
    };
    let q = Jac { x, y, z: one() };
    let zz = BigUint::from_bytes_be(z) % &n;
    let si = inv(s, &n);
    let u1 = (zz * &si) % &n;
    let u2 = (r * &si) % &n;
    match to_affine(&jac_add(&jac_mul(&u1, &g()), &jac_mul(&u2, &q))) {
        Some((x, _)) => (x % &n) == *r,
        None => false,
    }
}
fn der_int(v: &BigUint) -> Vec<u8> {
    let mut b = v.to_bytes_be();
    if b[0] & 0x80 != 0 {
        b.insert(0, 0);
    }
    let mut out = vec![0x02, b.len() as u8];
    out.extend(b);
    out
}
fn der_sig(r: &BigUint, s: &BigUint) -> Vec<u8> {
    let mut body = der_int(r);
    body.extend(der_int(s));
    let mut out = vec![0x30, body.len() as u8];
    out.extend(body);
    out
}

// ---------------------------------------------------------------- reference scripts
#[derive(Clone, Debug, PartialEq)]
enum Tok {
    Op(u8),
    Push(Vec<u8>),
}
const OP_0: u8 = 0x00;
const OP_1: u8 = 0x51;
const OP_DUP: u8 = 0x76;
const OP_HASH160: u8 = 0xa9;
const OP_EQUALVERIFY: u8 = 0x88;
const OP_CHECKSIG: u8 = 0xac;
const OP_CHECKSIGVERIFY: u8 = 0xad;
const OP_CHECKMULTISIG: u8 = 0xae;
const OP_CHECKMULTISIGVERIFY: u8 = 0xaf;
const OP_CODESEPARATOR: u8 = 0xab;
const OP_NOP: u8 = 0x61;

fn push_bytes(d: &[u8]) -> Vec<u8> {
    let mut out = vec![];
    let l = d.len();
    if l < 0x4c {
        out.push(l as u8);
    } else if l <= 0xff {
        out.push(0x4c);
        out.push(l as u8);
    } else if l <= 0xffff {
        out.push(0x4d);
        out.extend((l as u16).to_le_bytes());
    } else {
        out.push(0x4e);
        out.extend((l as u32).to_le_bytes());
    }
    out.extend(d);
    out
}
fn ser_script(t: &[Tok]) -> Vec<u8> {
    let mut out = vec![];
    for x in t {
        match x {
            Tok::Op(o) => out.push(*o),
            Tok::Push(d) => out.extend(push_bytes(d)),
        }
    }
    out
}
/// subscript for the checking opcode at token index `at`: tokens after the last code separator before it
fn subscript(t: &[Tok], at: usize) -> Vec<Tok> {
    let start = t[..at].iter().rposition(|x| *x == Tok::Op(OP_CODESEPARATOR)).map_or(0, |i| i + 1);
    t[start..].to_vec()
}
fn without_separators(t: &[Tok]) -> Vec<Tok> {
    t.iter().filter(|x| **x != Tok::Op(OP_CODESEPARATOR)).cloned().collect()
}

// ---------------------------------------------------------------- reference transactions
#[derive(Clone, Debug, PartialEq)]
struct RIn {
    txid: [u8; 32], // as displayed (big endian); serialised reversed
    vout: u32,
    script: Vec<u8>,
    seq: u32,
}
#[derive(Clone, Debug, PartialEq)]
struct ROut {
    value: u64,
    script: Vec<u8>,
}
#[derive(Clone, Debug, PartialEq)]
struct RTx {
    version: u32,
    ins: Vec<RIn>,
    outs: Vec<ROut>,
    locktime: u32,
}
fn varint(v: u64) -> Vec<u8> {
    if v < 0xfd {
        vec![v as u8]
    } else if v <= 0xffff {
        let mut o = vec![0xfd];
        o.extend((v as u16).to_le_bytes());
        o
    } else if v <= 0xffff_ffff {
        let mut o = vec![0xfe];
        o.extend((v as u32).to_le_bytes());
        o
    } else {
        let mut o = vec![0xff];
        o.extend(v.to_le_bytes());
        o
    }
}
impl RIn {
    fn outpoint(&self) -> Vec<u8> {
        let mut o: Vec<u8> = self.txid.iter().rev().cloned().collect();
        o.extend(self.vout.to_le_bytes());
        o
    }
    fn ser(&self) -> Vec<u8> {
        let mut o = self.outpoint();
        o.extend(varint(self.script.len() as u64));
        o.extend(&self.script);
        o.extend(self.seq.to_le_bytes());
        o
    }
}
impl ROut {
    fn ser(&self) -> Vec<u8> {
        let mut o = self.value.to_le_bytes().to_vec();
        o.extend(varint(self.script.len() as u64));
        o.extend(&self.script);
        o
    }
}
impl RTx {
    fn ser(&self) -> Vec<u8> {
        let mut o = self.version.to_le_bytes().to_vec();
        o.extend(varint(self.ins.len() as u64));
        for i in &self.ins {
            o.extend(i.ser());
        }
        o.extend(varint(self.outs.len() as u64));
        for i in &self.outs {
            o.extend(i.ser());
        }
        o.extend(self.locktime.to_le_bytes());
        o
    }
}
const FLAGS: [u8; 12] = [0x01, 0x02, 0x03, 0x41, 0x42, 0x43, 0x81, 0x82, 0x83, 0xc1, 0xc2, 0xc3];

/// The message that a signature with this flag byte commits to (None: not defined, e.g. SINGLE without a matching output in the legacy scheme)
fn ref_preimage(tx: &RTx, idx: usize, flag: u8, sub: &[Tok], value: u64) -> Option<Vec<u8>> {
    let base = flag & 0x1f;
    let acp = flag & 0x80 != 0;
    if flag & 0x40 != 0 {
        let zero32 = vec![0u8; 32];
        let hash_prevouts = if !acp { sha256d(&tx.ins.iter().flat_map(|i| i.outpoint()).collect::<Vec<u8>>()) } else { zero32.clone() };
        let hash_sequence = if !acp && base != 2 && base != 3 { sha256d(&tx.ins.iter().flat_map(|i| i.seq.to_le_bytes()).collect::<Vec<u8>>()) } else { zero32.clone() };
        let hash_outputs = if base != 2 && base != 3 {
            sha256d(&tx.outs.iter().flat_map(|o| o.ser()).collect::<Vec<u8>>())
        } else if base == 3 && idx < tx.outs.len() {
            sha256d(&tx.outs[idx].ser())
        } else {
            zero32.clone()
        };
        let code = ser_script(sub);
        let mut o = tx.version.to_le_bytes().to_vec();
        o.extend(hash_prevouts);
        o.extend(hash_sequence);
        o.extend(tx.ins[idx].outpoint());
        o.extend(varint(code.len() as u64));
        o.extend(code);
        o.extend(value.to_le_bytes());
        o.extend(tx.ins[idx].seq.to_le_bytes());
        o.extend(hash_outputs);
        o.extend(tx.locktime.to_le_bytes());
        o.extend((flag as u32).to_le_bytes());
        Some(o)
    } else {
        let mut t = tx.clone();
        for i in t.ins.iter_mut() {
            i.script = vec![];
        }
        t.ins[idx].script = ser_script(&without_separators(sub));
        if base == 2 {
            t.outs.clear();
            for (j, i) in t.ins.iter_mut().enumerate() {
                if j != idx {
                    i.seq = 0;
                }
            }
        } else if base == 3 {
            if idx >= t.outs.len() {
                return None;
            }
            t.outs.truncate(idx + 1);
            for o in t.outs.iter_mut().take(idx) {
                *o = ROut { value: u64::MAX, script: vec![] };
            }
            for (j, i) in t.ins.iter_mut().enumerate() {
                if j != idx {
                    i.seq = 0;
                }
            }
        }
        if acp {
            t.ins = vec![t.ins[idx].clone()];
        }
        let mut o = t.ser();
        o.extend((flag as u32).to_le_bytes());
        Some(o)
    }
}

// ---------------------------------------------------------------- library side
/// Builds the library transaction through the constructors and setters
fn lib_tx_built(tx: &RTx, idx: usize, locking: &[u8], value: u64) -> Transaction {
    let mut t = Transaction::new(tx.version, tx.locktime);
    for (j, i) in tx.ins.iter().enumerate() {
        let mut txin = TxIn::new(&i.txid, i.vout, &Script::from_bytes(&i.script).unwrap(), Some(i.seq));
        if j == idx {
            txin.set_locking_script(&Script::from_bytes(locking).unwrap());
            txin.set_satoshis(value);
        }
        t.add_input(&txin);
    }
    for o in &tx.outs {
        t.add_output(&TxOut::new(o.value, &Script::from_bytes(&o.script).unwrap()));
    }
    t
}
/// Builds the library transaction from the reference serialisation, then attaches the spent output's script and value
fn lib_tx_parsed(tx: &RTx, idx: usize, locking: &[u8], value: u64) -> Transaction {
    let mut t = Transaction::from_bytes(&tx.ser()).unwrap();
    let mut txin = t.get_input(idx).unwrap();
    txin.set_locking_script(&Script::from_bytes(locking).unwrap());
    txin.set_satoshis(value);
    t.set_input(idx, &txin);
    t
}
#[derive(Debug, PartialEq, Clone)]
enum Verdict {
    Accept,
    Reject(String),
    Panic,
}
fn truthy(d: &[u8]) -> bool {
    for (i, b) in d.iter().enumerate() {
        if *b != 0 {
            return !(i == d.len() - 1 && *b == 0x80);
        }
    }
    false
}
fn lib_verdict(t: &Transaction, idx: usize) -> Verdict {
    let r = catch_unwind(AssertUnwindSafe(|| {
        let mut i = match Interpreter::from_transaction(t, idx) {
            Ok(i) => i,
            Err(e) => return Verdict::Reject(format!("load: {}", e)),
        };
        match i.run() {
            Ok(()) => match i.state().stack().last() {
                Some(top) if truthy(top) => Verdict::Accept,
                Some(_) => Verdict::Reject("false on top".into()),
                None => Verdict::Reject("empty stack".into()),
            },
            Err(e) => Verdict::Reject(format!("run: {}", e)),
        }
    }));
    r.unwrap_or(Verdict::Panic)
}
fn accepts(t: &Transaction, idx: usize) -> bool {
    lib_verdict(t, idx) == Verdict::Accept
}

// ---------------------------------------------------------------- fixtures
fn key(i: u32) -> BigUint {
    // fixed private keys, well inside the group
    BigUint::from_bytes_be(&sha256(format!("hunt2-C15-key-{}", i).as_bytes())) % n()
}
fn nonce(tag: &str) -> BigUint {
    BigUint::from_bytes_be(&sha256(format!("hunt2-C15-nonce-{}", tag).as_bytes())) % n()
}
fn txid(i: u8) -> [u8; 32] {
    let mut t = [0u8; 32];
    t.copy_from_slice(&sha256(&[i, 0xC1, 0x5]));
    t
}
fn p2pkh_out(i: u32) -> Vec<u8> {
    ser_script(&[Tok::Op(OP_DUP), Tok::Op(OP_HASH160), Tok::Push(hash160(&pubkey_of(&key(i), true))), Tok::Op(OP_EQUALVERIFY), Tok::Op(OP_CHECKSIG)])
}
fn base_tx(nin: usize, nout: usize) -> RTx {
    RTx {
        version: 2,
        ins: (0..nin).map(|i| RIn { txid: txid(i as u8), vout: i as u32 * 3 + 1, script: vec![], seq: 0xffff_f000 + i as u32 }).collect(),
        outs: (0..nout).map(|i| ROut { value: 1000 + 17 * i as u64, script: p2pkh_out(100 + i as u32) }).collect(),
        locktime: 500_000,
    }
}
/// reference signature item (DER + flag) by key d over the reference preimage, low-S normalised like every wallet does
fn sig_item(tx: &RTx, idx: usize, flag: u8, sub: &[Tok], value: u64, d: &BigUint, tag: &str) -> Vec<u8> {
    let pre = ref_preimage(tx, idx, flag, sub, value).expect("preimage defined");
    let z = sha256d(&pre);
    let (r, s) = ref_sign(d, &z, &nonce(tag));
    let s = low_s(&s);
    assert!(ref_verify(&pubkey_of(d, true), &z, &r, &s));
    let mut item = der_sig(&r, &s);
    item.push(flag);
    item
}

// ================================================================ experiments

/// Sanity of the oracle itself against published vectors (so that a disagreement points at the library)
#[test]
fn e00_oracle_selfcheck() {
    // private key 1 -> generator
    assert_eq!(hex::encode(pubkey_of(&one(), true)), "0279be667ef9dcbbac55a06295ce870b07029bfcdb2dce28d959f2815b16f81798");
    // 2G
    assert_eq!(hex::encode(pubkey_of(&BigUint::from(2u8), true)), "02c6047f9441ed7d6d3045406e95c07cd85c778e4b8cef3ca7abac09b95c709ee5");
    // (n-1)G = -G
    assert_eq!(hex::encode(pubkey_of(&(n() - one()), true)), "0379be667ef9dcbbac55a06295ce870b07029bfcdb2dce28d959f2815b16f81798");
    // the well known short r of k = 1/2
    let half = inv(&BigUint::from(2u8), &n());
    let (x, _) = to_affine(&jac_mul(&half, &g())).unwrap();
    assert_eq!(hex::encode(be32(&x)), "00000000000000000000003b78ce563f89a0ed9414f5aa28ad0d96d6795f9c63");
    let z = sha256d(b"abc");
    let (r, s) = ref_sign(&key(1), &z, &nonce("self"));
    assert!(ref_verify(&pubkey_of(&key(1), true), &z, &r, &s));
    assert!(ref_verify(&pubkey_of(&key(1), false), &z, &r, &(n() - &s)));
    assert!(!ref_verify(&pubkey_of(&key(2), true), &z, &r, &s));
    // hash160 of the empty string
    assert_eq!(hex::encode(hash160(b"")), "b472a266d0bd89c13706a4132ccfb16f7c3b9fcb");
}

// ---------------------------------------------------------------- scenario machinery
#[derive(Clone, Debug)]
struct Scenario {
    name: String,
    locking: Vec<Tok>,
    /// (token index of the checking opcode, signer key numbers in order); one entry per checking opcode
    checks: Vec<(usize, Vec<u32>)>,
    /// unlocking script with placeholders: Sig(check number, signer position)
    unlocking: Vec<UTok>,
}
#[derive(Clone, Debug)]
enum UTok {
    Sig(usize, usize),
    Tok(Tok),
}
struct NonceCache {
    k: BigUint,
    kinv: BigUint,
    r: BigUint,
}
fn nonces() -> &'static Vec<NonceCache> {
    use std::sync::OnceLock;
    static N: OnceLock<Vec<NonceCache>> = OnceLock::new();
    N.get_or_init(|| {
        (0..4)
            .map(|i| {
                let k = nonce(&format!("cached-{}", i));
                let (x, _) = to_affine(&jac_mul(&k, &g())).unwrap();
                NonceCache { kinv: inv(&k, &n()), r: x % n(), k }
            })
            .collect()
    })
}
/// fast signature with one of the precomputed nonces (a different nonce per signer position so that r values differ)
fn fast_sig_item(pre: &[u8], flag: u8, d: &BigUint, which: usize) -> Vec<u8> {
    let nc = &nonces()[which % 4];
    let n = n();
    let z = BigUint::from_bytes_be(&sha256d(pre)) % &n;
    let s = (&nc.kinv * ((z + &nc.r * d) % &n)) % &n;
    let mut item = der_sig(&nc.r, &low_s(&s));
    item.push(flag);
    item
}
fn insert_seps(t: &[Tok], positions: &[usize]) -> Vec<Tok> {
    // positions refer to gaps of the original token list (0 = before the first token, len = after the last)
    let mut out = vec![];
    for i in 0..=t.len() {
        for _ in positions.iter().filter(|p| **p == i) {
            out.push(Tok::Op(OP_CODESEPARATOR));
        }
        if i < t.len() {
            out.push(t[i].clone());
        }
    }
    out
}
fn checks_of(locking: &[Tok], signers: &[Vec<u32>]) -> Vec<(usize, Vec<u32>)> {
    let mut out = vec![];
    let mut c = 0;
    for (i, t) in locking.iter().enumerate() {
        if let Tok::Op(o) = t {
            if [OP_CHECKSIG, OP_CHECKSIGVERIFY, OP_CHECKMULTISIG, OP_CHECKMULTISIGVERIFY].contains(o) {
                out.push((i, signers[c].clone()));
                c += 1;
            }
        }
    }
    out
}
fn p2pk(keyno: u32, compressed: bool, seps: &[usize]) -> Scenario {
    let locking = insert_seps(&[Tok::Push(pubkey_of(&key(keyno), compressed)), Tok::Op(OP_CHECKSIG)], seps);
    Scenario { name: format!("p2pk(c={},seps={:?})", compressed, seps), checks: checks_of(&locking, &[vec![keyno]]), locking, unlocking: vec![UTok::Sig(0, 0)] }
}
fn p2pkh(keyno: u32, compressed: bool, seps: &[usize]) -> Scenario {
    let pk = pubkey_of(&key(keyno), compressed);
    let locking = insert_seps(&[Tok::Op(OP_DUP), Tok::Op(OP_HASH160), Tok::Push(hash160(&pk)), Tok::Op(OP_EQUALVERIFY), Tok::Op(OP_CHECKSIG)], seps);
    Scenario { name: format!("p2pkh(c={},seps={:?})", compressed, seps), checks: checks_of(&locking, &[vec![keyno]]), locking, unlocking: vec![UTok::Sig(0, 0), UTok::Tok(Tok::Push(pk))] }
}
/// m-of-n over keys 1..=n, signed by the keys listed in `signers` (in that order)
fn multisig(m: usize, nkeys: usize, signers: &[u32], seps: &[usize]) -> Scenario {
    let mut l = vec![Tok::Op(OP_1 + m as u8 - 1)];
    for i in 1..=nkeys {
        l.push(Tok::Push(pubkey_of(&key(i as u32), i % 2 == 1)));
    }
    l.push(Tok::Op(OP_1 + nkeys as u8 - 1));
    l.push(Tok::Op(OP_CHECKMULTISIG));
    let locking = insert_seps(&l, seps);
    let mut u = vec![UTok::Tok(Tok::Op(OP_0))];
    for i in 0..signers.len() {
        u.push(UTok::Sig(0, i));
    }
    Scenario { name: format!("multisig({}of{},by={:?},seps={:?})", m, nkeys, signers, seps), checks: checks_of(&locking, &[signers.to_vec()]), locking, unlocking: u }
}
/// Signs every placeholder with the reference signer over the reference preimage of `tx` and returns the unlocking script tokens
fn sign_scenario(sc: &Scenario, tx: &RTx, idx: usize, flags: &dyn Fn(usize, usize) -> u8, value: u64) -> Option<Vec<Tok>> {
    let mut out = vec![];
    for u in &sc.unlocking {
        match u {
            UTok::Tok(t) => out.push(t.clone()),
            UTok::Sig(c, pos) => {
                let (at, signers) = &sc.checks[*c];
                let flag = flags(*c, *pos);
                let pre = ref_preimage(tx, idx, flag, &subscript(&sc.locking, *at), value)?;
                out.push(Tok::Push(fast_sig_item(&pre, flag, &key(signers[*pos]), *c * 2 + *pos)));
            }
        }
    }
    Some(out)
}
/// All the messages the signatures of the scenario commit to (to decide by the oracle whether a mutation touches a signed part)
fn committed(sc: &Scenario, tx: &RTx, idx: usize, flags: &dyn Fn(usize, usize) -> u8, value: u64) -> Option<Vec<Vec<u8>>> {
    let mut out = vec![];
    for u in &sc.unlocking {
        if let UTok::Sig(c, pos) = u {
            let (at, _) = &sc.checks[*c];
            out.push(ref_preimage(tx, idx, flags(*c, *pos), &subscript(&sc.locking, *at), value)?);
        }
    }
    Some(out)
}

fn all_scenarios() -> Vec<Scenario> {
    let mut v = vec![];
    for c in [true, false] {
        v.push(p2pk(1, c, &[]));
        v.push(p2pkh(1, c, &[]));
    }
    for s in 0..=2 {
        v.push(p2pk(1, true, &[s]));
    }
    v.push(p2pk(1, false, &[0, 1]));
    v.push(p2pk(1, true, &[1, 1, 2]));
    for s in 0..=5 {
        v.push(p2pkh(1, s % 2 == 0, &[s]));
    }
    v.push(p2pkh(1, true, &[1, 4]));
    v.push(p2pkh(1, true, &[0, 2, 3, 5]));
    for nkeys in 1..=3usize {
        for m in 1..=nkeys {
            // every increasing choice of m signers
            let choices: Vec<Vec<u32>> = match (m, nkeys) {
                (1, 1) => vec![vec![1]],
                (1, 2) => vec![vec![1], vec![2]],
                (2, 2) => vec![vec![1, 2]],
                (1, 3) => vec![vec![1], vec![2], vec![3]],
                (2, 3) => vec![vec![1, 2], vec![1, 3], vec![2, 3]],
                _ => vec![vec![1, 2, 3]],
            };
            for ch in &choices {
                v.push(multisig(m, nkeys, ch, &[]));
            }
            for s in 0..=(nkeys + 3) {
                v.push(multisig(m, nkeys, &choices[s % choices.len()], &[s]));
            }
            v.push(multisig(m, nkeys, &choices[0], &[1, nkeys + 1]));
        }
    }
    v
}

/// E01: every family, separators at every position, every flag, every input index, both construction routes:
/// signatures made by the reference signer over the reference preimage must be accepted.
#[test]
fn e01_reference_signed_spends_are_accepted() {
    let scenarios = all_scenarios();
    let mut failures = vec![];
    let mut count = 0;
    for sc in &scenarios {
        for flag in FLAGS {
            for idx in 0..3 {
                let mut tx = base_tx(3, 3);
                let value = 5_000_000_000u64 + idx as u64;
                let unlocking = sign_scenario(sc, &tx, idx, &|_, _| flag, value).unwrap();
                tx.ins[idx].script = ser_script(&unlocking);
                let locking = ser_script(&sc.locking);
                for (route, t) in [("built", lib_tx_built(&tx, idx, &locking, value)), ("parsed", lib_tx_parsed(&tx, idx, &locking, value))] {
                    count += 1;
                    let v = lib_verdict(&t, idx);
                    if v != Verdict::Accept {
                        failures.push(format!("{} flag={:#x} idx={} route={} -> {:?}", sc.name, flag, idx, route, v));
                    }
                }
            }
        }
    }
    eprintln!("e01: {} spends checked, {} failures", count, failures.len());
    for f in failures.iter().take(40) {
        eprintln!("  {}", f);
    }
    assert!(failures.is_empty());
}

// ---------------------------------------------------------------- mutations
#[derive(Clone, Debug)]
enum Mutation {
    Version,
    Locktime,
    InTxid(usize),
    InVout(usize),
    InSeq(usize),
    OutValue(usize),
    OutScript(usize),
    AddOutput,
    AddInput,
    DropLastOutput,
    Value,
}
fn mutate(tx: &RTx, value: u64, m: &Mutation) -> (RTx, u64) {
    let mut t = tx.clone();
    let mut v = value;
    match m {
        Mutation::Version => t.version ^= 1,
        Mutation::Locktime => t.locktime += 1,
        Mutation::InTxid(j) => t.ins[*j].txid[31] ^= 0x01,
        Mutation::InVout(j) => t.ins[*j].vout += 1,
        Mutation::InSeq(j) => t.ins[*j].seq ^= 0x0100,
        Mutation::OutValue(j) => t.outs[*j].value += 1,
        Mutation::OutScript(j) => t.outs[*j].script = p2pkh_out(999),
        Mutation::AddOutput => t.outs.push(ROut { value: 1, script: p2pkh_out(998) }),
        Mutation::AddInput => t.ins.push(RIn { txid: txid(77), vout: 0, script: vec![], seq: 0xffff_ffff }),
        Mutation::DropLastOutput => {
            t.outs.pop();
        }
        Mutation::Value => v += 1,
    }
    (t, v)
}
fn all_mutations(nin: usize, nout: usize) -> Vec<Mutation> {
    let mut v = vec![Mutation::Version, Mutation::Locktime, Mutation::AddOutput, Mutation::AddInput, Mutation::DropLastOutput, Mutation::Value];
    for j in 0..nin {
        v.push(Mutation::InTxid(j));
        v.push(Mutation::InVout(j));
        v.push(Mutation::InSeq(j));
    }
    for j in 0..nout {
        v.push(Mutation::OutValue(j));
        v.push(Mutation::OutScript(j));
    }
    v
}
/// Applies the difference between two reference transactions to a library transaction through its public mutators,
/// the way a user edits a transaction object that has already been signed (and whose sighash caches are warm).
fn apply_via_api(t: &mut Transaction, from: &RTx, to: &RTx, idx: usize, from_value: u64, to_value: u64) {
    if from.version != to.version {
        t.set_version(to.version);
    }
    if from.locktime != to.locktime {
        t.set_nlocktime(to.locktime);
    }
    for j in 0..to.ins.len() {
        if j >= from.ins.len() {
            let i = &to.ins[j];
            t.add_input(&TxIn::new(&i.txid, i.vout, &Script::from_bytes(&i.script).unwrap(), Some(i.seq)));
        } else if from.ins[j] != to.ins[j] {
            let mut txin = t.get_input(j).unwrap();
            txin.set_prev_tx_id(&to.ins[j].txid);
            txin.set_vout(to.ins[j].vout);
            txin.set_sequence(to.ins[j].seq);
            txin.set_unlocking_script(&Script::from_bytes(&to.ins[j].script).unwrap());
            t.set_input(j, &txin);
        }
    }
    // outputs: rebuild the tail when the count shrinks (there is no remove), otherwise set / add
    assert!(to.outs.len() + 1 >= from.outs.len());
    if to.outs.len() < from.outs.len() {
        // no public way to remove an output: rebuild by JSON edit would be another route; here re-create and re-warm
        let mut fresh = Transaction::new(to.version, to.locktime);
        for j in 0..t.get_ninputs() {
            fresh.add_input(&t.get_input(j).unwrap());
        }
        for o in &to.outs {
            fresh.add_output(&TxOut::new(o.value, &Script::from_bytes(&o.script).unwrap()));
        }
        *t = fresh;
    } else {
        for j in 0..to.outs.len() {
            let o = TxOut::new(to.outs[j].value, &Script::from_bytes(&to.outs[j].script).unwrap());
            if j >= from.outs.len() {
                t.add_output(&o);
            } else if from.outs[j] != to.outs[j] {
                t.set_output(j, &o);
            }
        }
    }
    if from_value != to_value {
        let mut txin = t.get_input(idx).unwrap();
        txin.set_satoshis(to_value);
        t.set_input(idx, &txin);
    }
}
fn warm_caches(t: &mut Transaction, idx: usize, locking: &Script, value: u64) {
    for f in [SigHash::ALL, SigHash::InputsOutputs, SigHash::Inputs, SigHash::InputsOutput, SigHash::InputOutputs, SigHash::NONE, SigHash::SINGLE, SigHash::Legacy_InputOutputs] {
        let _ = t.sighash_preimage(f, idx, locking, value);
    }
}

/// E02: every single-field mutation of the spending transaction / value after signing. Oracle: the spend must still be accepted
/// exactly when none of the reference preimages changed. Mutated transaction reaches the interpreter by three routes:
/// built afresh, parsed afresh, and edited in place through the mutators on an object with warm sighash caches.
#[test]
fn e02_mutations_of_transaction_and_value() {
    let scenarios = vec![p2pk(1, true, &[]), p2pkh(1, true, &[3]), multisig(2, 3, &[1, 3], &[2]), multisig(1, 1, &[1], &[])];
    let mut failures = vec![];
    let (mut count, mut expected_accepts) = (0, 0);
    for sc in &scenarios {
        for flag in FLAGS {
            for idx in [0usize, 2] {
                let tx0 = {
                    let mut tx = base_tx(3, 3);
                    let value = 777_000u64;
                    let unlocking = sign_scenario(sc, &tx, idx, &|_, _| flag, value).unwrap();
                    tx.ins[idx].script = ser_script(&unlocking);
                    tx
                };
                let value0 = 777_000u64;
                let locking = ser_script(&sc.locking);
                // the unlocking scripts are not part of any preimage, so committed() may be taken on the signed transaction
                let before = committed(sc, &tx0, idx, &|_, _| flag, value0).unwrap();
                for m in all_mutations(3, 3) {
                    let (tx1, value1) = mutate(&tx0, value0, &m);
                    let expect_accept = match committed(sc, &tx1, idx, &|_, _| flag, value1) {
                        Some(after) => after == before,
                        None => false,
                    };
                    let mut warm = lib_tx_built(&tx0, idx, &locking, value0);
                    warm_caches(&mut warm, idx, &Script::from_bytes(&locking).unwrap(), value0);
                    assert!(accepts(&warm, idx));
                    apply_via_api(&mut warm, &tx0, &tx1, idx, value0, value1);
                    assert_eq!(warm.to_bytes().unwrap(), tx1.ser(), "api edit reproduces the mutated transaction");
                    let cloned = warm.clone();
                    for (route, t) in [("built", lib_tx_built(&tx1, idx, &locking, value1)), ("parsed", lib_tx_parsed(&tx1, idx, &locking, value1)), ("edited-warm", warm), ("edited-warm-clone", cloned)] {
                        count += 1;
                        expected_accepts += expect_accept as usize;
                        let v = lib_verdict(&t, idx);
                        if (v == Verdict::Accept) != expect_accept || v == Verdict::Panic {
                            failures.push(format!("{} flag={:#x} idx={} {:?} route={} expected accept={} -> {:?}", sc.name, flag, idx, m, route, expect_accept, v));
                        }
                    }
                }
            }
        }
    }
    eprintln!("e02: {} mutated spends checked ({} expected accepts), {} failures", count, expected_accepts, failures.len());
    for f in failures.iter().take(60) {
        eprintln!("  {}", f);
    }
    assert!(failures.is_empty());
}

/// One P2PK spend whose signature item is supplied by the caller (given the digest to sign)
fn p2pk_spend_with(flag: u8, compressed: bool, make_item: &dyn Fn(&[u8]) -> Vec<u8>) -> (Transaction, RTx, Vec<u8>) {
    let sc = p2pk(1, compressed, &[]);
    let mut tx = base_tx(2, 2);
    let value = 123_456u64;
    let pre = ref_preimage(&tx, 1, flag, &sc.locking, value).unwrap();
    let item = make_item(&sha256d(&pre));
    tx.ins[1].script = ser_script(&[Tok::Push(item)]);
    let t = lib_tx_parsed(&tx, 1, &ser_script(&sc.locking), value);
    (t, tx, pre)
}

/// E03: shapes of valid signatures: r of 21 bytes (nonce 1/2), r and s needing the 0x00 pad, small s; all low-S. Oracle: ref_verify.
#[test]
fn e03_unusual_but_valid_signature_encodings_are_accepted() {
    let d = key(1);
    let half = inv(&BigUint::from(2u8), &n());
    for flag in [0x41u8, 0x01, 0xc3, 0x82] {
        for compressed in [true, false] {
            // short r
            let (t, _, _) = p2pk_spend_with(flag, compressed, &|z| {
                let (r, s) = ref_sign(&d, z, &half);
                assert!(r.to_bytes_be().len() == 21);
                let s = low_s(&s);
                assert!(ref_verify(&pubkey_of(&d, compressed), z, &r, &s));
                let mut i = der_sig(&r, &s);
                i.push(flag);
                i
            });
            assert_eq!(lib_verdict(&t, 1), Verdict::Accept, "short r flag {:#x}", flag);
            // search nonces for: r with high bit (33-byte integer), r < 2^248 (31 bytes), s < 2^248
            let mut seen = (false, false, false);
            for i in 0..600 {
                if seen == (true, true, true) {
                    break;
                }
                let k = nonce(&format!("shape-{}", i));
                let shape = std::cell::Cell::new((false, false, false));
                let (t, _, _) = p2pk_spend_with(flag, compressed, &|z| {
                    let (r, s) = ref_sign(&d, z, &k);
                    let s = low_s(&s);
                    shape.set((r.to_bytes_be()[0] & 0x80 != 0 && r.to_bytes_be().len() == 32, r.to_bytes_be().len() < 32, s.to_bytes_be().len() < 32));
                    let mut i = der_sig(&r, &s);
                    i.push(flag);
                    i
                });
                let shape = shape.get();
                let interesting = (shape.0 && !seen.0) || (shape.1 && !seen.1) || (shape.2 && !seen.2);
                if interesting {
                    assert_eq!(lib_verdict(&t, 1), Verdict::Accept, "shape {:?} flag {:#x}", shape, flag);
                    seen = (seen.0 || shape.0, seen.1 || shape.1, seen.2 || shape.2);
                }
            }
            eprintln!("e03 flag {:#x} compressed {}: shapes seen (r padded, r short, s short) = {:?}", flag, compressed, seen);
            assert!(seen.0);
        }
    }
}

/// E04: mutations of signature, flag byte and key after signing -> reject. Oracle: ref_verify says the mutated triple is invalid.
#[test]
fn e04_mutated_signature_flag_or_key_is_rejected() {
    let d = key(1);
    let mut checked = 0;
    for flag in FLAGS {
        let k = nonce("e04");
        // baseline
        let base = |z: &[u8]| {
            let (r, s) = ref_sign(&d, z, &k);
            (r, low_s(&s))
        };
        let (t, rtx, pre) = p2pk_spend_with(flag, true, &|z| {
            let (r, s) = base(z);
            let mut i = der_sig(&r, &s);
            i.push(flag);
            i
        });
        assert_eq!(lib_verdict(&t, 1), Verdict::Accept);
        let z = sha256d(&pre);
        let (r, s) = base(&z);
        let pk = pubkey_of(&d, true);
        // r+1, s+1, r<->s, other flags
        let mut variants: Vec<(String, Vec<u8>)> = vec![];
        for (name, rr, ss) in [("r+1", &r + one(), s.clone()), ("s+1", r.clone(), &s + one()), ("swap", s.clone(), r.clone()), ("s-1", r.clone(), &s - one())] {
            assert!(!ref_verify(&pk, &z, &rr, &ss));
            let mut i = der_sig(&rr, &ss);
            i.push(flag);
            variants.push((name.to_string(), i));
        }
        for other in FLAGS {
            if other != flag {
                let z2 = sha256d(&ref_preimage(&rtx, 1, other, &p2pk(1, true, &[]).locking, 123_456).unwrap());
                assert!(!ref_verify(&pk, &z2, &r, &s));
                let mut i = der_sig(&r, &s);
                i.push(other);
                variants.push((format!("flag {:#x}->{:#x}", flag, other), i));
            }
        }
        for (name, item) in variants {
            let mut m = rtx.clone();
            m.ins[1].script = ser_script(&[Tok::Push(item)]);
            let t = lib_tx_parsed(&m, 1, &ser_script(&p2pk(1, true, &[]).locking), 123_456);
            let v = lib_verdict(&t, 1);
            checked += 1;
            assert!(matches!(v, Verdict::Reject(_)), "{} with flag {:#x}: {:?}", name, flag, v);
        }
        // key mutations in the locking script, the signature staying what it was (it was made for the original locking script)
        for (name, newkey) in [("other key", pubkey_of(&key(2), true)), ("negated key", { let mut k = pk.clone(); k[0] ^= 1; k }), ("uncompressed form", pubkey_of(&d, false))] {
            let t = lib_tx_parsed(&rtx, 1, &ser_script(&[Tok::Push(newkey), Tok::Op(OP_CHECKSIG)]), 123_456);
            let v = lib_verdict(&t, 1);
            checked += 1;
            assert!(matches!(v, Verdict::Reject(_)), "{} with flag {:#x}: {:?}", name, flag, v);
        }
    }
    eprintln!("e04: {} mutated signature/flag/key spends all rejected", checked);
}

fn spend(sc: &Scenario, nin: usize, nout: usize, idx: usize, flags: &dyn Fn(usize, usize) -> u8, value: u64) -> (RTx, Vec<u8>) {
    let mut tx = base_tx(nin, nout);
    let unlocking = sign_scenario(sc, &tx, idx, flags, value).unwrap();
    tx.ins[idx].script = ser_script(&unlocking);
    (tx, ser_script(&sc.locking))
}

/// E05 (observation): the (r, n-s) twin of an accepted signature. Textbook ECDSA (ref_verify) calls it valid.
#[test]
fn e05_obs_high_s_twin() {
    let d = key(1);
    let k = nonce("e05");
    let mut verdicts = vec![];
    for flag in [0x41u8, 0x01] {
        let (t, _, pre) = p2pk_spend_with(flag, true, &|z| {
            let (r, s) = ref_sign(&d, z, &k);
            let s = &n() - low_s(&s);
            assert!(s > (n() >> 1));
            assert!(ref_verify(&pubkey_of(&d, true), z, &r, &s), "textbook ECDSA accepts the high-S twin");
            let mut i = der_sig(&r, &s);
            i.push(flag);
            i
        });
        let _ = pre;
        verdicts.push((flag, lib_verdict(&t, 1)));
    }
    eprintln!("obs e05: high-S twin verdicts: {:?}", verdicts);
    // Recorded as an observation: BSV consensus (LOW_S is a mandatory flag since the 2017 fork that introduced FORKID) rejects such signatures too.
    for (_, v) in verdicts {
        assert!(matches!(v, Verdict::Reject(_)));
    }
}

/// E06 (observation): SINGLE flags on an input that has no output of the same index.
#[test]
fn e06_obs_single_without_matching_output() {
    let d = key(1);
    let sc = p2pk(1, true, &[]);
    let mut out = vec![];
    for flag in [0x43u8, 0xc3] {
        // FORKID scheme: the specification (replay-protected-sighash.md, item 8) puts 32 zero bytes as hashOutputs
        let mut tx = base_tx(3, 2);
        let pre = ref_preimage(&tx, 2, flag, &sc.locking, 9).unwrap();
        tx.ins[2].script = ser_script(&[Tok::Push(fast_sig_item(&pre, flag, &d, 0))]);
        let t = lib_tx_parsed(&tx, 2, &ser_script(&sc.locking), 9);
        out.push((flag, lib_verdict(&t, 2)));
    }
    for flag in [0x03u8, 0x83] {
        // legacy scheme: the digest is the number one (uint256, little endian)
        let mut z = vec![0u8; 32];
        z[0] = 1;
        let (r, s) = ref_sign(&d, &{ let mut b = z.clone(); b.reverse(); b }, &nonce("e06"));
        let mut item = der_sig(&r, &low_s(&s));
        item.push(flag);
        let mut tx = base_tx(3, 2);
        tx.ins[2].script = ser_script(&[Tok::Push(item)]);
        let t = lib_tx_parsed(&tx, 2, &ser_script(&sc.locking), 9);
        out.push((flag, lib_verdict(&t, 2)));
    }
    eprintln!("obs e06: SINGLE without a matching output: {:?}", out);
    for (_, v) in out {
        assert!(v != Verdict::Panic && v != Verdict::Accept);
    }
}

/// E07: spends assembled and signed through the library's own API (Transaction::sign, sign_with_k, P2PKHAddress scripts, ASM templates)
/// are accepted, and the signature they carry is a valid signature (ref_verify) over the reference preimage.
#[test]
fn e07_library_signed_standard_spends() {
    let mut count = 0;
    for compressed in [true, false] {
        let sk = PrivateKey::from_bytes(&be32(&key(7))).unwrap().compress_public_key(compressed);
        let pk = sk.to_public_key().unwrap();
        assert_eq!(pk.to_bytes().unwrap(), pubkey_of(&key(7), compressed), "public key derivation agrees with the reference");
        let addr = P2PKHAddress::from_pubkey(&pk).unwrap();
        let locking = addr.get_locking_script().unwrap();
        let ref_locking = [Tok::Op(OP_DUP), Tok::Op(OP_HASH160), Tok::Push(hash160(&pubkey_of(&key(7), compressed))), Tok::Op(OP_EQUALVERIFY), Tok::Op(OP_CHECKSIG)];
        assert_eq!(locking.to_bytes(), ser_script(&ref_locking));
        for flag in FLAGS {
            for idx in 0..3usize {
                for with_k in [false, true] {
                    let rtx = base_tx(3, 3);
                    let value = 42_000u64;
                    let mut t = Transaction::new(rtx.version, rtx.locktime);
                    for (j, i) in rtx.ins.iter().enumerate() {
                        let mut txin = TxIn::new(&i.txid, i.vout, &Script::default(), Some(i.seq));
                        if j == idx {
                            txin.set_locking_script(&locking);
                            txin.set_satoshis(value);
                        }
                        t.add_input(&txin);
                    }
                    for o in &rtx.outs {
                        t.add_output(&TxOut::new(o.value, &Script::from_bytes(&o.script).unwrap()));
                    }
                    let sh = SigHash::try_from(flag).unwrap();
                    let sig = match with_k {
                        false => t.sign(&sk, sh, idx, &locking, value).unwrap(),
                        true => t.sign_with_k(&sk, &PrivateKey::from_bytes(&be32(&nonce("e07"))).unwrap(), sh, idx, &locking, value).unwrap(),
                    };
                    // the signature item is a valid signature over the reference preimage
                    let item = sig.to_bytes().unwrap();
                    assert_eq!(*item.last().unwrap(), flag);
                    let pre = ref_preimage(&rtx, idx, flag, &ref_locking, value).unwrap();
                    let (r, s) = parse_der(&item[..item.len() - 1]);
                    assert!(ref_verify(&pubkey_of(&key(7), compressed), &sha256d(&pre), &r, &s), "library signature valid by the oracle: flag {:#x} idx {}", flag, idx);
                    let mut txin = t.get_input(idx).unwrap();
                    txin.set_unlocking_script(&addr.get_unlocking_script(&pk, &sig).unwrap());
                    t.set_input(idx, &txin);
                    assert_eq!(lib_verdict(&t, idx), Verdict::Accept, "p2pkh flag {:#x} idx {} compressed {} with_k {}", flag, idx, compressed, with_k);
                    count += 1;
                }
            }
        }
    }
    // m-of-n multisig through the ASM route, library signatures
    for nkeys in 1..=3usize {
        for m in 1..=nkeys {
            for flag in FLAGS {
                let sks: Vec<PrivateKey> = (1..=nkeys).map(|i| PrivateKey::from_bytes(&be32(&key(i as u32))).unwrap()).collect();
                let asm = format!(
                    "OP_{} {} OP_{} OP_CHECKMULTISIG",
                    m,
                    sks.iter().map(|k| k.to_public_key().unwrap().to_hex().unwrap()).collect::<Vec<_>>().join(" "),
                    nkeys
                );
                let locking = Script::from_asm_string(&asm).unwrap();
                let rtx = base_tx(2, 2);
                let mut t = lib_tx_built(&rtx, 1, &locking.to_bytes(), 31337);
                // the last m keys sign
                let sigs: Vec<String> = sks[nkeys - m..].iter().map(|k| t.sign(k, SigHash::try_from(flag).unwrap(), 1, &locking, 31337).unwrap().to_hex().unwrap()).collect();
                let unlocking = Script::from_asm_string(&format!("OP_0 {}", sigs.join(" "))).unwrap();
                let mut txin = t.get_input(1).unwrap();
                txin.set_unlocking_script(&unlocking);
                t.set_input(1, &txin);
                assert_eq!(lib_verdict(&t, 1), Verdict::Accept, "multisig {} of {} flag {:#x}", m, nkeys, flag);
                count += 1;
            }
        }
    }
    eprintln!("e07: {} library-signed spends accepted", count);
}
fn parse_der(d: &[u8]) -> (BigUint, BigUint) {
    assert_eq!(d[0], 0x30);
    assert_eq!(d[1] as usize, d.len() - 2);
    assert_eq!(d[2], 0x02);
    let rl = d[3] as usize;
    let r = BigUint::from_bytes_be(&d[4..4 + rl]);
    assert_eq!(d[4 + rl], 0x02);
    let sl = d[5 + rl] as usize;
    assert_eq!(6 + rl + sl, d.len());
    (r, BigUint::from_bytes_be(&d[6 + rl..]))
}

/// E08: the signed transaction survives the JSON and CBOR forms (with the spent output's script and value) and a clone; verdicts unchanged.
#[test]
fn e08_serde_forms_and_clones_keep_the_verdict() {
    for sc in [p2pkh(1, true, &[2]), multisig(2, 3, &[2, 3], &[0])] {
        for flag in [0x41u8, 0x03, 0xc2] {
            for value in [0u64, 1, 2_100_000_000_000_000, u64::MAX] {
                let (rtx, locking) = spend(&sc, 3, 3, 1, &|_, _| flag, value);
                let t = lib_tx_built(&rtx, 1, &locking, value);
                assert_eq!(lib_verdict(&t, 1), Verdict::Accept, "{} value {}", sc.name, value);
                let j = Transaction::from_json_string(&t.to_json_string().unwrap()).unwrap();
                assert_eq!(j.to_bytes().unwrap(), rtx.ser());
                assert_eq!(lib_verdict(&j, 1), Verdict::Accept, "json {} value {}", sc.name, value);
                let c = Transaction::from_compact_bytes(&t.to_compact_bytes().unwrap()).unwrap();
                assert_eq!(c.to_bytes().unwrap(), rtx.ser());
                assert_eq!(lib_verdict(&c, 1), Verdict::Accept, "cbor {} value {}", sc.name, value);
                // and a mutation made in the JSON text is noticed
                let mut jv: serde_json::Value = serde_json::from_str(&t.to_json_string().unwrap()).unwrap();
                jv["inputs"][1]["satoshis"] = serde_json::json!(value.wrapping_add(1));
                let jm = Transaction::from_json_string(&jv.to_string()).unwrap();
                let expect_accept = flag & 0x40 == 0; // the value is only committed to by the FORKID scheme
                assert_eq!(lib_verdict(&jm, 1) == Verdict::Accept, expect_accept, "json value edit {} flag {:#x}", sc.name, flag);
            }
        }
    }
}

/// E09: boundary sizes: subscript longer than 252 bytes (compact-size 0xfd form inside the preimage), 253 inputs / outputs,
/// no outputs at all, extreme version / locktime / sequence / vout.
#[test]
fn e09_boundary_sizes() {
    // long locking script: P2PK padded with OP_NOPs and separators after the CHECKSIG-relevant part
    for pad in [215usize, 216, 217, 218, 300, 3_000] {
        let mut l = vec![Tok::Push(pubkey_of(&key(1), true)), Tok::Op(OP_CHECKSIGVERIFY)];
        for _ in 0..pad {
            l.push(Tok::Op(OP_NOP));
        }
        l.push(Tok::Op(OP_1));
        let sc = Scenario { name: format!("padded p2pk {}", pad), checks: checks_of(&l, &[vec![1]]), locking: l, unlocking: vec![UTok::Sig(0, 0)] };
        for flag in [0x41u8, 0x01, 0xc3] {
            let (rtx, locking) = spend(&sc, 2, 2, 0, &|_, _| flag, 5);
            assert_eq!(lib_verdict(&lib_tx_parsed(&rtx, 0, &locking, 5), 0), Verdict::Accept, "{} (script of {} bytes) flag {:#x}", sc.name, locking.len(), flag);
        }
    }
    // a data push of 300 bytes in the middle of the subscript (OP_PUSHDATA2 form), dropped again
    {
        let l = vec![Tok::Op(OP_CODESEPARATOR), Tok::Push(vec![0xab; 300]), Tok::Op(0x75), Tok::Push(pubkey_of(&key(1), false)), Tok::Op(OP_CHECKSIG)];
        let sc = Scenario { name: "pushdata2 in subscript".into(), checks: checks_of(&l, &[vec![1]]), locking: l, unlocking: vec![UTok::Sig(0, 0)] };
        for flag in FLAGS {
            let (rtx, locking) = spend(&sc, 2, 2, 1, &|_, _| flag, 5);
            assert_eq!(lib_verdict(&lib_tx_parsed(&rtx, 1, &locking, 5), 1), Verdict::Accept, "{} flag {:#x}", sc.name, flag);
        }
    }
    // many inputs and outputs
    for (nin, nout, idx) in [(253usize, 253usize, 252usize), (254, 1, 0), (1, 0, 0), (2, 0, 1), (300, 300, 299)] {
        for flag in FLAGS {
            let sc = p2pkh(1, true, &[]);
            let base = flag & 0x1f;
            if base == 3 && idx >= nout {
                continue;
            }
            let (rtx, locking) = spend(&sc, nin, nout, idx, &|_, _| flag, 5);
            assert_eq!(lib_verdict(&lib_tx_parsed(&rtx, idx, &locking, 5), idx), Verdict::Accept, "{} ins {} outs idx {} flag {:#x}", nin, nout, idx, flag);
        }
    }
    // extreme field values
    for flag in FLAGS {
        let sc = multisig(1, 2, &[2], &[]);
        let mut tx = base_tx(2, 2);
        tx.version = 0xffff_ffff;
        tx.locktime = 0xffff_ffff;
        tx.ins[0].seq = 0;
        tx.ins[1].seq = 0x8000_0000;
        tx.ins[1].vout = 0xffff_ffff;
        tx.ins[0].txid = [0u8; 32];
        tx.ins[0].vout = 0xffff_fffe;
        tx.outs[0].value = u64::MAX;
        tx.outs[1].script = vec![];
        let unlocking = sign_scenario(&sc, &tx, 1, &|_, _| flag, u64::MAX).unwrap();
        tx.ins[1].script = ser_script(&unlocking);
        assert_eq!(lib_verdict(&lib_tx_parsed(&tx, 1, &ser_script(&sc.locking), u64::MAX), 1), Verdict::Accept, "extreme fields flag {:#x}", flag);
        assert_eq!(lib_verdict(&lib_tx_built(&tx, 1, &ser_script(&sc.locking), u64::MAX), 1), Verdict::Accept, "extreme fields (built) flag {:#x}", flag);
    }
}

/// The locking scripts of the three families for key(s) 1.., and a spending transaction whose input 0 carries `unlocking` (raw bytes)
fn family_lockings() -> Vec<(String, Vec<u8>)> {
    vec![
        ("p2pk".to_string(), ser_script(&p2pk(1, true, &[]).locking)),
        ("p2pk-uncompressed".to_string(), ser_script(&p2pk(1, false, &[]).locking)),
        ("p2pkh".to_string(), ser_script(&p2pkh(1, true, &[]).locking)),
        ("p2pkh+sep".to_string(), ser_script(&p2pkh(1, true, &[4]).locking)),
        ("1of1".to_string(), ser_script(&multisig(1, 1, &[1], &[]).locking)),
        ("2of3".to_string(), ser_script(&multisig(2, 3, &[1, 2], &[]).locking)),
    ]
}

/// V1: an unlocking script that carries no signature at all - `OP_1 OP_RETURN` - read from the wire form of the transaction.
/// Oracle: the property itself (no signature by the key is supplied, so no CHECKSIG / CHECKMULTISIG can have been satisfied);
/// on the network such an input is invalid as well (pre-Genesis OP_RETURN fails the script, post-Genesis unlocking scripts are push only
/// and the two scripts are evaluated one after the other, the locking script always being run).
#[test]
fn violation_unlocking_op_return_spends_without_signature() {
    let mut accepted = vec![];
    for (name, locking) in family_lockings() {
        let mut tx = base_tx(2, 2);
        tx.ins[0].script = vec![0x51, 0x6a]; // OP_1 OP_RETURN
        let t = lib_tx_parsed(&tx, 0, &locking, 1_000);
        assert_eq!(t.to_bytes().unwrap(), tx.ser());
        let v = lib_verdict(&t, 0);
        eprintln!("   * {} spent with unlocking script OP_1 OP_RETURN: {:?}", name, v);
        if v == Verdict::Accept {
            accepted.push(name);
        }
    }
    assert!(accepted.is_empty(), "accepted without any signature: {:?}", accepted);
}

/// V2: an unlocking script object whose last element declares more data than it holds, so that in the joined script it swallows the
/// whole locking script as push data. Reachable through the element constructors and through the JSON / CBOR forms of a transaction.
#[test]
fn violation_unlocking_element_swallows_the_locking_script() {
    let mut accepted = vec![];
    for (name, locking) in family_lockings() {
        // (a) JSON form: script_sig holding one "coinbase" element with the raw byte <len(locking)> (a direct push opcode)
        let mut tx = base_tx(2, 2);
        tx.ins[0].script = vec![];
        let t = lib_tx_parsed(&tx, 0, &locking, 1_000);
        let mut jv: serde_json::Value = serde_json::from_str(&t.to_json_string().unwrap()).unwrap();
        let raw = if locking.len() < 0x4c { vec![locking.len() as u8] } else { vec![0x4c, locking.len() as u8] };
        jv["inputs"][0]["script_sig"] = serde_json::json!([{ "coinbase": hex::encode(&raw) }]);
        let from_json = Transaction::from_json_string(&jv.to_string()).unwrap();
        let v = lib_verdict(&from_json, 0);
        eprintln!("   * {} spent with script_sig [{{coinbase: {}}}] from JSON: {:?}", name, hex::encode(&raw), v);
        if v == Verdict::Accept {
            accepted.push(format!("{} (json)", name));
        }
        // (b) element route: a Push element of 76 bytes is written with the prefix byte 0x4c (OP_PUSHDATA1), its first byte becomes the length
        let mut data = vec![0x11u8; 76];
        data[0] = (75 + locking.len()) as u8;
        let mut t2 = lib_tx_parsed(&tx, 0, &locking, 1_000);
        let mut txin = t2.get_input(0).unwrap();
        txin.set_unlocking_script(&Script::from_script_bits(vec![ScriptBit::Push(data)]));
        t2.set_input(0, &txin);
        let v = lib_verdict(&t2, 0);
        eprintln!("   * {} spent with unlocking script [Push(76 bytes)]: {:?}", name, v);
        if v == Verdict::Accept {
            accepted.push(format!("{} (element)", name));
        }
    }
    assert!(accepted.is_empty(), "accepted without any signature: {:?}", accepted);
}

/// E10: CHECKMULTISIG order semantics. Oracle: the consensus algorithm (signatures must match keys in the order of the keys),
/// re-implemented here over ref_verify.
fn ref_multisig_accepts(keys: &[Vec<u8>], sigs: &[(BigUint, BigUint, Vec<u8>)]) -> bool {
    // sigs: (r, s, digest)
    let (mut ik, mut is) = (0, 0);
    while is < sigs.len() {
        if ik >= keys.len() {
            return false;
        }
        if ref_verify(&keys[ik], &sigs[is].2, &sigs[is].0, &sigs[is].1) {
            is += 1;
        }
        ik += 1;
    }
    true
}
#[test]
fn e10_multisig_order_and_mixed_flags() {
    let mut count = 0;
    for nkeys in 1..=3usize {
        for m in 1..=nkeys {
            // every ordered selection (with repetition) of m signers out of keys 1..=3 and one stranger (key 9)
            let pool: Vec<u32> = vec![1, 2, 3, 9];
            let mut selections: Vec<Vec<u32>> = vec![vec![]];
            for _ in 0..m {
                selections = selections.iter().flat_map(|s| pool.iter().map(move |k| { let mut s = s.clone(); s.push(*k); s })).collect();
            }
            for sel in selections {
                for flagset in [[0x41u8, 0x41, 0x41], [0x41, 0x02, 0xc3], [0x83, 0x01, 0x42]] {
                    let sc = multisig(m, nkeys, &sel, &[]);
                    let (rtx, locking) = spend(&sc, 3, 3, 1, &|_, pos| flagset[pos], 10);
                    let keys: Vec<Vec<u8>> = (1..=nkeys).map(|i| pubkey_of(&key(i as u32), i % 2 == 1)).collect();
                    // oracle input: parse the signature items back out of the unlocking script tokens
                    let unlocking = sign_scenario(&sc, &base_tx(3, 3), 1, &|_, pos| flagset[pos], 10).unwrap();
                    let sigs: Vec<(BigUint, BigUint, Vec<u8>)> = unlocking[1..]
                        .iter()
                        .map(|t| match t {
                            Tok::Push(item) => {
                                let (r, s) = parse_der(&item[..item.len() - 1]);
                                let pre = ref_preimage(&rtx, 1, *item.last().unwrap(), &sc.locking, 10).unwrap();
                                (r, s, sha256d(&pre))
                            }
                            _ => unreachable!(),
                        })
                        .collect();
                    let expect = ref_multisig_accepts(&keys, &sigs);
                    let v = lib_verdict(&lib_tx_parsed(&rtx, 1, &locking, 10), 1);
                    count += 1;
                    assert_eq!(v == Verdict::Accept, expect, "{} flags {:?}: {:?}", sc.name, flagset, v);
                    assert!(v != Verdict::Panic);
                }
            }
        }
    }
    eprintln!("e10: {} multisig signer selections agree with the consensus algorithm", count);
}

/// E11: several checking opcodes in one locking script, each with its own subscript; VERIFY forms; a different flag per signature.
#[test]
fn e11_several_checks_with_separators_between() {
    let k1 = pubkey_of(&key(1), true);
    let k2 = pubkey_of(&key(2), false);
    let k3 = pubkey_of(&key(3), true);
    // <k1> CHECKSIGVERIFY SEP 1 <k2> <k3> 2 CHECKMULTISIGVERIFY SEP SEP <k3> CHECKSIG SEP
    let l = vec![
        Tok::Push(k1), Tok::Op(OP_CHECKSIGVERIFY), Tok::Op(OP_CODESEPARATOR), Tok::Op(OP_1), Tok::Push(k2), Tok::Push(k3.clone()), Tok::Op(OP_1 + 1), Tok::Op(OP_CHECKMULTISIGVERIFY),
        Tok::Op(OP_CODESEPARATOR), Tok::Op(OP_CODESEPARATOR), Tok::Push(k3), Tok::Op(OP_CHECKSIG), Tok::Op(OP_CODESEPARATOR),
    ];
    // stack order: the last check's signature is pushed first
    let sc = Scenario {
        name: "three checks".into(),
        checks: checks_of(&l, &[vec![1], vec![3], vec![3]]),
        locking: l,
        unlocking: vec![UTok::Sig(2, 0), UTok::Tok(Tok::Op(OP_0)), UTok::Sig(1, 0), UTok::Sig(0, 0)],
    };
    let mut count = 0;
    for f0 in FLAGS {
        for (f1, f2) in [(0x41u8, 0x41u8), (0x02, 0xc1), (0x83, 0x43)] {
            let flags = move |c: usize, _: usize| [f0, f1, f2][c];
            let (rtx, locking) = spend(&sc, 3, 3, 2, &flags, 99);
            for t in [lib_tx_parsed(&rtx, 2, &locking, 99), lib_tx_built(&rtx, 2, &locking, 99)] {
                assert_eq!(lib_verdict(&t, 2), Verdict::Accept, "flags {:#x} {:#x} {:#x}", f0, f1, f2);
                count += 1;
            }
            // a signature made for the wrong subscript (that of another check) is not accepted
            let mut wrong = sc.clone();
            wrong.checks[2].0 = wrong.checks[0].0; // sign check 2 with the subscript of check 0
            let mut tx = base_tx(3, 3);
            let unlocking = sign_scenario(&wrong, &tx, 2, &flags, 99).unwrap();
            tx.ins[2].script = ser_script(&unlocking);
            let v = lib_verdict(&lib_tx_parsed(&tx, 2, &locking, 99), 2);
            assert!(matches!(v, Verdict::Reject(_)), "wrong subscript: {:?}", v);
        }
    }
    eprintln!("e11: {} spends with three checks accepted, wrong-subscript variants rejected", count);
}

/// E12: unusual but valid unlocking scripts: pushes in OP_PUSHDATA1/2 form, dummy as an empty push via OP_PUSHDATA1, a code separator
/// and OP_NOPs inside the unlocking script (a separator there does not shorten the locking script's subscript).
#[test]
fn e12_unusual_unlocking_scripts() {
    for flag in FLAGS {
        for sc in [p2pk(1, true, &[]), p2pk(1, true, &[1]), p2pkh(1, false, &[2]), multisig(2, 2, &[1, 2], &[3])] {
            let tx0 = base_tx(2, 2);
            let toks = sign_scenario(&sc, &tx0, 1, &|_, _| flag, 77).unwrap();
            let locking = ser_script(&sc.locking);
            let variants: Vec<(&str, Vec<u8>)> = vec![
                ("pushdata1 pushes", toks.iter().flat_map(|t| match t { Tok::Push(d) => { let mut v = vec![0x4c, d.len() as u8]; v.extend(d); v } Tok::Op(OP_0) => vec![0x4c, 0x00], Tok::Op(o) => vec![*o] }).collect()),
                ("pushdata2 pushes", toks.iter().flat_map(|t| match t { Tok::Push(d) => { let mut v = vec![0x4d, d.len() as u8, 0]; v.extend(d); v } Tok::Op(o) => vec![*o] }).collect()),
                ("separator first", { let mut v = vec![OP_CODESEPARATOR]; v.extend(ser_script(&toks)); v }),
                ("separator last", { let mut v = ser_script(&toks); v.push(OP_CODESEPARATOR); v }),
                ("nops around", { let mut v = vec![OP_NOP, OP_NOP]; v.extend(ser_script(&toks)); v.push(OP_NOP); v }),
            ];
            for (name, unlocking) in variants {
                let mut tx = tx0.clone();
                tx.ins[1].script = unlocking;
                assert_eq!(lib_verdict(&lib_tx_parsed(&tx, 1, &locking, 77), 1), Verdict::Accept, "{} / {} flag {:#x}", sc.name, name, flag);
            }
        }
    }
}

/// E13: stepping the interpreter as an iterator, cloning it and sending it through JSON in the middle of a run (after the code separator
/// has been executed) gives the same verdict as run().
#[test]
fn e13_stepping_cloning_and_serialising_the_interpreter() {
    for flag in [0x41u8, 0x03, 0xc2] {
        let sc = multisig(2, 3, &[1, 3], &[2]);
        let (rtx, locking) = spend(&sc, 3, 3, 1, &|_, _| flag, 5);
        let t = lib_tx_parsed(&rtx, 1, &locking, 5);
        let mut whole = Interpreter::from_transaction(&t, 1).unwrap();
        whole.run().unwrap();
        assert_eq!(whole.state().stack().last().unwrap(), &vec![1u8]);
        for stop in 0..=10 {
            let mut i = Interpreter::from_transaction(&t, 1).unwrap();
            for _ in 0..stop {
                i.next().unwrap().unwrap();
            }
            let mut c = i.clone();
            let mut j: Interpreter = serde_json::from_str(&serde_json::to_string(&i).unwrap()).unwrap();
            for x in [&mut i, &mut c, &mut j] {
                let mut last = None;
                for st in x.by_ref() {
                    last = Some(st.unwrap());
                }
                let fin = last.map(|s| s.stack).unwrap_or_else(|| x.state().stack);
                assert_eq!(fin.last().unwrap(), &vec![1u8], "stop {} flag {:#x}", stop, flag);
            }
        }
    }
}

/// E14: locking scripts reaching the input by other routes than from_bytes: ASM text, element list, push()/push_array(), PUSHDATA1-form key pushes.
#[test]
fn e14_locking_script_construction_routes() {
    for flag in FLAGS {
        for sc in [p2pk(1, true, &[1]), p2pkh(1, true, &[0, 5]), multisig(2, 3, &[2, 3], &[1, 4])] {
            let (rtx, locking) = spend(&sc, 2, 2, 0, &|_, _| flag, 8);
            let parsed = Script::from_bytes(&locking).unwrap();
            let bits: Vec<ScriptBit> = sc.locking.iter().map(|t| match t { Tok::Push(d) => ScriptBit::Push(d.clone()), Tok::Op(o) => ScriptBit::OpCode(<OpCodes as num_traits::FromPrimitive>::from_u8(*o).unwrap()) }).collect();
            let mut pushed = Script::default();
            for b in &bits {
                pushed.push(b.clone());
            }
            let mut arr = Script::default();
            arr.push_array(&bits);
            let routes = vec![("asm", Script::from_asm_string(&parsed.to_asm_string()).unwrap()), ("bits", Script::from_script_bits(bits.clone())), ("push", pushed), ("push_array", arr), ("hex", Script::from_hex(&hex::encode(&locking)).unwrap())];
            for (name, l) in routes {
                assert_eq!(l.to_bytes(), locking, "{} route gives the same bytes", name);
                let mut t = Transaction::from_bytes(&rtx.ser()).unwrap();
                let mut txin = t.get_input(0).unwrap();
                txin.set_locking_script(&l);
                txin.set_satoshis(8);
                t.set_input(0, &txin);
                assert_eq!(lib_verdict(&t, 0), Verdict::Accept, "{} route {} flag {:#x}", sc.name, name, flag);
            }
        }
        // key pushed with OP_PUSHDATA1 in the locking script: the subscript keeps that form, byte for byte
        let pk = pubkey_of(&key(1), true);
        let mut raw = vec![OP_CODESEPARATOR, 0x4c, 33];
        raw.extend(&pk);
        raw.push(OP_CHECKSIG);
        let sub_raw = raw[1..].to_vec();
        let tx0 = base_tx(2, 2);
        // reference preimage with a raw subscript: reuse ref_preimage through a single opaque token is not possible, so build it by hand for FORKID flags only
        if flag & 0x40 != 0 {
            let fake = vec![Tok::Push(vec![])];
            let pre = ref_preimage(&tx0, 0, flag, &fake, 8).unwrap();
            // replace "01 00" (varint 1 + the one byte script 0x00) by the real subscript
            let code_at = 4 + 32 + 32 + 36;
            assert_eq!(&pre[code_at..code_at + 2], &[0x01, 0x00]);
            let mut real = pre[..code_at].to_vec();
            real.extend(varint(sub_raw.len() as u64));
            real.extend(&sub_raw);
            real.extend(&pre[code_at + 2..]);
            let mut tx = tx0.clone();
            tx.ins[0].script = ser_script(&[Tok::Push(fast_sig_item(&real, flag, &key(1), 0))]);
            assert_eq!(lib_verdict(&lib_tx_parsed(&tx, 0, &raw, 8), 0), Verdict::Accept, "pushdata1 key, flag {:#x}", flag);
        }
    }
}

/// E16 (observation): Interpreter::from_transaction with an input index the transaction does not have.
#[test]
fn e16_obs_input_index_out_of_range() {
    let sc = p2pk(1, true, &[]);
    let (rtx, locking) = spend(&sc, 2, 2, 0, &|_, _| 0x41, 8);
    let t = lib_tx_parsed(&rtx, 0, &locking, 8);
    let v = lib_verdict(&t, 2);
    eprintln!("obs e16: from_transaction(tx with 2 inputs, index 2) -> {:?}", v);
    assert!(v != Verdict::Accept);
}

/// E17 (observations): hybrid public key encodings (0x06 / 0x07), and legacy flags on an input whose value is not declared.
#[test]
fn e17_obs_hybrid_keys_and_undeclared_value() {
    let d = key(1);
    let unc = pubkey_of(&d, false);
    let mut hybrid = unc.clone();
    hybrid[0] = 6 + (unc[64] & 1);
    let l = vec![Tok::Push(hybrid), Tok::Op(OP_CHECKSIG)];
    let sc = Scenario { name: "hybrid".into(), checks: checks_of(&l, &[vec![1]]), locking: l, unlocking: vec![UTok::Sig(0, 0)] };
    let (rtx, locking) = spend(&sc, 2, 2, 0, &|_, _| 0x41, 8);
    eprintln!("obs e17: P2PK to a hybrid-encoded key, valid signature: {:?}", lib_verdict(&lib_tx_parsed(&rtx, 0, &locking, 8), 0));
    // legacy flag, no value declared on the input: the legacy preimage does not contain the value
    let sc = p2pk(1, true, &[]);
    let (rtx, locking) = spend(&sc, 2, 2, 0, &|_, _| 0x01, 8);
    let mut t = Transaction::from_bytes(&rtx.ser()).unwrap();
    let mut txin = t.get_input(0).unwrap();
    txin.set_locking_script(&Script::from_bytes(&locking).unwrap());
    t.set_input(0, &txin);
    eprintln!("obs e17: legacy-flag signature on an input without a declared value: {:?}", lib_verdict(&t, 0));
}

/// E18: (neighbourhood of the repaired first-pass finding) separators inside else branches, OP_NOTIF, nested conditionals, a separator executed
/// before a conditional and none inside. The executed check and its preceding executed separator are given by hand.
#[test]
fn e18_separators_in_conditional_branches() {
    const IF: u8 = 0x63;
    const NOTIF: u8 = 0x64;
    const ELSE: u8 = 0x67;
    const ENDIF: u8 = 0x68;
    let k1 = Tok::Push(pubkey_of(&key(1), true));
    let k2 = Tok::Push(pubkey_of(&key(2), false));
    let sep = Tok::Op(OP_CODESEPARATOR);
    let cs = Tok::Op(OP_CHECKSIG);
    // (locking, selector tokens pushed after the signature, signer, index of the first token of the subscript)
    let cases: Vec<(Vec<Tok>, Vec<Tok>, u32, usize)> = vec![
        // IF <k1> SEP CS ELSE SEP <k2> CS ENDIF
        (vec![Tok::Op(IF), k1.clone(), sep.clone(), cs.clone(), Tok::Op(ELSE), sep.clone(), k2.clone(), cs.clone(), Tok::Op(ENDIF)], vec![Tok::Op(OP_1)], 1, 3),
        (vec![Tok::Op(IF), k1.clone(), sep.clone(), cs.clone(), Tok::Op(ELSE), sep.clone(), k2.clone(), cs.clone(), Tok::Op(ENDIF)], vec![Tok::Op(OP_0)], 2, 6),
        // NOTIF ... : branches swapped
        (vec![Tok::Op(NOTIF), k1.clone(), sep.clone(), cs.clone(), Tok::Op(ELSE), k2.clone(), sep.clone(), cs.clone(), Tok::Op(ENDIF)], vec![Tok::Op(OP_0)], 1, 3),
        (vec![Tok::Op(NOTIF), k1.clone(), sep.clone(), cs.clone(), Tok::Op(ELSE), k2.clone(), sep.clone(), cs.clone(), Tok::Op(ENDIF)], vec![Tok::Op(OP_1)], 2, 7),
        // SEP before the conditional, none executed inside: subscript starts after the first separator
        (vec![Tok::Op(OP_NOP), sep.clone(), Tok::Op(IF), k1.clone(), cs.clone(), Tok::Op(ELSE), sep.clone(), k2.clone(), cs.clone(), Tok::Op(ENDIF)], vec![Tok::Op(OP_1)], 1, 2),
        // nested: IF IF <k1> CS ELSE SEP <k2> CS ENDIF ELSE <k1> SEP CS ENDIF   with selectors (inner, outer)
        (
            vec![Tok::Op(IF), Tok::Op(IF), k1.clone(), cs.clone(), Tok::Op(ELSE), sep.clone(), k2.clone(), cs.clone(), Tok::Op(ENDIF), Tok::Op(ELSE), k1.clone(), sep.clone(), cs.clone(), Tok::Op(ENDIF)],
            vec![Tok::Op(OP_0), Tok::Op(OP_1)],
            2,
            6,
        ),
        (
            vec![Tok::Op(IF), Tok::Op(IF), k1.clone(), cs.clone(), Tok::Op(ELSE), sep.clone(), k2.clone(), cs.clone(), Tok::Op(ENDIF), Tok::Op(ELSE), k1.clone(), sep.clone(), cs.clone(), Tok::Op(ENDIF)],
            vec![Tok::Op(OP_0)],
            1,
            12,
        ),
        // conditional after the check's separator but before the check: IF SEP ENDIF <k1> CS with the branch not taken -> whole script
        (vec![Tok::Op(IF), sep.clone(), Tok::Op(ENDIF), k1.clone(), cs.clone()], vec![Tok::Op(OP_0)], 1, 0),
        (vec![Tok::Op(IF), sep.clone(), Tok::Op(ENDIF), k1.clone(), cs.clone()], vec![Tok::Op(OP_1)], 1, 2),
    ];
    let mut count = 0;
    for (n, (locking, selector, signer, sub_from)) in cases.iter().enumerate() {
        for flag in FLAGS {
            let mut tx = base_tx(2, 2);
            let pre = ref_preimage(&tx, 0, flag, &locking[*sub_from..], 3).unwrap();
            let mut u = vec![Tok::Push(fast_sig_item(&pre, flag, &key(*signer), 0))];
            u.extend(selector.clone());
            tx.ins[0].script = ser_script(&u);
            let l = ser_script(locking);
            for (route, t) in [("parsed", lib_tx_parsed(&tx, 0, &l, 3)), ("built", lib_tx_built(&tx, 0, &l, 3))] {
                assert_eq!(lib_verdict(&t, 0), Verdict::Accept, "case {} flag {:#x} route {}", n, flag, route);
                count += 1;
            }
            // and the signature over the whole locking script (ignoring the separator) is not accepted when a separator was executed
            if *sub_from != 0 {
                let pre = ref_preimage(&tx, 0, flag, locking, 3).unwrap();
                let mut u = vec![Tok::Push(fast_sig_item(&pre, flag, &key(*signer), 0))];
                u.extend(selector.clone());
                tx.ins[0].script = ser_script(&u);
                // legacy preimages drop every separator, so the whole-script signature coincides when only separators precede the subscript
                let same = ref_preimage(&tx, 0, flag, locking, 3) == ref_preimage(&tx, 0, flag, &locking[*sub_from..], 3);
                let v = lib_verdict(&lib_tx_parsed(&tx, 0, &l, 3), 0);
                assert_eq!(v == Verdict::Accept, same, "case {} flag {:#x} whole-script signature: {:?}", n, flag, v);
            }
        }
    }
    eprintln!("e18: {} conditional/separator spends accepted", count);
}

/// E19: signature items that are not strict DER, or whose flag byte is not one of the twelve: never accepted with a panic; non-DER rejected.
#[test]
fn e19_non_der_items_and_other_flag_bytes() {
    let d = key(1);
    let k = nonce("e19");
    let mut results = vec![];
    let enc = |name: &str, f: &dyn Fn(&BigUint, &BigUint) -> Vec<u8>| {
        let (t, _, _) = p2pk_spend_with(0x41, true, &|z| {
            let (r, s) = ref_sign(&d, z, &k);
            let mut i = f(&r, &low_s(&s));
            i.push(0x41);
            i
        });
        (name.to_string(), lib_verdict(&t, 1))
    };
    results.push(enc("r with an extra 0x00", &|r, s| { let mut rb = r.to_bytes_be(); if rb[0] & 0x80 != 0 { rb.insert(0, 0); } rb.insert(0, 0); let mut body = vec![0x02, rb.len() as u8]; body.extend(rb); body.extend(der_int(s)); let mut o = vec![0x30, body.len() as u8]; o.extend(body); o }));
    results.push(enc("long-form sequence length", &|r, s| { let mut body = der_int(r); body.extend(der_int(s)); let mut o = vec![0x30, 0x81, body.len() as u8]; o.extend(body); o }));
    results.push(enc("trailing byte inside the sequence", &|r, s| { let mut body = der_int(r); body.extend(der_int(s)); body.push(0); let mut o = vec![0x30, body.len() as u8]; o.extend(body); o }));
    results.push(enc("sequence length one short", &|r, s| { let mut body = der_int(r); body.extend(der_int(s)); let mut o = vec![0x30, body.len() as u8 - 1]; o.extend(body); o }));
    results.push(enc("compact 64 bytes instead of DER", &|r, s| { let mut o = be32(r); o.extend(be32(s)); o }));
    results.push(enc("s = 0", &|r, _| der_sig(r, &zero())));
    results.push(enc("r = n + r'", &|r, s| { let big = r + n(); if big.bits() > 256 { der_sig(r, &zero()) } else { der_sig(&big, s) } }));
    for (name, v) in &results {
        eprintln!("   * {}: {:?}", name, v);
        assert!(matches!(v, Verdict::Reject(_)), "{}", name);
    }
    // every flag byte outside the twelve, on a signature that is valid for the preimage the two schemes would give by their bit rules
    let mut accepted_other = vec![];
    for flag in 0u16..=255 {
        let flag = flag as u8;
        if FLAGS.contains(&flag) {
            continue;
        }
        let sc = p2pk(1, true, &[]);
        let mut tx = base_tx(2, 2);
        let pre = ref_preimage(&tx, 0, flag, &sc.locking, 4).unwrap();
        tx.ins[0].script = ser_script(&[Tok::Push(fast_sig_item(&pre, flag, &d, 0))]);
        let v = lib_verdict(&lib_tx_parsed(&tx, 0, &ser_script(&sc.locking), 4), 0);
        assert!(v != Verdict::Panic);
        if v == Verdict::Accept {
            accepted_other.push(flag);
        }
        // legacy-style digest under a FORKID-bit flag and vice versa
        let pre = ref_preimage(&tx, 0, flag ^ 0x40, &sc.locking, 4).unwrap();
        let mut pre2 = pre.clone();
        let l = pre2.len();
        pre2[l - 4] = flag; // keep the real flag in the trailer
        tx.ins[0].script = ser_script(&[Tok::Push(fast_sig_item(&pre2, flag, &d, 0))]);
        let v = lib_verdict(&lib_tx_parsed(&tx, 0, &ser_script(&sc.locking), 4), 0);
        if v == Verdict::Accept {
            accepted_other.push(flag);
            eprintln!("obs e19: flag {:#x}: a signature over the digest of the OTHER scheme is accepted", flag);
        }
    }
    eprintln!("obs e19: flag bytes outside the twelve that led to an accept: {:x?}", accepted_other);
}
