// Independent experiments for property C15 (interpreter CHECKSIG / CHECKMULTISIG decisions).
//
// Oracle: a small reference implementation written here (raw transaction serialisation, the
// replay-protected (FORKID) and the original signature-hash preimages written from their specifications,
// a byte-level script tokenizer, hash160 from sha2+ripemd160, ECDSA signing straight through k256).
// The library is only ever asked for its accept / reject decision.
#![allow(dead_code)]

use bsv::*;
use k256::ecdsa::signature::DigestSigner;
use k256::ecdsa::SigningKey;
use k256::elliptic_curve::sec1::ToEncodedPoint;
use sha2::{Digest, Sha256};
use std::panic::{catch_unwind, AssertUnwindSafe};

// ---------------------------------------------------------------------------------------------
// reference primitives
// ---------------------------------------------------------------------------------------------

fn sha256(data: &[u8]) -> Vec<u8> {
    Sha256::digest(data).to_vec()
}

fn sha256d(data: &[u8]) -> Vec<u8> {
    sha256(&sha256(data))
}

fn hash160(data: &[u8]) -> Vec<u8> {
    use ripemd160::Ripemd160;
    Ripemd160::digest(&sha256(data)).to_vec()
}

fn varint(n: u64) -> Vec<u8> {
    if n < 0xfd {
        vec![n as u8]
    } else if n <= 0xffff {
        let mut v = vec![0xfd];
        v.extend_from_slice(&(n as u16).to_le_bytes());
        v
    } else if n <= 0xffff_ffff {
        let mut v = vec![0xfe];
        v.extend_from_slice(&(n as u32).to_le_bytes());
        v
    } else {
        let mut v = vec![0xff];
        v.extend_from_slice(&n.to_le_bytes());
        v
    }
}

#[derive(Clone, Debug, PartialEq)]
struct RIn {
    txid: [u8; 32], // wire order
    vout: u32,
    script: Vec<u8>,
    seq: u32,
}

#[derive(Clone, Debug, PartialEq)]
struct ROut {
    value: u64,
    script: Vec<u8>,
}

#[derive(Clone, Debug, PartialEq)]
struct RTx {
    version: u32,
    ins: Vec<RIn>,
    outs: Vec<ROut>,
    locktime: u32,
}

impl RIn {
    fn ser(&self) -> Vec<u8> {
        let mut b = self.txid.to_vec();
        b.extend_from_slice(&self.vout.to_le_bytes());
        b.extend(varint(self.script.len() as u64));
        b.extend_from_slice(&self.script);
        b.extend_from_slice(&self.seq.to_le_bytes());
        b
    }
    fn outpoint(&self) -> Vec<u8> {
        let mut b = self.txid.to_vec();
        b.extend_from_slice(&self.vout.to_le_bytes());
        b
    }
}

impl ROut {
    fn ser(&self) -> Vec<u8> {
        let mut b = self.value.to_le_bytes().to_vec();
        b.extend(varint(self.script.len() as u64));
        b.extend_from_slice(&self.script);
        b
    }
}

impl RTx {
    fn ser(&self) -> Vec<u8> {
        let mut b = self.version.to_le_bytes().to_vec();
        b.extend(varint(self.ins.len() as u64));
        for i in &self.ins {
            b.extend(i.ser());
        }
        b.extend(varint(self.outs.len() as u64));
        for o in &self.outs {
            b.extend(o.ser());
        }
        b.extend_from_slice(&self.locktime.to_le_bytes());
        b
    }
}

/// One element of a script: (opcode byte, whole encoded element)
fn tokenize(script: &[u8]) -> Vec<(u8, Vec<u8>)> {
    let mut out = vec![];
    let mut i = 0;
    while i < script.len() {
        let op = script[i];
        let (hdr, len) = match op {
            1..=75 => (1, op as usize),
            0x4c => (2, script[i + 1] as usize),
            0x4d => (3, u16::from_le_bytes([script[i + 1], script[i + 2]]) as usize),
            0x4e => (5, u32::from_le_bytes([script[i + 1], script[i + 2], script[i + 3], script[i + 4]]) as usize),
            _ => (1, 0),
        };
        out.push((op, script[i..i + hdr + len].to_vec()));
        i += hdr + len;
    }
    out
}

fn strip_codeseparators(script: &[u8]) -> Vec<u8> {
    tokenize(script).into_iter().filter(|(op, _)| *op != 0xab).flat_map(|(_, b)| b).collect()
}

/// Replay protected signature hash preimage ("BIP143 with FORKID"), from the specification.
fn ref_preimage_forkid(tx: &RTx, idx: usize, subscript: &[u8], value: u64, flag: u8) -> Vec<u8> {
    let base = flag & 0x1f;
    let acp = flag & 0x80 != 0;
    let zero = vec![0u8; 32];
    let hash_prevouts = if !acp { sha256d(&tx.ins.iter().flat_map(|i| i.outpoint()).collect::<Vec<u8>>()) } else { zero.clone() };
    let hash_sequence = if !acp && base != 2 && base != 3 {
        sha256d(&tx.ins.iter().flat_map(|i| i.seq.to_le_bytes().to_vec()).collect::<Vec<u8>>())
    } else {
        zero.clone()
    };
    let hash_outputs = if base != 2 && base != 3 {
        sha256d(&tx.outs.iter().flat_map(|o| o.ser()).collect::<Vec<u8>>())
    } else if base == 3 && idx < tx.outs.len() {
        sha256d(&tx.outs[idx].ser())
    } else {
        zero.clone()
    };
    let mut b = tx.version.to_le_bytes().to_vec();
    b.extend(hash_prevouts);
    b.extend(hash_sequence);
    b.extend(tx.ins[idx].outpoint());
    b.extend(varint(subscript.len() as u64));
    b.extend_from_slice(subscript);
    b.extend_from_slice(&value.to_le_bytes());
    b.extend_from_slice(&tx.ins[idx].seq.to_le_bytes());
    b.extend(hash_outputs);
    b.extend_from_slice(&tx.locktime.to_le_bytes());
    b.extend_from_slice(&(flag as u32).to_le_bytes());
    b
}

/// Original signature hash preimage. None for the SIGHASH_SINGLE "one" case.
fn ref_preimage_legacy(tx: &RTx, idx: usize, subscript: &[u8], flag: u8) -> Option<Vec<u8>> {
    let base = flag & 0x1f;
    let acp = flag & 0x80 != 0;
    let mut t = tx.clone();
    for i in t.ins.iter_mut() {
        i.script = vec![];
    }
    t.ins[idx].script = strip_codeseparators(subscript);
    if base == 2 {
        t.outs.clear();
        for (i, inp) in t.ins.iter_mut().enumerate() {
            if i != idx {
                inp.seq = 0;
            }
        }
    } else if base == 3 {
        if idx >= t.outs.len() {
            return None;
        }
        t.outs.truncate(idx + 1);
        for o in t.outs.iter_mut().take(idx) {
            o.value = u64::MAX;
            o.script = vec![];
        }
        for (i, inp) in t.ins.iter_mut().enumerate() {
            if i != idx {
                inp.seq = 0;
            }
        }
    }
    if acp {
        t.ins = vec![t.ins[idx].clone()];
    }
    let mut b = t.ser();
    b.extend_from_slice(&(flag as u32).to_le_bytes());
    Some(b)
}

fn ref_preimage(tx: &RTx, idx: usize, subscript: &[u8], value: u64, flag: u8) -> Option<Vec<u8>> {
    if flag & 0x40 != 0 {
        Some(ref_preimage_forkid(tx, idx, subscript, value, flag))
    } else {
        ref_preimage_legacy(tx, idx, subscript, flag)
    }
}

const FLAGS: [u8; 12] = [0x01, 0x02, 0x03, 0x81, 0x82, 0x83, 0x41, 0x42, 0x43, 0xc1, 0xc2, 0xc3];

struct Key {
    sk: SigningKey,
    compressed: Vec<u8>,
    uncompressed: Vec<u8>,
}

fn key(seed: u32) -> Key {
    let bytes = sha256(format!("hunt-key-{}", seed).as_bytes());
    let sk = SigningKey::from_bytes(&bytes).unwrap();
    let pk = k256::PublicKey::from(&sk.verifying_key());
    Key {
        compressed: pk.to_encoded_point(true).as_bytes().to_vec(),
        uncompressed: pk.to_encoded_point(false).as_bytes().to_vec(),
        sk,
    }
}

/// ECDSA over sha256d(preimage), DER encoded (low S, RFC6979 nonce)
fn sign_der(k: &Key, preimage: &[u8]) -> Vec<u8> {
    let sig: k256::ecdsa::Signature = k.sk.sign_digest(Sha256::new().chain(sha256(preimage)));
    sig.to_der().as_bytes().to_vec()
}

fn sig_item(k: &Key, preimage: &[u8], flag: u8) -> Vec<u8> {
    let mut s = sign_der(k, preimage);
    s.push(flag);
    s
}

fn push(data: &[u8]) -> Vec<u8> {
    let mut v = vec![];
    if data.is_empty() {
        return vec![0x00];
    }
    if data.len() <= 75 {
        v.push(data.len() as u8);
    } else if data.len() <= 255 {
        v.push(0x4c);
        v.push(data.len() as u8);
    } else {
        v.push(0x4d);
        v.extend_from_slice(&(data.len() as u16).to_le_bytes());
    }
    v.extend_from_slice(data);
    v
}

fn cat(parts: &[Vec<u8>]) -> Vec<u8> {
    parts.iter().flatten().cloned().collect()
}

// deterministic pseudo random numbers
struct Rng(u64);
impl Rng {
    fn next(&mut self) -> u64 {
        self.0 ^= self.0 << 13;
        self.0 ^= self.0 >> 7;
        self.0 ^= self.0 << 17;
        self.0
    }
    fn below(&mut self, n: u64) -> u64 {
        self.next() % n
    }
    fn bytes(&mut self, n: usize) -> Vec<u8> {
        (0..n).map(|_| self.next() as u8).collect()
    }
}

fn random_tx(r: &mut Rng, n_in: usize, n_out: usize) -> RTx {
    RTx {
        version: r.next() as u32,
        ins: (0..n_in)
            .map(|_| {
                let mut txid = [0u8; 32];
                txid.copy_from_slice(&r.bytes(32));
                RIn {
                    txid,
                    vout: r.below(5) as u32,
                    script: vec![],
                    seq: if r.below(2) == 0 { 0xffff_ffff } else { r.next() as u32 },
                }
            })
            .collect(),
        outs: (0..n_out)
            .map(|_| ROut {
                value: r.next() >> r.below(40),
                script: cat(&[vec![0x76, 0xa9], push(&r.bytes(20)), vec![0x88, 0xac]]),
            })
            .collect(),
        locktime: if r.below(2) == 0 { 0 } else { r.next() as u32 },
    }
}

// ---------------------------------------------------------------------------------------------
// driving the library
// ---------------------------------------------------------------------------------------------

#[derive(Debug, Clone, PartialEq)]
enum Verdict {
    Accept,
    Reject(String),
    Panic,
}

impl Verdict {
    fn accepted(&self) -> bool {
        *self == Verdict::Accept
    }
}

fn truthy(item: Option<&Vec<u8>>) -> bool {
    match item {
        None => false,
        Some(v) => {
            for (i, b) in v.iter().enumerate() {
                if *b != 0 {
                    return !(i == v.len() - 1 && *b == 0x80);
                }
            }
            false
        }
    }
}

fn run_lib(tx: &Transaction, idx: usize) -> Verdict {
    let res = catch_unwind(AssertUnwindSafe(|| {
        let mut it = match Interpreter::from_transaction(tx, idx) {
            Ok(i) => i,
            Err(e) => return Verdict::Reject(format!("from_transaction: {}", e)),
        };
        match it.run() {
            Ok(()) => {
                if truthy(it.state().stack().last()) {
                    Verdict::Accept
                } else {
                    Verdict::Reject("false on top".into())
                }
            }
            Err(e) => Verdict::Reject(format!("{}", e)),
        }
    }));
    res.unwrap_or(Verdict::Panic)
}

/// Library transaction parsed from the reference bytes, with the spent output of input `idx` declared
fn lib_tx(rtx: &RTx, idx: usize, locking: &[u8], value: u64) -> Transaction {
    let mut tx = Transaction::from_bytes(&rtx.ser()).expect("tx parses");
    let mut tin = tx.get_input(idx).unwrap();
    tin.set_locking_script(&Script::from_bytes(locking).expect("locking parses"));
    tin.set_satoshis(value);
    tx.set_input(idx, &tin);
    tx
}

fn spend(rtx: &RTx, idx: usize, locking: &[u8], value: u64) -> Verdict {
    run_lib(&lib_tx(rtx, idx, locking, value), idx)
}

// ---------------------------------------------------------------------------------------------
// script families
// ---------------------------------------------------------------------------------------------

#[derive(Clone, Debug)]
struct Family {
    name: String,
    locking: Vec<u8>,
    signers: Vec<u32>, // key seeds that sign, in order
    pre: Vec<u8>,      // unlocking bytes before signatures
    post: Vec<u8>,     // unlocking bytes after signatures
}

fn families() -> Vec<Family> {
    let mut f = vec![];
    let k1 = key(1);
    f.push(Family { name: "p2pk".into(), locking: cat(&[push(&k1.compressed), vec![0xac]]), signers: vec![1], pre: vec![], post: vec![] });
    f.push(Family { name: "p2pk-uncompressed".into(), locking: cat(&[push(&k1.uncompressed), vec![0xac]]), signers: vec![1], pre: vec![], post: vec![] });
    f.push(Family { name: "p2pk-verify".into(), locking: cat(&[push(&k1.compressed), vec![0xad, 0x51]]), signers: vec![1], pre: vec![], post: vec![] });
    f.push(Family {
        name: "p2pkh".into(),
        locking: cat(&[vec![0x76, 0xa9], push(&hash160(&k1.compressed)), vec![0x88, 0xac]]),
        signers: vec![1],
        pre: vec![],
        post: push(&k1.compressed),
    });
    f.push(Family {
        name: "p2pkh-verify".into(),
        locking: cat(&[vec![0x76, 0xa9], push(&hash160(&k1.uncompressed)), vec![0x88, 0xad, 0x51]]),
        signers: vec![1],
        pre: vec![],
        post: push(&k1.uncompressed),
    });
    for n in 1..=3u32 {
        for m in 1..=n {
            // every increasing choice of m signers out of n
            let subsets: Vec<Vec<u32>> = (0u32..(1 << n)).filter(|mask| mask.count_ones() == m).map(|mask| (0..n).filter(|i| mask & (1 << i) != 0).map(|i| 10 + i).collect()).collect();
            for (si, signers) in subsets.iter().enumerate() {
                let mut lock = vec![0x50 + m as u8];
                for i in 0..n {
                    lock.extend(push(&key(10 + i).compressed));
                }
                lock.push(0x50 + n as u8);
                for (vn, tail) in [vec![0xaeu8], vec![0xaf, 0x51]].iter().enumerate() {
                    f.push(Family {
                        name: format!("multisig-{}of{}-set{}-{}", m, n, si, if vn == 0 { "cms" } else { "cmsverify" }),
                        locking: cat(&[lock.clone(), tail.clone()]),
                        signers: signers.clone(),
                        pre: vec![0x00],
                        post: vec![],
                    });
                }
            }
        }
    }
    f
}

/// Subscript by the specification for a flat locking script: everything after the last code separator that
/// precedes the (single) signature check
fn flat_subscript(locking: &[u8]) -> Vec<u8> {
    let toks = tokenize(locking);
    let check = toks.iter().position(|(op, _)| (0xac..=0xaf).contains(op)).expect("has a signature check");
    let start = toks[..check].iter().rposition(|(op, _)| *op == 0xab).map(|p| p + 1).unwrap_or(0);
    toks[start..].iter().flat_map(|(_, b)| b.clone()).collect()
}

fn unlocking_for(fam: &Family, rtx: &RTx, idx: usize, subscript: &[u8], value: u64, flags: &[u8]) -> Option<Vec<u8>> {
    let mut u = fam.pre.clone();
    for (i, s) in fam.signers.iter().enumerate() {
        let flag = flags[i % flags.len()];
        let pre = ref_preimage(rtx, idx, subscript, value, flag)?;
        u.extend(push(&sig_item(&key(*s), &pre, flag)));
    }
    u.extend(fam.post.clone());
    Some(u)
}

fn note(line: &str) {
    eprintln!("HUNT {}", line);
}

// ---------------------------------------------------------------------------------------------
// E01: reference signed spends of every family x flag x input index are accepted
// ---------------------------------------------------------------------------------------------
#[test]
fn e01_reference_signed_spends_are_accepted() {
    let mut r = Rng(0x1234_5678_9abc_def1);
    let mut count = 0;
    for fam in families() {
        for flag in FLAGS {
            let n_in = 1 + r.below(3) as usize;
            let n_out = n_in + r.below(2) as usize;
            let mut rtx = random_tx(&mut r, n_in, n_out);
            let idx = r.below(n_in as u64) as usize;
            let value = r.next() >> r.below(50);
            let sub = flat_subscript(&fam.locking);
            rtx.ins[idx].script = unlocking_for(&fam, &rtx, idx, &sub, value, &[flag]).unwrap();
            let v = spend(&rtx, idx, &fam.locking, value);
            assert!(v.accepted(), "{} flag {:#x} idx {} of {}: {:?}", fam.name, flag, idx, n_in, v);
            count += 1;
        }
    }
    note(&format!("e01 accepted {} reference signed spends", count));
}

// ---------------------------------------------------------------------------------------------
// E02: the library's own preimage equals the reference preimage
// ---------------------------------------------------------------------------------------------
#[test]
fn e02_preimage_matches_reference() {
    let mut r = Rng(77);
    for round in 0..40 {
        let n_in = 1 + r.below(4) as usize;
        let n_out = n_in + r.below(3) as usize;
        let mut rtx = random_tx(&mut r, n_in, n_out);
        for i in rtx.ins.iter_mut() {
            i.script = push(&r.bytes(10)); // must be blanked by the original algorithm
        }
        let fam = &families()[round % families().len()];
        let value = r.next();
        for flag in FLAGS {
            for idx in 0..n_in {
                let mut tx = Transaction::from_bytes(&rtx.ser()).unwrap();
                let got = tx.sighash_preimage(SigHash::try_from(flag).unwrap(), idx, &Script::from_bytes(&fam.locking).unwrap(), value).unwrap();
                let want = ref_preimage(&rtx, idx, &fam.locking, value, flag).unwrap();
                assert_eq!(hex::encode(got), hex::encode(want), "flag {:#x} idx {}", flag, idx);
            }
        }
    }
}

// ---------------------------------------------------------------------------------------------
// E03: spends assembled through the library's own API are accepted
// ---------------------------------------------------------------------------------------------
#[test]
fn e03_library_api_spends_are_accepted() {
    let sk1 = PrivateKey::from_bytes(&sha256(b"hunt-key-1")).unwrap();
    let pk1 = sk1.to_public_key().unwrap();
    assert_eq!(pk1.to_bytes().unwrap(), key(1).compressed, "key derivation agrees with k256");
    let mut r = Rng(5);
    for flag in FLAGS {
        let sighash = SigHash::try_from(flag).unwrap();
        // P2PKH through P2PKHAddress
        let addr = pk1.to_p2pkh_address().unwrap();
        let lock = addr.get_locking_script().unwrap();
        assert_eq!(lock.to_bytes(), cat(&[vec![0x76, 0xa9], push(&hash160(&key(1).compressed)), vec![0x88, 0xac]]));
        let mut tx = Transaction::new(1, 0);
        for i in 0..3u32 {
            let mut tin = TxIn::new(&r.bytes(32), i, &Script::default(), Some(0xffff_fffe));
            tin.set_locking_script(&lock);
            tin.set_satoshis(5000 + i as u64);
            tx.add_input(&tin);
            tx.add_output(&TxOut::new(1000 + i as u64, &lock));
        }
        for i in 0..3usize {
            let sig = tx.sign(&sk1, sighash, i, &lock, 5000 + i as u64).unwrap();
            let unlock = addr.get_unlocking_script(&pk1, &sig).unwrap();
            let mut tin = tx.get_input(i).unwrap();
            tin.set_unlocking_script(&unlock);
            tx.set_input(i, &tin);
        }
        for i in 0..3usize {
            assert!(run_lib(&tx, i).accepted(), "p2pkh api flag {:#x} input {}", flag, i);
        }
        // the same transaction after a trip through bytes, JSON and CBOR (extended fields kept by the latter two)
        let json = Transaction::from_json_string(&tx.to_json_string().unwrap()).unwrap();
        let cbor = Transaction::from_compact_bytes(&tx.to_compact_bytes().unwrap()).unwrap();
        for i in 0..3usize {
            assert!(run_lib(&json, i).accepted(), "json flag {:#x} input {}", flag, i);
            assert!(run_lib(&cbor, i).accepted(), "cbor flag {:#x} input {}", flag, i);
        }

        // 2-of-3 multisig and P2PK through Script / sign
        let sks: Vec<PrivateKey> = (10..13).map(|i| PrivateKey::from_bytes(&sha256(format!("hunt-key-{}", i).as_bytes())).unwrap()).collect();
        let lock_ms = Script::from_asm_string(&format!(
            "OP_2 {} {} {} OP_3 OP_CHECKMULTISIG",
            sks[0].to_public_key().unwrap().to_hex().unwrap(),
            sks[1].to_public_key().unwrap().to_hex().unwrap(),
            sks[2].to_public_key().unwrap().to_hex().unwrap()
        ))
        .unwrap();
        let lock_pk = Script::from_asm_string(&format!("{} OP_CHECKSIG", pk1.to_hex().unwrap())).unwrap();
        let mut tx = Transaction::new(2, 17);
        let mut a = TxIn::new(&r.bytes(32), 1, &Script::default(), None);
        a.set_locking_script(&lock_ms);
        a.set_satoshis(777);
        let mut b = TxIn::new(&r.bytes(32), 0, &Script::default(), None);
        b.set_locking_script(&lock_pk);
        b.set_satoshis(u64::MAX);
        tx.add_input(&a);
        tx.add_input(&b);
        tx.add_output(&TxOut::new(1, &lock_pk));
        tx.add_output(&TxOut::new(2, &lock_ms));
        let s0 = tx.sign(&sks[0], sighash, 0, &lock_ms, 777).unwrap();
        let s2 = tx.sign(&sks[2], sighash, 0, &lock_ms, 777).unwrap();
        a.set_unlocking_script(&Script::from_asm_string(&format!("OP_0 {} {}", s0.to_hex().unwrap(), s2.to_hex().unwrap())).unwrap());
        tx.set_input(0, &a);
        let s = tx.sign(&sk1, sighash, 1, &lock_pk, u64::MAX).unwrap();
        b.set_unlocking_script(&Script::from_asm_string(&s.to_hex().unwrap()).unwrap());
        tx.set_input(1, &b);
        assert!(run_lib(&tx, 0).accepted(), "multisig api flag {:#x}", flag);
        assert!(run_lib(&tx, 1).accepted(), "p2pk api flag {:#x}", flag);
    }
}

// ---------------------------------------------------------------------------------------------
// E04: single field mutations of the transaction and of the value: accept iff the reference digest is unchanged
// ---------------------------------------------------------------------------------------------
fn tx_mutations(rtx: &RTx, idx: usize) -> Vec<(String, RTx)> {
    let mut m = vec![];
    let mut push_m = |name: &str, f: &dyn Fn(&mut RTx)| {
        let mut t = rtx.clone();
        f(&mut t);
        m.push((name.to_string(), t));
    };
    push_m("version+1", &|t| t.version = t.version.wrapping_add(1));
    push_m("version high bit", &|t| t.version ^= 0x8000_0000);
    push_m("locktime+1", &|t| t.locktime = t.locktime.wrapping_add(1));
    push_m("locktime high byte", &|t| t.locktime ^= 0x0100_0000);
    for i in 0..rtx.ins.len() {
        let who = if i == idx { "own" } else { "other" };
        push_m(&format!("{} in{} txid first byte", who, i), &|t| t.ins[i].txid[0] ^= 1);
        push_m(&format!("{} in{} txid last byte", who, i), &|t| t.ins[i].txid[31] ^= 0x80);
        push_m(&format!("{} in{} vout", who, i), &|t| t.ins[i].vout ^= 1);
        push_m(&format!("{} in{} vout high", who, i), &|t| t.ins[i].vout ^= 0x0100_0000);
        push_m(&format!("{} in{} sequence", who, i), &|t| t.ins[i].seq ^= 1);
        push_m(&format!("{} in{} sequence high", who, i), &|t| t.ins[i].seq ^= 0x8000_0000);
        if i != idx {
            push_m(&format!("other in{} unlocking script", i), &|t| t.ins[i].script = vec![0x51]);
            push_m(&format!("remove other in{}", i), &|t| {
                t.ins.remove(i);
            });
        }
    }
    for j in 0..rtx.outs.len() {
        push_m(&format!("out{} value+1", j), &|t| t.outs[j].value = t.outs[j].value.wrapping_add(1));
        push_m(&format!("out{} value high", j), &|t| t.outs[j].value ^= 1 << 63);
        push_m(&format!("out{} script byte", j), &|t| t.outs[j].script[5] ^= 1);
        push_m(&format!("out{} script append", j), &|t| t.outs[j].script.push(0x61));
        push_m(&format!("remove out{}", j), &|t| {
            t.outs.remove(j);
        });
    }
    push_m("append output", &|t| t.outs.push(ROut { value: 1, script: vec![0x51] }));
    push_m("prepend output", &|t| t.outs.insert(0, ROut { value: 1, script: vec![0x51] }));
    push_m("append input", &|t| t.ins.push(RIn { txid: [7; 32], vout: 0, script: vec![], seq: 0xffff_ffff }));
    if rtx.outs.len() >= 2 {
        push_m("swap outputs 0 and 1", &|t| t.outs.swap(0, 1));
    }
    m
}

#[test]
fn e04_transaction_and_value_mutations() {
    let mut r = Rng(0xfeed_beef);
    let fams: Vec<Family> = families().into_iter().filter(|f| ["p2pk", "p2pkh", "multisig-2of3-set1-cms", "p2pk-verify"].contains(&f.name.as_str())).collect();
    assert_eq!(fams.len(), 4);
    let (mut checked, mut kept) = (0, 0);
    for fam in &fams {
        for flag in FLAGS {
            let n_in = 3;
            let n_out = 3 + r.below(2) as usize;
            let mut rtx = random_tx(&mut r, n_in, n_out);
            let idx = r.below(3) as usize;
            let value = 1 + (r.next() >> 8);
            let sub = flat_subscript(&fam.locking);
            rtx.ins[idx].script = unlocking_for(fam, &rtx, idx, &sub, value, &[flag]).unwrap();
            let digest = sha256d(&ref_preimage(&rtx, idx, &sub, value, flag).unwrap());
            assert!(spend(&rtx, idx, &fam.locking, value).accepted());

            for (name, mutated) in tx_mutations(&rtx, idx) {
                // position of the signed input may move when another input is removed
                let new_idx = mutated.ins.iter().position(|i| i.script == rtx.ins[idx].script).unwrap();
                let expected = ref_preimage(&mutated, new_idx, &sub, value, flag).map(|p| sha256d(&p) == digest).unwrap_or(false);
                let got = spend(&mutated, new_idx, &fam.locking, value);
                assert_eq!(got.accepted(), expected, "{} flag {:#x} idx {} mutation '{}': {:?}", fam.name, flag, idx, name, got);
                checked += 1;
                kept += expected as usize;
            }
            for (name, v2) in [("value+1", value + 1), ("value-1", value - 1), ("value high bit", value ^ (1 << 63)), ("value 0", 0)] {
                let expected = flag & 0x40 == 0; // only the replay protected form commits to the value
                let got = spend(&rtx, idx, &fam.locking, v2);
                assert_eq!(got.accepted(), expected, "{} flag {:#x} {}: {:?}", fam.name, flag, name, got);
                checked += 1;
            }
        }
    }
    note(&format!("e04 checked {} mutations ({} of them leave the digest unchanged and must still be accepted)", checked, kept));
}

// ---------------------------------------------------------------------------------------------
// E05: code separators at every position (one and two of them) of the flat families
// ---------------------------------------------------------------------------------------------
#[test]
fn e05_code_separators_at_every_position() {
    let mut r = Rng(0xc0de);
    let fams: Vec<Family> = families()
        .into_iter()
        .filter(|f| ["p2pk", "p2pk-verify", "p2pkh", "p2pkh-verify", "multisig-1of1-set0-cms", "multisig-2of2-set0-cmsverify", "multisig-2of3-set2-cms", "multisig-3of3-set0-cms"].contains(&f.name.as_str()))
        .collect();
    assert_eq!(fams.len(), 8);
    let mut count = 0;
    for fam in &fams {
        let toks = tokenize(&fam.locking);
        let n = toks.len();
        let mut position_sets: Vec<Vec<usize>> = (0..=n).map(|p| vec![p]).collect();
        for a in 0..=n {
            for b in a..=n {
                position_sets.push(vec![a, b]);
            }
        }
        for positions in position_sets {
            // insert separators (from the back so that positions stay valid)
            let mut elems: Vec<Vec<u8>> = toks.iter().map(|(_, b)| b.clone()).collect();
            for p in positions.iter().rev() {
                elems.insert(*p, vec![0xab]);
            }
            let locking = cat(&elems);
            let sub = flat_subscript(&locking);
            for flag in [0x41u8, 0x01, 0xc3, 0x82] {
                let mut rtx = random_tx(&mut r, 2, 2);
                let idx = r.below(2) as usize;
                let value = r.next() >> 20;
                rtx.ins[idx].script = unlocking_for(fam, &rtx, idx, &sub, value, &[flag]).unwrap();
                let v = spend(&rtx, idx, &locking, value);
                assert!(v.accepted(), "{} separators at {:?} flag {:#x}: {:?}", fam.name, positions, flag, v);
                count += 1;

                // a signature over a wrong subscript (whole script, when that differs) is refused
                if flag & 0x40 != 0 && sub != locking {
                    let mut wrong = rtx.clone();
                    wrong.ins[idx].script = unlocking_for(fam, &rtx, idx, &locking, value, &[flag]).unwrap();
                    let v = spend(&wrong, idx, &locking, value);
                    assert!(!v.accepted(), "{} separators at {:?} flag {:#x}: signature over the whole script accepted", fam.name, positions, flag);
                }
            }
        }
    }
    note(&format!("e05 accepted {} spends with code separators", count));
}

// ---------------------------------------------------------------------------------------------
// E06: every small mutation of the signature stack item is refused
// ---------------------------------------------------------------------------------------------

/// A P2PK spend whose DER signature has the wanted length; returns (tx, idx, locking, value, signature item)
fn p2pk_spend_with_der_len(flag: u8, der_len: usize, seed: u64) -> (RTx, usize, Vec<u8>, u64, Vec<u8>) {
    let mut r = Rng(seed);
    let k = key(1);
    let locking = cat(&[push(&k.compressed), vec![0xac]]);
    loop {
        let rtx = random_tx(&mut r, 2, 2);
        let idx = 1;
        let value = r.next() >> 10;
        let pre = ref_preimage(&rtx, idx, &locking, value, flag).unwrap();
        let item = sig_item(&k, &pre, flag);
        if item.len() == der_len + 1 {
            return (rtx, idx, locking, value, item);
        }
    }
}

fn spend_with_item(rtx: &RTx, idx: usize, locking: &[u8], value: u64, item: &[u8]) -> Verdict {
    let mut t = rtx.clone();
    t.ins[idx].script = push(item);
    spend(&t, idx, locking, value)
}

fn signature_item_mutants(item: &[u8]) -> Vec<(String, Vec<u8>)> {
    let mut m = vec![];
    for pos in 0..item.len() {
        for bit in 0..8 {
            let mut v = item.to_vec();
            v[pos] ^= 1 << bit;
            m.push((format!("flip bit {} of byte {}", bit, pos), v));
        }
        let mut v = item.to_vec();
        v.remove(pos);
        m.push((format!("delete byte {}", pos), v));
    }
    for pos in 0..=item.len() {
        for b in [0x00u8, 0x01, 0x02, 0x30, 0x41, 0x43, 0x80, 0x81, 0xc1, 0xff] {
            let mut v = item.to_vec();
            v.insert(pos, b);
            m.push((format!("insert {:#04x} at {}", b, pos), v));
        }
    }
    m
}

fn sweep_signature_items(flag: u8, der_len: usize) -> Vec<String> {
    let (rtx, idx, locking, value, item) = p2pk_spend_with_der_len(flag, der_len, 0xabc0 + der_len as u64 + flag as u64);
    assert!(spend_with_item(&rtx, idx, &locking, value, &item).accepted(), "the untouched signature is accepted");
    let mut accepted = vec![];
    for (name, mutant) in signature_item_mutants(&item) {
        if mutant == item {
            continue;
        }
        let v = spend_with_item(&rtx, idx, &locking, value, &mutant);
        assert_ne!(v, Verdict::Panic, "{} panics", name);
        if v.accepted() {
            accepted.push(format!("flag {:#x} DER {} bytes: {}", flag, der_len, name));
        }
    }
    accepted
}

#[test]
fn e06_signature_item_mutations_der70() {
    for flag in [0x41u8, 0x01, 0xc3] {
        let accepted = sweep_signature_items(flag, 70);
        assert!(accepted.is_empty(), "accepted mutants: {:#?}", accepted);
    }
}

#[test]
fn e06_signature_item_mutations_der69() {
    let accepted = sweep_signature_items(0x41, 69);
    assert!(accepted.is_empty(), "accepted mutants: {:#?}", accepted);
}

/// Consensus reading of a signature item: the last byte is the flag, everything before it is the DER signature.
/// An item `DER || extra || flag` therefore does not carry a DER signature and must be refused.
#[test]
fn violation_extra_byte_between_signature_and_flag_is_accepted() {
    let mut all = vec![];
    for flag in [0x41u8, 0x01, 0xc3] {
        all.extend(sweep_signature_items(flag, 71));
    }
    for a in &all {
        note(&format!("e06 ACCEPTED MUTANT {}", a));
    }
    assert!(all.is_empty(), "mutated signature items that are still accepted: {:#?}", all);
}

// ---------------------------------------------------------------------------------------------
// E07: a signature item without its flag byte is refused, also when the last byte of s looks like a flag
// ---------------------------------------------------------------------------------------------
#[test]
fn violation_signature_without_flag_byte_is_accepted() {
    // Grind for a signature over the flag-0x41 preimage whose DER encoding happens to end in 0x41.
    let k = key(1);
    let locking = cat(&[push(&k.compressed), vec![0xac]]);
    let mut r = Rng(0x5eed);
    let mut rtx = random_tx(&mut r, 1, 1);
    let value = 12345;
    let mut found = None;
    for lock in 0..200_000u32 {
        rtx.locktime = lock;
        let pre = ref_preimage(&rtx, 0, &locking, value, 0x41).unwrap();
        let der = sign_der(&k, &pre);
        if *der.last().unwrap() == 0x41 {
            found = Some(der);
            break;
        }
    }
    let der = found.expect("a signature ending in 0x41 turns up within a few hundred tries");
    let mut with_flag = der.clone();
    with_flag.push(0x41);
    assert!(spend_with_item(&rtx, 0, &locking, value, &with_flag).accepted(), "DER || 0x41 is the valid item");
    // By the consensus reading the item `der` is (DER minus its last byte) || flag 0x41: not a DER signature.
    let v = spend_with_item(&rtx, 0, &locking, value, &der);
    note(&format!("e07 bare DER signature ({} bytes, last byte 0x41, no flag byte): {:?}", der.len(), v));
    assert!(!v.accepted(), "a signature item with its flag byte deleted is accepted");
}

// ---------------------------------------------------------------------------------------------
// E08: every other value of the flag byte is refused
// ---------------------------------------------------------------------------------------------
#[test]
fn e08_flag_byte_mutations() {
    for fam_name in ["p2pk", "p2pkh", "multisig-2of3-set1-cms"] {
        let fam = families().into_iter().find(|f| f.name == fam_name).unwrap();
        let mut r = Rng(0xf1a6);
        for flag in FLAGS {
            let mut rtx = random_tx(&mut r, 2, 2);
            let idx = 0;
            let value = 999;
            let sub = flat_subscript(&fam.locking);
            let unlocking = unlocking_for(&fam, &rtx, idx, &sub, value, &[flag]).unwrap();
            rtx.ins[idx].script = unlocking.clone();
            assert!(spend(&rtx, idx, &fam.locking, value).accepted());
            // the flag of the first signature is the last byte of the first signature push
            let toks = tokenize(&unlocking);
            let sig_tok = toks.iter().position(|(op, _)| *op >= 60 && *op <= 75).unwrap();
            for other in 0..=255u8 {
                if other == flag {
                    continue;
                }
                let mut t2 = toks.clone();
                *t2[sig_tok].1.last_mut().unwrap() = other;
                let mut m = rtx.clone();
                m.ins[idx].script = t2.iter().flat_map(|(_, b)| b.clone()).collect();
                let v = spend(&m, idx, &fam.locking, value);
                assert_ne!(v, Verdict::Panic);
                assert!(!v.accepted(), "{} signed with {:#x}, flag byte changed to {:#x}: accepted", fam_name, flag, other);
            }
        }
    }
}

// ---------------------------------------------------------------------------------------------
// E09: key mutations. The key is kept out of the signed subscript by a code separator so that only the
// signature check itself can notice the change.
// ---------------------------------------------------------------------------------------------
#[test]
fn e09_key_mutations() {
    let k = key(1);
    let mut r = Rng(0x4e7);
    for (kname, kbytes) in [("compressed", k.compressed.clone()), ("uncompressed", k.uncompressed.clone())] {
        for flag in [0x41u8, 0x01] {
            let locking = cat(&[push(&kbytes), vec![0xab, 0xac]]);
            let sub = vec![0xacu8];
            let rtx = random_tx(&mut r, 1, 1);
            let value = 5;
            let item = sig_item(&k, &ref_preimage(&rtx, 0, &sub, value, flag).unwrap(), flag);
            assert!(spend_with_item(&rtx, 0, &locking, value, &item).accepted());
            let mut accepted = vec![];
            for pos in 0..kbytes.len() {
                for bit in 0..8 {
                    let mut kb = kbytes.clone();
                    kb[pos] ^= 1 << bit;
                    let l2 = cat(&[push(&kb), vec![0xab, 0xac]]);
                    let v = spend_with_item(&rtx, 0, &l2, value, &item);
                    assert_ne!(v, Verdict::Panic);
                    if v.accepted() {
                        accepted.push(format!("{} key, bit {} of byte {}", kname, bit, pos));
                    }
                }
            }
            // other prefixes and lengths
            for prefix in 0..=255u8 {
                if prefix == kbytes[0] {
                    continue;
                }
                let mut kb = kbytes.clone();
                kb[0] = prefix;
                let l2 = cat(&[push(&kb), vec![0xab, 0xac]]);
                if spend_with_item(&rtx, 0, &l2, value, &item).accepted() {
                    accepted.push(format!("{} key, prefix {:#x}", kname, prefix));
                }
            }
            for kb in [kbytes[..kbytes.len() - 1].to_vec(), cat(&[kbytes.clone(), vec![0]]), vec![], kbytes[..1].to_vec()] {
                let l2 = cat(&[push(&kb), vec![0xab, 0xac]]);
                assert!(!spend_with_item(&rtx, 0, &l2, value, &item).accepted(), "truncated / extended key accepted");
            }
            assert!(accepted.is_empty(), "{:?}", accepted);
            // the other encoding of the same key is the same key: still a valid signature by the supplied key
            let other = if kname == "compressed" { k.uncompressed.clone() } else { k.compressed.clone() };
            let l2 = cat(&[push(&other), vec![0xab, 0xac]]);
            assert!(spend_with_item(&rtx, 0, &l2, value, &item).accepted(), "other encoding of the same point");
            // a different key
            let l2 = cat(&[push(&key(2).compressed), vec![0xab, 0xac]]);
            assert!(!spend_with_item(&rtx, 0, &l2, value, &item).accepted());
        }
    }
}

// ---------------------------------------------------------------------------------------------
// E10: SIGHASH_SINGLE (replay protected form) for an input without a matching output: the specification
// defines hashOutputs as 32 zero bytes there, so a signature over that preimage is a valid spend.
// ---------------------------------------------------------------------------------------------
#[test]
fn violation_forkid_single_without_matching_output_is_refused() {
    let k = key(1);
    let locking = cat(&[push(&k.compressed), vec![0xac]]);
    let mut r = Rng(0x51);
    let mut failures = vec![];
    for flag in [0x43u8, 0xc3] {
        let mut rtx = random_tx(&mut r, 3, 1);
        let idx = 2;
        let value = 4200;
        let pre = ref_preimage_forkid(&rtx, idx, &locking, value, flag);
        rtx.ins[idx].script = push(&sig_item(&k, &pre, flag));
        let v = spend(&rtx, idx, &locking, value);
        note(&format!("e10 flag {:#x}, input 2 of a transaction with 1 output: {:?}", flag, v));
        if !v.accepted() {
            failures.push(format!("{:#x}: {:?}", flag, v));
        }
        // the library cannot produce this signature either
        let mut tx = lib_tx(&rtx, idx, &locking, value);
        let sk = PrivateKey::from_bytes(&sha256(b"hunt-key-1")).unwrap();
        let res = tx.sign(&sk, SigHash::try_from(flag).unwrap(), idx, &Script::from_bytes(&locking).unwrap(), value);
        note(&format!("e10 Transaction::sign for the same input: {}", if res.is_ok() { "ok".to_string() } else { "error".to_string() }));
    }
    assert!(failures.is_empty(), "valid SIGHASH_SINGLE|FORKID spends refused: {:?}", failures);
}

// ---------------------------------------------------------------------------------------------
// E11: the high-S twin of a signature (recorded, see report)
// ---------------------------------------------------------------------------------------------
#[test]
fn e11_high_s_twin() {
    let k = key(1);
    let locking = cat(&[push(&k.compressed), vec![0xac]]);
    let mut r = Rng(0x415);
    let rtx = random_tx(&mut r, 1, 1);
    let pre = ref_preimage(&rtx, 0, &locking, 1, 0x41).unwrap();
    let sig: k256::ecdsa::Signature = k.sk.sign_digest(Sha256::new().chain(sha256(&pre)));
    let neg_s = -*sig.s();
    let twin = k256::ecdsa::Signature::from_scalars(sig.r().to_bytes(), neg_s.to_bytes()).unwrap();
    let mut item = twin.to_der().as_bytes().to_vec();
    item.push(0x41);
    let v = spend_with_item(&rtx, 0, &locking, 1, &item);
    note(&format!("e11 high-S twin ({} byte item): {:?}", item.len(), v));
    // BSV consensus (LOW_S is a mandatory flag) refuses it and so does "any change to a signature makes it reject"
    assert!(!v.accepted());
}

// ---------------------------------------------------------------------------------------------
// E12: multisig: order, repetition, wrong keys, mixed flags
// ---------------------------------------------------------------------------------------------
#[test]
fn e12_multisig_order_and_mixed_flags() {
    let mut r = Rng(0x3519);
    let keys: Vec<Key> = (10..13).map(key).collect();
    for n in 1..=3usize {
        for m in 1..=n {
            let mut locking = vec![0x50 + m as u8];
            for k in keys.iter().take(n) {
                locking.extend(push(&k.compressed));
            }
            locking.push(0x50 + n as u8);
            locking.push(0xae);
            let rtx0 = random_tx(&mut r, 2, 2);
            let idx = 1;
            let value = 31337;
            // every sequence of m signers (with repetition, any order) out of n+1 keys (one stranger)
            let total = (n + 1).pow(m as u32);
            for code in 0..total {
                let mut c = code;
                let mut signers = vec![];
                for _ in 0..m {
                    signers.push(c % (n + 1));
                    c /= n + 1;
                }
                let expected = signers.windows(2).all(|w| w[0] < w[1]) && signers.iter().all(|s| *s < n);
                let mut unlocking = vec![0x00u8];
                for (j, s) in signers.iter().enumerate() {
                    let flag = FLAGS[(code + j * 5) % 12];
                    let signer = if *s < n { &keys[*s] } else { &key(99) };
                    let pre = ref_preimage(&rtx0, idx, &locking, value, flag);
                    let pre = match pre {
                        Some(p) => p,
                        None => continue,
                    };
                    unlocking.extend(push(&sig_item(signer, &pre, flag)));
                }
                let mut rtx = rtx0.clone();
                rtx.ins[idx].script = unlocking;
                let v = spend(&rtx, idx, &locking, value);
                assert_ne!(v, Verdict::Panic);
                assert_eq!(v.accepted(), expected, "{}-of-{} signers {:?}: {:?}", m, n, signers, v);
            }
            // too few signatures on the stack
            if m >= 2 {
                let pre = ref_preimage(&rtx0, idx, &locking, value, 0x41).unwrap();
                let mut rtx = rtx0.clone();
                rtx.ins[idx].script = cat(&[vec![0x00], push(&sig_item(&keys[0], &pre, 0x41))]);
                assert!(!spend(&rtx, idx, &locking, value).accepted());
            }
        }
    }
}

// ---------------------------------------------------------------------------------------------
// E13: conditionals and code separators. A small reference walker finds, for every signature check that is
// executed, the position after the most recently executed code separator.
// ---------------------------------------------------------------------------------------------
#[derive(Clone)]
enum U {
    Sig(usize, u32), // signature for the n-th executed check, by key seed
    Data(Vec<u8>),
}

/// Returns the subscripts (as bytes of the locking script) of the executed signature checks, in order
fn walk_reference(unlocking: &[U], locking: &[u8]) -> Vec<Vec<u8>> {
    let toks = tokenize(locking);
    let mut stack: Vec<Vec<u8>> = unlocking
        .iter()
        .map(|u| match u {
            U::Sig(..) => vec![1],
            U::Data(d) => d.clone(),
        })
        .collect();
    let mut exec: Vec<bool> = vec![];
    let mut begin = 0usize;
    let mut subs = vec![];
    for (i, (op, bytes)) in toks.iter().enumerate() {
        let running = exec.iter().all(|b| *b);
        match *op {
            0x63 | 0x64 => {
                if running {
                    let v = truthy(stack.pop().as_ref());
                    exec.push(if *op == 0x63 { v } else { !v });
                } else {
                    exec.push(false);
                }
            }
            0x67 => {
                // only flips when the enclosing blocks are running
                let n = exec.len();
                if exec[..n - 1].iter().all(|b| *b) {
                    exec[n - 1] = !exec[n - 1];
                }
            }
            0x68 => {
                exec.pop();
            }
            _ if !running => {}
            0x00 => stack.push(vec![]),
            0x51..=0x60 => stack.push(vec![op - 0x50]),
            1..=0x4e => {
                let hdr = match *op {
                    0x4c => 2,
                    0x4d => 3,
                    0x4e => 5,
                    _ => 1,
                };
                stack.push(bytes[hdr..].to_vec());
            }
            0x75 => {
                stack.pop();
            }
            0x76 => {
                let t = stack.last().unwrap().clone();
                stack.push(t);
            }
            0x61 => {}
            0xab => begin = i + 1,
            0xac | 0xad => {
                stack.pop();
                stack.pop();
                subs.push(toks[begin..].iter().flat_map(|(_, b)| b.clone()).collect());
                if *op == 0xac {
                    stack.push(vec![1]);
                }
            }
            other => panic!("reference walker does not know opcode {:#x}", other),
        }
    }
    subs
}

fn conditional_case(name: &str, unlocking: &[U], locking: &[u8], expected_checks: usize, r: &mut Rng) {
    let subs = walk_reference(unlocking, locking);
    assert_eq!(subs.len(), expected_checks, "{}: the reference walker executes the expected number of checks", name);
    for flag in [0x41u8, 0x01, 0xc2, 0x83] {
        let mut rtx = random_tx(r, 2, 2);
        let idx = (r.below(2)) as usize;
        let value = r.next() >> 16;
        let build = |subs: &Vec<Vec<u8>>, rtx: &RTx| -> Vec<u8> {
            let mut u = vec![];
            for item in unlocking {
                match item {
                    U::Sig(n, seed) => u.extend(push(&sig_item(&key(*seed), &ref_preimage(rtx, idx, &subs[*n], value, flag).unwrap(), flag))),
                    U::Data(d) if d.is_empty() => u.push(0x00),
                    U::Data(d) if d.len() == 1 && (1..=16).contains(&d[0]) => u.push(0x50 + d[0]),
                    U::Data(d) => u.extend(push(d)),
                }
            }
            u
        };
        rtx.ins[idx].script = build(&subs, &rtx);
        let v = spend(&rtx, idx, locking, value);
        assert!(v.accepted(), "{} flag {:#x}: {:?}\nlocking {}\nsubscripts {:?}", name, flag, v, hex::encode(locking), subs.iter().map(hex::encode).collect::<Vec<_>>());

        // signatures over any other suffix of the locking script are refused (replay protected form keeps separators,
        // so every suffix is a different subscript)
        if flag & 0x40 != 0 && expected_checks == 1 {
            let toks = tokenize(locking);
            for start in 0..toks.len() {
                let other: Vec<u8> = toks[start..].iter().flat_map(|(_, b)| b.clone()).collect();
                if other == subs[0] {
                    continue;
                }
                let mut m = rtx.clone();
                m.ins[idx].script = build(&vec![other.clone()], &rtx);
                assert!(!spend(&m, idx, locking, value).accepted(), "{} flag {:#x}: signature over suffix from element {} accepted", name, flag, start);
            }
        }
    }
}

#[test]
fn e13_conditionals_with_code_separators() {
    let mut r = Rng(0x1f);
    let a = push(&key(1).compressed);
    let b = push(&key(2).compressed);
    let (i_f, notif, els, endif, sep, cs, csv, drop, one, zero) = (vec![0x63u8], vec![0x64u8], vec![0x67u8], vec![0x68u8], vec![0xabu8], vec![0xacu8], vec![0xadu8], vec![0x75u8], vec![0x51u8], vec![0x00u8]);
    let t = U::Data(vec![1]);
    let f = U::Data(vec![]);

    let l = cat(&[i_f.clone(), a.clone(), sep.clone(), cs.clone(), els.clone(), b.clone(), cs.clone(), endif.clone()]);
    conditional_case("A taken", &[U::Sig(0, 1), t.clone()], &l, 1, &mut r);
    conditional_case("A else", &[U::Sig(0, 2), f.clone()], &l, 1, &mut r);

    let l = cat(&[sep.clone(), i_f.clone(), sep.clone(), a.clone(), cs.clone(), els.clone(), b.clone(), sep.clone(), cs.clone(), endif.clone(), sep.clone()]);
    conditional_case("B taken", &[U::Sig(0, 1), t.clone()], &l, 1, &mut r);
    conditional_case("B else", &[U::Sig(0, 2), f.clone()], &l, 1, &mut r);

    let l = cat(&[i_f.clone(), i_f.clone(), sep.clone(), endif.clone(), a.clone(), cs.clone(), els.clone(), sep.clone(), b.clone(), cs.clone(), endif.clone()]);
    conditional_case("C outer taken, inner taken", &[U::Sig(0, 1), t.clone(), t.clone()], &l, 1, &mut r);
    conditional_case("C outer taken, inner skipped", &[U::Sig(0, 1), f.clone(), t.clone()], &l, 1, &mut r);
    conditional_case("C else", &[U::Sig(0, 2), f.clone()], &l, 1, &mut r);

    let l = cat(&[notif.clone(), sep.clone(), a.clone(), cs.clone(), els.clone(), b.clone(), cs.clone(), sep.clone(), endif.clone()]);
    conditional_case("D notif false", &[U::Sig(0, 1), f.clone()], &l, 1, &mut r);
    conditional_case("D notif true", &[U::Sig(0, 2), t.clone()], &l, 1, &mut r);

    let l = cat(&[i_f.clone(), one.clone(), drop.clone(), sep.clone(), endif.clone(), sep.clone(), a.clone(), cs.clone()]);
    conditional_case("E taken", &[U::Sig(0, 1), t.clone()], &l, 1, &mut r);
    conditional_case("E skipped", &[U::Sig(0, 1), f.clone()], &l, 1, &mut r);

    let l = cat(&[a.clone(), csv.clone(), sep.clone(), i_f.clone(), b.clone(), cs.clone(), els.clone(), sep.clone(), b.clone(), sep.clone(), cs.clone(), endif.clone()]);
    conditional_case("F taken", &[U::Sig(1, 2), t.clone(), U::Sig(0, 1)], &l, 2, &mut r);
    conditional_case("F else", &[U::Sig(1, 2), f.clone(), U::Sig(0, 1)], &l, 2, &mut r);

    // G: empty branches, else-only separators, deep nesting
    let l = cat(&[i_f.clone(), els.clone(), sep.clone(), endif.clone(), i_f.clone(), i_f.clone(), i_f.clone(), sep.clone(), a.clone(), els.clone(), b.clone(), endif.clone(), els.clone(), zero.clone(), endif.clone(), cs.clone(), endif.clone()]);
    conditional_case("G 0 111", &[U::Sig(0, 1), t.clone(), t.clone(), t.clone(), f.clone()], &l, 1, &mut r);
    conditional_case("G 1 110", &[U::Sig(0, 2), f.clone(), t.clone(), t.clone(), t.clone()], &l, 1, &mut r);

    // H: conditional in the unlocking script (with a separator of its own) must not move the subscript
    let l = cat(&[a.clone(), sep.clone(), cs.clone()]);
    let sub = vec![0xacu8];
    for flag in [0x41u8, 0x01] {
        let mut rtx = random_tx(&mut r, 1, 1);
        let item = sig_item(&key(1), &ref_preimage(&rtx, 0, &sub, 9, flag).unwrap(), flag);
        for unlocking in [
            cat(&[push(&item), one.clone(), i_f.clone(), sep.clone(), one.clone(), drop.clone(), endif.clone()]),
            cat(&[push(&item), sep.clone()]),
            cat(&[sep.clone(), sep.clone(), sep.clone(), sep.clone(), sep.clone(), push(&item)]),
        ] {
            rtx.ins[0].script = unlocking.clone();
            let v = spend(&rtx, 0, &l, 9);
            assert!(v.accepted(), "H unlocking {} flag {:#x}: {:?}", hex::encode(&unlocking), flag, v);
        }
        // ... and with no separator in the locking script the whole locking script is signed, whatever the unlocking script did
        let l2 = cat(&[a.clone(), cs.clone()]);
        let item = sig_item(&key(1), &ref_preimage(&rtx, 0, &l2, 9, flag).unwrap(), flag);
        for unlocking in [cat(&[push(&item), sep.clone()]), cat(&[sep.clone(), push(&item), sep.clone(), sep.clone()]), cat(&[zero.clone(), i_f.clone(), sep.clone(), endif.clone(), push(&item), sep.clone()])] {
            rtx.ins[0].script = unlocking.clone();
            let v = spend(&rtx, 0, &l2, 9);
            assert!(v.accepted(), "H2 unlocking {} flag {:#x}: {:?}", hex::encode(&unlocking), flag, v);
        }
    }
}

// ---------------------------------------------------------------------------------------------
// E14: one Transaction object signed through the library and then changed through its setters: the
// interpreter must see the change (no stale cached hashes)
// ---------------------------------------------------------------------------------------------
#[test]
fn e14_objects_reused_after_mutation() {
    let sk = PrivateKey::from_bytes(&sha256(b"hunt-key-1")).unwrap();
    let lock = Script::from_bytes(&cat(&[push(&key(1).compressed), vec![0xac]])).unwrap();
    let mut r = Rng(0xcac4e);
    for flag in FLAGS {
        let sighash = SigHash::try_from(flag).unwrap();
        let fresh = |r: &mut Rng| -> Transaction {
            let mut tx = Transaction::new(2, 0);
            for i in 0..2u32 {
                let mut tin = TxIn::new(&r.bytes(32), i, &Script::default(), None);
                tin.set_locking_script(&lock);
                tin.set_satoshis(100);
                tx.add_input(&tin);
                tx.add_output(&TxOut::new(10 + i as u64, &lock));
            }
            // warm every cache
            for f in FLAGS {
                tx.sighash_preimage(SigHash::try_from(f).unwrap(), 0, &lock, 100).unwrap();
            }
            let sig = tx.sign(&sk, sighash, 0, &lock, 100).unwrap();
            let mut tin = tx.get_input(0).unwrap();
            tin.set_unlocking_script(&Script::from_bytes(&push(&sig.to_bytes().unwrap())).unwrap());
            tx.set_input(0, &tin);
            for f in FLAGS {
                tx.sighash_preimage(SigHash::try_from(f).unwrap(), 0, &lock, 100).unwrap();
            }
            assert!(run_lib(&tx, 0).accepted());
            tx
        };
        // the reference view of a library transaction (through its serialisation)
        let reference = |tx: &Transaction| -> bool {
            let bytes = tx.to_bytes().unwrap();
            let rtx = parse_rtx(&bytes);
            let item = tokenize(&rtx.ins[0].script)[0].1[1..].to_vec();
            let pre = ref_preimage(&rtx, 0, &lock.to_bytes(), tx.get_input(0).unwrap().get_satoshis().unwrap(), flag);
            match pre {
                None => false,
                Some(pre) => {
                    use k256::ecdsa::signature::DigestVerifier;
                    let sig = k256::ecdsa::Signature::from_der(&item[..item.len() - 1]).unwrap();
                    key(1).sk.verifying_key().verify_digest(Sha256::new().chain(sha256(&pre)), &sig).is_ok()
                }
            }
        };
        let other_out = TxOut::new(999, &Script::from_bytes(&[0x51]).unwrap());
        let other_in = TxIn::new(&[9u8; 32], 3, &Script::default(), Some(5));
        let mutators: Vec<(&str, Box<dyn Fn(&mut Transaction)>)> = vec![
            ("add_output", Box::new(|tx: &mut Transaction| tx.add_output(&other_out))),
            ("prepend_output", Box::new(|tx: &mut Transaction| tx.prepend_output(&other_out))),
            ("insert_output", Box::new(|tx: &mut Transaction| tx.insert_output(1, &other_out))),
            ("set_output 0", Box::new(|tx: &mut Transaction| tx.set_output(0, &other_out))),
            ("set_output 1", Box::new(|tx: &mut Transaction| tx.set_output(1, &other_out))),
            ("add_outputs", Box::new(|tx: &mut Transaction| tx.add_outputs(vec![other_out.clone()]))),
            ("add_input", Box::new(|tx: &mut Transaction| tx.add_input(&other_in))),
            ("add_inputs", Box::new(|tx: &mut Transaction| tx.add_inputs(vec![other_in.clone()]))),
            ("insert_input at 1", Box::new(|tx: &mut Transaction| tx.insert_input(1, &other_in))),
            ("set_input 1", Box::new(|tx: &mut Transaction| tx.set_input(1, &other_in))),
            ("set_input 1 sequence", Box::new(|tx: &mut Transaction| {
                let mut i = tx.get_input(1).unwrap();
                i.set_sequence(7);
                tx.set_input(1, &i)
            })),
            ("set_input 0 sequence", Box::new(|tx: &mut Transaction| {
                let mut i = tx.get_input(0).unwrap();
                i.set_sequence(7);
                tx.set_input(0, &i)
            })),
            ("set_input 0 vout", Box::new(|tx: &mut Transaction| {
                let mut i = tx.get_input(0).unwrap();
                i.set_vout(7);
                tx.set_input(0, &i)
            })),
            ("set_input 0 satoshis", Box::new(|tx: &mut Transaction| {
                let mut i = tx.get_input(0).unwrap();
                i.set_satoshis(101);
                tx.set_input(0, &i)
            })),
            ("set_version", Box::new(|tx: &mut Transaction| {
                tx.set_version(3);
            })),
            ("set_nlocktime", Box::new(|tx: &mut Transaction| {
                tx.set_nlocktime(3);
            })),
        ];
        for (name, m) in &mutators {
            let mut tx = fresh(&mut r);
            m(&mut tx);
            let expected = reference(&tx);
            let got = run_lib(&tx, 0);
            assert_eq!(got.accepted(), expected, "flag {:#x} after {}: {:?}", flag, name, got);
            // and a clone / serde copies of the mutated object agree
            assert_eq!(run_lib(&tx.clone(), 0).accepted(), expected, "clone, flag {:#x} after {}", flag, name);
            let json = Transaction::from_json_string(&tx.to_json_string().unwrap()).unwrap();
            assert_eq!(run_lib(&json, 0).accepted(), expected, "json, flag {:#x} after {}", flag, name);
        }
    }
}

fn read_varint(b: &[u8], p: &mut usize) -> u64 {
    let first = b[*p];
    *p += 1;
    let n = match first {
        0xfd => 2,
        0xfe => 4,
        0xff => 8,
        _ => return first as u64,
    };
    let mut v = [0u8; 8];
    v[..n].copy_from_slice(&b[*p..*p + n]);
    *p += n;
    u64::from_le_bytes(v)
}

fn parse_rtx(b: &[u8]) -> RTx {
    let mut p = 0;
    let version = u32::from_le_bytes(b[0..4].try_into().unwrap());
    p += 4;
    let n_in = read_varint(b, &mut p);
    let mut ins = vec![];
    for _ in 0..n_in {
        let mut txid = [0u8; 32];
        txid.copy_from_slice(&b[p..p + 32]);
        p += 32;
        let vout = u32::from_le_bytes(b[p..p + 4].try_into().unwrap());
        p += 4;
        let l = read_varint(b, &mut p) as usize;
        let script = b[p..p + l].to_vec();
        p += l;
        let seq = u32::from_le_bytes(b[p..p + 4].try_into().unwrap());
        p += 4;
        ins.push(RIn { txid, vout, script, seq });
    }
    let n_out = read_varint(b, &mut p);
    let mut outs = vec![];
    for _ in 0..n_out {
        let value = u64::from_le_bytes(b[p..p + 8].try_into().unwrap());
        p += 8;
        let l = read_varint(b, &mut p) as usize;
        let script = b[p..p + l].to_vec();
        p += l;
        outs.push(ROut { value, script });
    }
    let locktime = u32::from_le_bytes(b[p..p + 4].try_into().unwrap());
    RTx { version, ins, outs, locktime }
}

// ---------------------------------------------------------------------------------------------
// E15: the subscript keeps the locking script's own bytes: non minimal pushes, long scripts, 0xab inside data
// ---------------------------------------------------------------------------------------------
fn push_with(op: u8, data: &[u8]) -> Vec<u8> {
    let mut v = vec![op];
    match op {
        0x4c => v.push(data.len() as u8),
        0x4d => v.extend_from_slice(&(data.len() as u16).to_le_bytes()),
        0x4e => v.extend_from_slice(&(data.len() as u32).to_le_bytes()),
        _ => panic!(),
    }
    v.extend_from_slice(data);
    v
}

#[test]
fn e15_subscript_bytes_are_preserved() {
    let mut r = Rng(0xb17e5);
    let k = key(1);
    let mut lockings: Vec<(String, Vec<u8>)> = vec![];
    for op in [0x4cu8, 0x4d, 0x4e] {
        lockings.push((format!("key pushed with {:#x}", op), cat(&[push_with(op, &k.compressed), vec![0xac]])));
        lockings.push((format!("sep, key pushed with {:#x}", op), cat(&[vec![0x61, 0xab], push_with(op, &k.uncompressed), vec![0xac]])));
        lockings.push((format!("p2pkh hash pushed with {:#x}", op), cat(&[vec![0x76, 0xa9], push_with(op, &hash160(&k.compressed)), vec![0x88, 0xab, 0xac]])));
    }
    for size in [0x4busize, 0x4c, 0xfc, 0xfd, 0xff, 0x100, 0xffff, 0x10000, 70000] {
        let mut data = r.bytes(size);
        data[size / 2] = 0xab; // looks like a code separator, is data
        data[0] = 0xab;
        lockings.push((format!("{} byte data before the check", size), cat(&[push(&[0xab]), vec![0x75], big_push(&data), vec![0x75], push(&k.compressed), vec![0xac]])));
        lockings.push((format!("{} byte data after a separator", size), cat(&[vec![0xab], big_push(&data), vec![0x75, 0xab, 0x61], push(&k.compressed), vec![0xac, 0xab]])));
    }
    // the key itself containing 0xab
    let mut seed = 100;
    let kab = loop {
        let c = key(seed);
        if c.compressed.contains(&0xab) {
            break c;
        }
        seed += 1;
    };
    for (name, locking) in &lockings {
        let sub = flat_subscript(locking);
        for flag in FLAGS {
            let mut rtx = random_tx(&mut r, 2, 2);
            let idx = 1;
            let value = 55;
            let signer = &k;
            let post = if name.starts_with("p2pkh") { push(&k.compressed) } else { vec![] };
            rtx.ins[idx].script = cat(&[push(&sig_item(signer, &ref_preimage(&rtx, idx, &sub, value, flag).unwrap(), flag)), post]);
            let tx = lib_tx(&rtx, idx, locking, value);
            let v = run_lib(&tx, idx);
            assert!(v.accepted(), "{} flag {:#x}: {:?}", name, flag, v);
            // JSON and CBOR copies decide the same
            let json = Transaction::from_json_string(&tx.to_json_string().unwrap()).unwrap();
            assert!(run_lib(&json, idx).accepted(), "json {} flag {:#x}", name, flag);
            let cbor = Transaction::from_compact_bytes(&tx.to_compact_bytes().unwrap()).unwrap();
            assert!(run_lib(&cbor, idx).accepted(), "cbor {} flag {:#x}", name, flag);
        }
    }
    let locking = cat(&[push(&kab.compressed), vec![0xac]]);
    for flag in FLAGS {
        let mut rtx = random_tx(&mut r, 1, 1);
        rtx.ins[0].script = push(&sig_item(&kab, &ref_preimage(&rtx, 0, &locking, 1, flag).unwrap(), flag));
        assert!(spend(&rtx, 0, &locking, 1).accepted(), "key containing 0xab, flag {:#x}", flag);
    }
}

fn big_push(data: &[u8]) -> Vec<u8> {
    if data.len() <= 0xffff {
        push(data)
    } else {
        push_with(0x4e, data)
    }
}

// ---------------------------------------------------------------------------------------------
// E16: size boundaries of the counts (compact size 0xfc / 0xfd), high input indices, extreme values
// ---------------------------------------------------------------------------------------------
#[test]
fn e16_count_and_value_boundaries() {
    let mut r = Rng(0xb0b);
    let k = key(1);
    let locking = cat(&[push(&k.compressed), vec![0xac]]);
    for (n_in, n_out) in [(252usize, 252usize), (253, 253), (254, 1), (1, 254), (300, 300)] {
        let base = random_tx(&mut r, n_in, n_out);
        for idx in [0, n_in / 2, n_in - 1] {
            for flag in FLAGS {
                if flag & 0x1f == 3 && idx >= n_out {
                    continue;
                }
                for value in [0u64, 1, 0x7fff_ffff_ffff_ffff, 0x8000_0000_0000_0000, u64::MAX] {
                    if value != 1 && !(idx == 0 && (flag == 0x41 || flag == 0xc3)) {
                        continue;
                    }
                    let mut rtx = base.clone();
                    rtx.ins[idx].script = push(&sig_item(&k, &ref_preimage(&rtx, idx, &locking, value, flag).unwrap(), flag));
                    let v = spend(&rtx, idx, &locking, value);
                    assert!(v.accepted(), "{} ins {} outs idx {} flag {:#x} value {}: {:?}", n_in, n_out, idx, flag, value, v);
                    if flag & 0x40 != 0 {
                        assert!(!spend(&rtx, idx, &locking, value ^ 1).accepted());
                    }
                }
            }
        }
    }
    // another input that looks like a coinbase input and carries bytes that are not a script
    for flag in FLAGS {
        let mut rtx = random_tx(&mut r, 2, 2);
        rtx.ins[0].txid = [0; 32];
        rtx.ins[0].vout = 0xffff_ffff;
        rtx.ins[0].script = vec![0x4b, 0x01, 0x02];
        rtx.ins[1].script = push(&sig_item(&k, &ref_preimage(&rtx, 1, &locking, 8, flag).unwrap(), flag));
        let v = spend(&rtx, 1, &locking, 8);
        assert!(v.accepted(), "next to a coinbase shaped input, flag {:#x}: {:?}", flag, v);
    }
}

// ---------------------------------------------------------------------------------------------
// E17: other ways to get at the interpreter: explicit script bits, stepping, serde copies of the interpreter
// ---------------------------------------------------------------------------------------------
#[test]
fn e17_interpreter_construction_routes() {
    let mut r = Rng(0x17);
    let a = push(&key(1).compressed);
    let b = push(&key(2).compressed);
    // IF <a> SEP CHECKSIG ELSE SEP <b> CHECKSIG ENDIF
    let locking = cat(&[vec![0x63], a.clone(), vec![0xab, 0xac, 0x67, 0xab], b.clone(), vec![0xac, 0x68]]);
    for (branch, signer, unl_tail) in [(true, 1u32, vec![0x51u8]), (false, 2u32, vec![0x00u8])] {
        for flag in [0x41u8, 0x01, 0xc3] {
            let unlocking_model = [U::Sig(0, signer), U::Data(if branch { vec![1] } else { vec![] })];
            let sub = walk_reference(&unlocking_model, &locking).remove(0);
            let mut rtx = random_tx(&mut r, 2, 2);
            let idx = 0;
            rtx.ins[idx].script = cat(&[push(&sig_item(&key(signer), &ref_preimage(&rtx, idx, &sub, 3, flag).unwrap(), flag)), unl_tail.clone()]);
            let tx = lib_tx(&rtx, idx, &locking, 3);
            assert!(run_lib(&tx, idx).accepted());

            // explicit bits
            let bits = tx.get_input(idx).unwrap().get_finalised_script().unwrap().to_script_bits();
            let mut it = Interpreter::from_transaction_and_script_bits(tx.clone(), idx, bits.clone());
            it.run().unwrap();
            assert!(truthy(it.state().stack().last()), "explicit bits");

            // stepping with the iterator
            let mut it = Interpreter::from_transaction(&tx, idx).unwrap();
            let mut steps = 0;
            while let Some(s) = it.next() {
                s.unwrap();
                steps += 1;
                assert!(steps < 100);
            }
            assert!(truthy(it.state().stack().last()), "stepping");

            // a JSON copy of the interpreter taken at every step finishes the same way
            let mut it = Interpreter::from_transaction(&tx, idx).unwrap();
            let mut step = 0;
            loop {
                let copy_json = serde_json::to_string(&it).unwrap();
                let mut copy: Interpreter = serde_json::from_str(&copy_json).unwrap();
                let res = catch_unwind(AssertUnwindSafe(|| copy.run().is_ok() && truthy(copy.state().stack().last())));
                assert_eq!(res.ok(), Some(true), "JSON copy of the interpreter taken after {} steps (branch {}, flag {:#x})", step, branch, flag);
                match it.next() {
                    Some(s) => {
                        s.unwrap();
                    }
                    None => break,
                }
                step += 1;
            }
        }
    }
}

// ---------------------------------------------------------------------------------------------
// E18: repeated keys in a multisig
// ---------------------------------------------------------------------------------------------
#[test]
fn e18_multisig_repeated_keys() {
    let mut r = Rng(0x18);
    let a = key(1);
    let b = key(2);
    for (keys, signers, expected) in [
        (vec![&a, &a, &b], vec![&a, &a], true),
        (vec![&a, &b, &a], vec![&a, &a], true),
        (vec![&a, &b, &a], vec![&b, &a], true),
        (vec![&a, &b, &a], vec![&a, &b], true),
        (vec![&b, &a, &a], vec![&a, &b], false),
        (vec![&a, &b, &b], vec![&a, &a], false),
    ] {
        let mut locking = vec![0x52u8];
        for k in &keys {
            locking.extend(push(&k.compressed));
        }
        locking.extend([0x53, 0xae]);
        let mut rtx = random_tx(&mut r, 1, 1);
        let pre = ref_preimage(&rtx, 0, &locking, 6, 0x41).unwrap();
        let mut u = vec![0x00u8];
        for s in &signers {
            u.extend(push(&sig_item(s, &pre, 0x41)));
        }
        rtx.ins[0].script = u;
        assert_eq!(spend(&rtx, 0, &locking, 6).accepted(), expected);
    }
}

// ---------------------------------------------------------------------------------------------
// E19: an input index that the transaction does not have (recorded, see report)
// ---------------------------------------------------------------------------------------------
#[test]
fn e19_input_index_out_of_range() {
    let mut r = Rng(0x19);
    let rtx = random_tx(&mut r, 1, 1);
    let tx = Transaction::from_bytes(&rtx.ser()).unwrap();
    let v = run_lib(&tx, 1);
    note(&format!("e19 Interpreter::from_transaction(tx with 1 input, index 1): {:?}", v));
    assert!(!v.accepted());
}

// ---------------------------------------------------------------------------------------------
// E20: extreme declared values through the JSON and CBOR forms of the extended transaction
// ---------------------------------------------------------------------------------------------
#[test]
fn e20_values_through_serde_forms() {
    let mut r = Rng(0x20);
    let k = key(1);
    let locking = cat(&[vec![0x76, 0xa9], push(&hash160(&k.compressed)), vec![0x88, 0xac]]);
    for value in [0u64, (1 << 53) + 1, i64::MAX as u64, (i64::MAX as u64) + 1, u64::MAX] {
        for flag in [0x41u8, 0xc2, 0x43] {
            let mut rtx = random_tx(&mut r, 2, 2);
            let idx = 1;
            rtx.ins[idx].script = cat(&[push(&sig_item(&k, &ref_preimage(&rtx, idx, &locking, value, flag).unwrap(), flag)), push(&k.compressed)]);
            let tx = lib_tx(&rtx, idx, &locking, value);
            assert!(run_lib(&tx, idx).accepted());
            let json = Transaction::from_json_string(&tx.to_json_string().unwrap()).unwrap();
            assert_eq!(json.get_input(idx).unwrap().get_satoshis(), Some(value));
            assert!(run_lib(&json, idx).accepted(), "json value {}", value);
            let cbor = Transaction::from_compact_hex(&tx.to_compact_hex().unwrap()).unwrap();
            assert!(run_lib(&cbor, idx).accepted(), "cbor value {}", value);
            // the input alone through its own forms, put back with set_input
            let tin = tx.get_input(idx).unwrap();
            let tin2 = TxIn::from_compact_bytes(&tin.to_compact_bytes().unwrap()).unwrap();
            assert_eq!(tin, tin2);
            let mut tin3 = TxIn::from_hex(&tin.to_hex().unwrap()).unwrap();
            tin3.set_locking_script(&Script::from_hex(&hex::encode(&locking)).unwrap());
            tin3.set_satoshis(value);
            let mut tx3 = Transaction::from_hex(&hex::encode(rtx.ser())).unwrap();
            tx3.set_input(idx, &tin3);
            assert!(run_lib(&tx3, idx).accepted());
            // a wrong declared value in the copy is noticed
            let mut tin4 = tin2.clone();
            tin4.set_satoshis(value ^ 0x100);
            let mut tx4 = cbor.clone();
            tx4.set_input(idx, &tin4);
            assert!(!run_lib(&tx4, idx).accepted());
        }
    }
}

// ---------------------------------------------------------------------------------------------
// E21 .. E23: recorded observations at the edge of (or outside) the property's domain
// ---------------------------------------------------------------------------------------------
#[test]
fn e21_observation_op_return_in_unlocking_script() {
    let mut r = Rng(0x21);
    let locking = cat(&[push(&key(1).compressed), vec![0xac]]);
    let mut rtx = random_tx(&mut r, 1, 1);
    rtx.ins[0].script = vec![0x51, 0x6a]; // OP_1 OP_RETURN, no signature at all
    let v = spend(&rtx, 0, &locking, 1);
    note(&format!("e21 unlocking script OP_1 OP_RETURN against P2PK (no signature check is executed): {:?}", v));
}

#[test]
fn e22_observation_flags_outside_the_twelve() {
    let mut r = Rng(0x22);
    let k = key(1);
    let locking = cat(&[push(&k.compressed), vec![0xac]]);
    for flag in [0x40u8, 0x80, 0x00, 0x04, 0x21, 0x61] {
        let mut rtx = random_tx(&mut r, 2, 2);
        // what the original algorithm would hash for such a type (base type neither NONE nor SINGLE)
        let pre = ref_preimage_legacy(&rtx, 0, &locking, flag).unwrap();
        rtx.ins[0].script = push(&sig_item(&k, &pre, flag));
        let v = spend(&rtx, 0, &locking, 1);
        note(&format!("e22 flag {:#x} signed over the original-algorithm preimage: {:?}", flag, v));
        let pre = ref_preimage_forkid(&rtx, 0, &locking, 1, flag);
        rtx.ins[0].script = push(&sig_item(&k, &pre, flag));
        let v = spend(&rtx, 0, &locking, 1);
        note(&format!("e22 flag {:#x} signed over the replay protected preimage: {:?}", flag, v));
    }
}

#[test]
#[allow(deprecated)]
fn e23_observation_legacy_single_without_matching_output() {
    // Original algorithm: the digest is the number one. The source says this is deliberately unsupported.
    let mut r = Rng(0x23);
    let k = key(1);
    let locking = cat(&[push(&k.compressed), vec![0xac]]);
    let mut rtx = random_tx(&mut r, 2, 1);
    // sign the digest 0x0100..00 directly
    use ::ecdsa::hazmat::SignPrimitive;
    use k256::elliptic_curve::ops::Reduce;
    let mut one = [0u8; 32];
    one[0] = 1;
    let d = k256::SecretKey::from_be_bytes(&sha256(b"hunt-key-1")).unwrap().to_nonzero_scalar();
    let z = <k256::Scalar as Reduce<k256::U256>>::from_be_bytes_reduced(one.into());
    let nonce = <k256::Scalar as Reduce<k256::U256>>::from_be_bytes_reduced(*k256::FieldBytes::from_slice(&sha256(b"nonce")));
    let sig: Result<k256::ecdsa::Signature, _> = d.try_sign_prehashed(nonce, z).map(|(s, _)| s);
    if let Ok(sig) = sig {
        let mut item = sig.to_der().as_bytes().to_vec();
        item.push(0x03);
        rtx.ins[1].script = push(&item);
        let v = spend(&rtx, 1, &locking, 1);
        note(&format!("e23 SIGHASH_SINGLE (original algorithm), input 1, 1 output, signature over the digest 'one': {:?}", v));
    }
}

// ---------------------------------------------------------------------------------------------
// E24: many keys (compressed and uncompressed) through the library's own P2PKH / P2PK / multisig route;
// the signatures it produces are also checked with k256 against the reference preimage
// ---------------------------------------------------------------------------------------------
#[test]
fn e24_library_route_many_keys() {
    use k256::ecdsa::signature::DigestVerifier;
    let mut r = Rng(0x24);
    let mut lens = std::collections::BTreeMap::new();
    for round in 0..150u32 {
        let secret = sha256(format!("e24-{}", round).as_bytes());
        let compressed = round % 2 == 0;
        let sk = PrivateKey::from_bytes(&secret).unwrap().compress_public_key(compressed);
        let sk = PrivateKey::from_wif(&sk.to_wif().unwrap()).unwrap();
        let pk = sk.to_public_key().unwrap();
        let vk = SigningKey::from_bytes(&secret).unwrap().verifying_key();
        let expect_pk = k256::PublicKey::from(&vk).to_encoded_point(compressed).as_bytes().to_vec();
        assert_eq!(pk.to_bytes().unwrap(), expect_pk);
        let flag = FLAGS[(round % 12) as usize];
        let sighash = SigHash::try_from(flag).unwrap();

        let addr = P2PKHAddress::from_pubkey(&pk).unwrap();
        let lock = addr.get_locking_script().unwrap();
        let rtx = random_tx(&mut r, 3, 3);
        let idx = (round % 3) as usize;
        let value = r.next() >> 12;
        let mut tx = lib_tx(&rtx, idx, &lock.to_bytes(), value);
        let sig = tx.sign(&sk, sighash, idx, &lock, value).unwrap();
        let item = sig.to_bytes().unwrap();
        *lens.entry(item.len()).or_insert(0) += 1;
        // independent check of what the library signed
        let pre = ref_preimage(&rtx, idx, &lock.to_bytes(), value, flag).unwrap();
        let parsed = k256::ecdsa::Signature::from_der(&item[..item.len() - 1]).unwrap();
        assert!(vk.verify_digest(Sha256::new().chain(sha256(&pre)), &parsed).is_ok(), "library signature verifies against the reference preimage");
        assert_eq!(*item.last().unwrap(), flag);

        let mut tin = tx.get_input(idx).unwrap();
        tin.set_unlocking_script(&addr.get_unlocking_script(&pk, &sig).unwrap());
        tx.set_input(idx, &tin);
        let v = run_lib(&tx, idx);
        assert!(v.accepted(), "round {} flag {:#x} compressed {}: {:?}", round, flag, compressed, v);
    }
    note(&format!("e24 signature item lengths produced by the library: {:?}", lens));
}

// ---------------------------------------------------------------------------------------------
// E25: output scripts of awkward sizes and shapes in the spending transaction (they are hashed into hashOutputs
// and serialised by the original algorithm)
// ---------------------------------------------------------------------------------------------
#[test]
fn e25_output_scripts_of_the_spending_transaction() {
    let mut r = Rng(0x25);
    let k = key(1);
    let locking = cat(&[push(&k.compressed), vec![0xac]]);
    let mut shapes: Vec<(String, Vec<u8>)> = vec![("empty".into(), vec![])];
    for size in [0xfcusize, 0xfd, 0xfe, 0xffff, 0x10000, 0x10001] {
        // script of exactly `size` bytes: OP_FALSE OP_RETURN <one push filling the rest>
        let mut s = vec![0x00u8, 0x6a];
        let rest = size - 2;
        let hdr = if rest - 1 <= 75 { 1 } else if rest - 2 <= 255 { 2 } else if rest - 3 <= 0xffff { 3 } else { 5 };
        let data = r.bytes(rest - hdr);
        s.extend(match hdr {
            1 => push(&data),
            2 => push_with(0x4c, &data),
            3 => push_with(0x4d, &data),
            _ => push_with(0x4e, &data),
        });
        assert_eq!(s.len(), size);
        shapes.push((format!("{} bytes", size), s));
    }
    shapes.push(("stray else/endif".into(), vec![0x67, 0x68, 0x51]));
    shapes.push(("if else else endif".into(), vec![0x63, 0x51, 0x67, 0x52, 0x67, 0x53, 0x68]));
    shapes.push(("non minimal pushes".into(), cat(&[push_with(0x4e, &[1]), push_with(0x4d, &[]), push_with(0x4c, &[2, 3]), vec![0x01, 0x05]])));
    shapes.push(("all plain opcodes".into(), (0x4fu8..=0xb9).filter(|b| ![0x63, 0x64, 0x65, 0x66, 0x67, 0x68].contains(b)).collect()));
    for (name, script) in &shapes {
        for flag in FLAGS {
            let mut rtx = random_tx(&mut r, 2, 2);
            rtx.outs[1].script = script.clone();
            rtx.outs[0].script = script.clone();
            let idx = 1;
            rtx.ins[idx].script = push(&sig_item(&k, &ref_preimage(&rtx, idx, &locking, 77, flag).unwrap(), flag));
            let parsed = Transaction::from_bytes(&rtx.ser());
            assert!(parsed.is_ok(), "output script '{}' makes the transaction unreadable: {:?}", name, parsed.err().map(|e| e.to_string()));
            assert_eq!(parsed.unwrap().to_bytes().unwrap(), rtx.ser(), "output script '{}' does not survive parsing", name);
            let v = spend(&rtx, idx, &locking, 77);
            assert!(v.accepted(), "output script '{}' flag {:#x}: {:?}", name, flag, v);
        }
    }
    // recorded: shapes that the script parser does not take or does not keep
    for (name, script) in [
        ("truncated push after OP_RETURN (known leniency 1)", vec![0x00u8, 0x6a, 0x05, 0x01, 0x02]),
        ("unassigned opcode 0xc0 after OP_RETURN", vec![0x00, 0x6a, 0xc0]),
        ("unbalanced OP_IF after OP_RETURN", vec![0x00, 0x6a, 0x63]),
    ] {
        let mut rtx = random_tx(&mut r, 1, 1);
        rtx.outs[0].script = script;
        rtx.ins[0].script = push(&sig_item(&k, &ref_preimage(&rtx, 0, &locking, 77, 0x41).unwrap(), 0x41));
        let outcome = match Transaction::from_bytes(&rtx.ser()) {
            Err(e) => format!("transaction does not parse: {}", e),
            Ok(tx) => format!("parses, bytes kept: {}, spend: {:?}", tx.to_bytes().unwrap() == rtx.ser(), spend(&rtx, 0, &locking, 77)),
        };
        note(&format!("e25 output script with {}: {}", name, outcome));
    }
}

// ---------------------------------------------------------------------------------------------
// E26: two different checks with different subscripts in one script; the flag of the second multisig signature
// ---------------------------------------------------------------------------------------------
#[test]
fn e26_checksig_then_multisig_and_second_flag() {
    let mut r = Rng(0x26);
    let (a, b, c) = (key(1), key(2), key(3));
    // <a> CHECKSIGVERIFY SEP 2 <b> <c> 2 CHECKMULTISIG
    let tail = cat(&[vec![0x52], push(&b.compressed), push(&c.compressed), vec![0x52, 0xae]]);
    let locking = cat(&[push(&a.compressed), vec![0xad, 0xab], tail.clone()]);
    for flag_a in FLAGS {
        for (fb, fc) in [(0x41u8, 0x01u8), (0xc3, 0x42), (0x82, 0x82)] {
            let mut rtx = random_tx(&mut r, 2, 2);
            let idx = 0;
            let value = 1000;
            let sig_a = sig_item(&a, &ref_preimage(&rtx, idx, &locking, value, flag_a).unwrap(), flag_a);
            let sig_b = sig_item(&b, &ref_preimage(&rtx, idx, &tail, value, fb).unwrap(), fb);
            let sig_c = sig_item(&c, &ref_preimage(&rtx, idx, &tail, value, fc).unwrap(), fc);
            rtx.ins[idx].script = cat(&[vec![0x00], push(&sig_b), push(&sig_c), push(&sig_a)]);
            let v = spend(&rtx, idx, &locking, value);
            assert!(v.accepted(), "flags {:#x} {:#x} {:#x}: {:?}", flag_a, fb, fc, v);
            // multisig signatures over the whole script are not good enough
            if fb & 0x40 != 0 {
                let wrong_b = sig_item(&b, &ref_preimage(&rtx, idx, &locking, value, fb).unwrap(), fb);
                let mut m = rtx.clone();
                m.ins[idx].script = cat(&[vec![0x00], push(&wrong_b), push(&sig_c), push(&sig_a)]);
                assert!(!spend(&m, idx, &locking, value).accepted());
            }
            // every other flag byte on the second multisig signature
            for other in 0..=255u8 {
                if other == fc {
                    continue;
                }
                let mut sc = sig_c.clone();
                *sc.last_mut().unwrap() = other;
                let mut m = rtx.clone();
                m.ins[idx].script = cat(&[vec![0x00], push(&sig_b), push(&sc), push(&sig_a)]);
                assert!(!spend(&m, idx, &locking, value).accepted(), "second multisig flag {:#x} -> {:#x}", fc, other);
            }
        }
    }
}

// ---------------------------------------------------------------------------------------------
// E27: transaction assembled through the builder API (TxIn::new, from_outpoint_bytes, TxOut::new, setters),
// signed by the reference
// ---------------------------------------------------------------------------------------------
#[test]
fn e27_builder_route_reference_signed() {
    let mut r = Rng(0x27);
    let k = key(1);
    let locking = cat(&[vec![0x76, 0xa9], push(&hash160(&k.uncompressed)), vec![0x88, 0xac]]);
    for flag in FLAGS {
        let mut rtx = random_tx(&mut r, 3, 3);
        let idx = 2;
        let value = 123_456_789;
        rtx.ins[idx].script = cat(&[push(&sig_item(&k, &ref_preimage(&rtx, idx, &locking, value, flag).unwrap(), flag)), push(&k.uncompressed)]);

        let mut tx = Transaction::new(rtx.version, rtx.locktime);
        for (i, rin) in rtx.ins.iter().enumerate() {
            let mut tin = if i % 2 == 0 {
                let mut display = rin.txid.to_vec();
                display.reverse();
                TxIn::new(&display, rin.vout, &Script::from_bytes(&rin.script).unwrap(), Some(rin.seq))
            } else {
                let mut t = TxIn::from_outpoint_bytes(&rin.outpoint()).unwrap();
                t.set_sequence(rin.seq);
                t.set_unlocking_script(&Script::from_bytes(&rin.script).unwrap());
                t
            };
            if i == idx {
                tin.set_locking_script(&Script::from_bytes(&locking).unwrap());
                tin.set_satoshis(value);
            }
            // inputs and outputs in scrambled order of calls
            if i == 0 {
                tx.add_input(&tin);
            } else if i == 1 {
                tx.prepend_input(&tin);
            } else {
                tx.insert_input(2, &tin);
            }
        }
        // now inputs are [1, 0, 2]: put them right with set_input
        let (i0, i1) = (tx.get_input(1).unwrap(), tx.get_input(0).unwrap());
        tx.set_input(0, &i0);
        tx.set_input(1, &i1);
        for o in rtx.outs.iter().rev() {
            tx.prepend_output(&TxOut::new(o.value, &Script::from_bytes(&o.script).unwrap()));
        }
        assert_eq!(hex::encode(tx.to_bytes().unwrap()), hex::encode(rtx.ser()));
        let v = run_lib(&tx, idx);
        assert!(v.accepted(), "flag {:#x}: {:?}", flag, v);
    }
}

/// The malformed items of the first violation in P2PKH and multisig spends as well (recorded)
#[test]
fn e28_extra_byte_item_in_other_families() {
    let mut r = Rng(0x28);
    let k = key(1);
    let p2pkh = cat(&[vec![0x76, 0xa9], push(&hash160(&k.compressed)), vec![0x88, 0xac]]);
    let ms = cat(&[vec![0x51], push(&key(2).compressed), push(&k.compressed), vec![0x52, 0xae]]);
    for (name, locking, pre_u, post_u) in [("p2pkh", p2pkh, vec![], push(&k.compressed)), ("1-of-2 multisig", ms, vec![0x00u8], vec![])] {
        loop {
            let mut rtx = random_tx(&mut r, 1, 1);
            let item = sig_item(&k, &ref_preimage(&rtx, 0, &locking, 1, 0x41).unwrap(), 0x41);
            if item.len() != 72 {
                continue;
            }
            let mut bad = item.clone();
            bad.insert(71, 0x01);
            rtx.ins[0].script = cat(&[pre_u.clone(), push(&bad), post_u.clone()]);
            note(&format!("e28 {}: DER(71) || 0x01 || 0x41: {:?}", name, spend(&rtx, 0, &locking, 1)));
            break;
        }
    }
}
