// C06 second-pass hunt: signature encodings (DER, DER+flag, compact) and public key recovery.
// Oracles: a hand-written DER encoder, a hand-written compact encoder and a small affine secp256k1
// implementation over num-bigint (independent of k256), sha2 for hashing.
#![allow(non_snake_case, clippy::many_single_char_names)]

use bsv::*;
use num_bigint::BigUint;
use sha2::{Digest, Sha256};
use std::panic::{catch_unwind, AssertUnwindSafe};

// ---------------------------------------------------------------------------------------------
// Reference material
// ---------------------------------------------------------------------------------------------

const FLAGS: [u8; 14] = [0x40, 0x01, 0x02, 0x03, 0x80, 0x41, 0x42, 0x43, 0xc1, 0xc2, 0xc3, 0x81, 0x82, 0x83];

fn big(hex_str: &str) -> BigUint {
    BigUint::parse_bytes(hex_str.as_bytes(), 16).unwrap()
}
fn P() -> BigUint {
    big("fffffffffffffffffffffffffffffffffffffffffffffffffffffffefffffc2f")
}
fn N() -> BigUint {
    big("fffffffffffffffffffffffffffffffebaaedce6af48a03bbfd25e8cd0364141")
}
fn GX() -> BigUint {
    big("79be667ef9dcbbac55a06295ce870b07029bfcdb2dce28d959f2815b16f81798")
}
fn GY() -> BigUint {
    big("483ada7726a3c4655da4fbfc0e1108a8fd17b448a68554199c47d08ffb10d4b8")
}
fn one() -> BigUint {
    BigUint::from(1u8)
}
fn zero() -> BigUint {
    BigUint::from(0u8)
}

fn b32(v: &BigUint) -> [u8; 32] {
    let b = v.to_bytes_be();
    assert!(b.len() <= 32, "value does not fit 32 bytes");
    let mut out = [0u8; 32];
    out[32 - b.len()..].copy_from_slice(&b);
    out
}
fn from_b(b: &[u8]) -> BigUint {
    BigUint::from_bytes_be(b)
}

type Pt = Option<(BigUint, BigUint)>; // None = point at infinity

fn inv_mod(a: &BigUint, m: &BigUint) -> BigUint {
    // m prime
    a.modpow(&(m - BigUint::from(2u8)), m)
}
fn sub_mod(a: &BigUint, b: &BigUint, m: &BigUint) -> BigUint {
    ((a % m) + m - (b % m)) % m
}
fn pt_add(a: &Pt, b: &Pt) -> Pt {
    let p = P();
    match (a, b) {
        (None, _) => b.clone(),
        (_, None) => a.clone(),
        (Some((x1, y1)), Some((x2, y2))) => {
            let lambda = if x1 == x2 {
                if (y1 + y2) % &p == zero() {
                    return None;
                }
                (BigUint::from(3u8) * x1 * x1 % &p) * inv_mod(&(BigUint::from(2u8) * y1 % &p), &p) % &p
            } else {
                sub_mod(y2, y1, &p) * inv_mod(&sub_mod(x2, x1, &p), &p) % &p
            };
            let x3 = sub_mod(&sub_mod(&(&lambda * &lambda % &p), x1, &p), x2, &p);
            let y3 = sub_mod(&(&lambda * sub_mod(x1, &x3, &p) % &p), y1, &p);
            Some((x3, y3))
        }
    }
}
fn pt_neg(a: &Pt) -> Pt {
    a.as_ref().map(|(x, y)| (x.clone(), (P() - y) % P()))
}
// Jacobian coordinates for the scalar multiplication (one inversion at the end); formulas from the EFD (a = 0)
type Jac = Option<(BigUint, BigUint, BigUint)>;
fn jac_double(a: &Jac) -> Jac {
    let p = P();
    let (x, y, z) = a.as_ref()?;
    if y == &zero() {
        return None;
    }
    let ysq = y * y % &p;
    let s4 = BigUint::from(4u8) * x % &p * &ysq % &p;
    let m = BigUint::from(3u8) * x % &p * x % &p;
    let x3 = sub_mod(&(&m * &m % &p), &(BigUint::from(2u8) * &s4 % &p), &p);
    let y3 = sub_mod(&(&m * sub_mod(&s4, &x3, &p) % &p), &(BigUint::from(8u8) * &ysq % &p * &ysq % &p), &p);
    let z3 = BigUint::from(2u8) * y % &p * z % &p;
    Some((x3, y3, z3))
}
fn jac_add_affine(a: &Jac, b: &(BigUint, BigUint)) -> Jac {
    let p = P();
    let (x1, y1, z1) = match a {
        None => return Some((b.0.clone(), b.1.clone(), one())),
        Some(v) => v,
    };
    let z1z1 = z1 * z1 % &p;
    let u2 = &b.0 * &z1z1 % &p;
    let s2 = &b.1 * z1 % &p * &z1z1 % &p;
    if &u2 == x1 {
        if &s2 == y1 {
            return jac_double(a);
        }
        return None;
    }
    let h = sub_mod(&u2, x1, &p);
    let r = sub_mod(&s2, y1, &p);
    let hh = &h * &h % &p;
    let hhh = &hh * &h % &p;
    let v = x1 * &hh % &p;
    let x3 = sub_mod(&sub_mod(&(&r * &r % &p), &hhh, &p), &(BigUint::from(2u8) * &v % &p), &p);
    let y3 = sub_mod(&(&r * sub_mod(&v, &x3, &p) % &p), &(y1 * &hhh % &p), &p);
    let z3 = z1 * &h % &p;
    Some((x3, y3, z3))
}
fn pt_mul(k: &BigUint, a: &Pt) -> Pt {
    let base = match a {
        None => return None,
        Some(b) => b.clone(),
    };
    let mut acc: Jac = None;
    for i in (0..k.bits()).rev() {
        acc = jac_double(&acc);
        if k.bit(i) {
            acc = jac_add_affine(&acc, &base);
        }
    }
    let p = P();
    acc.map(|(x, y, z)| {
        let zi = inv_mod(&z, &p);
        let zi2 = &zi * &zi % &p;
        (x * &zi2 % &p, y * &zi2 % &p * &zi % &p)
    })
}
/// Slow affine double-and-add, kept to cross-check the Jacobian ladder
fn pt_mul_affine(k: &BigUint, a: &Pt) -> Pt {
    let mut acc: Pt = None;
    let mut addend = a.clone();
    for i in 0..k.bits() {
        if k.bit(i) {
            acc = pt_add(&acc, &addend);
        }
        addend = pt_add(&addend, &addend);
    }
    acc
}
fn G() -> Pt {
    Some((GX(), GY()))
}
/// y with the requested parity for abscissa x, if x is the abscissa of a curve point
fn lift_x(x: &BigUint, odd: bool) -> Pt {
    let p = P();
    if x >= &p {
        return None;
    }
    let alpha = (x * x % &p * x + BigUint::from(7u8)) % &p;
    let beta = alpha.modpow(&((&p + one()) / BigUint::from(4u8)), &p);
    if &beta * &beta % &p != alpha {
        return None;
    }
    let y = if beta.bit(0) == odd { beta } else { &p - beta };
    Some((x.clone(), y))
}
/// SEC1 4.1.6 recovery, reference implementation. recid bit0 = y odd, bit1 = abscissa is r + n
fn recover_ref(r: &BigUint, s: &BigUint, z: &BigUint, recid: u8) -> Pt {
    let n = N();
    let x = if recid & 2 != 0 { r + &n } else { r.clone() };
    let R = lift_x(&x, recid & 1 != 0);
    R.as_ref()?;
    let sR = pt_mul(s, &R);
    let zG = pt_mul(&(z % &n), &G());
    let diff = pt_add(&sR, &pt_neg(&zG));
    pt_mul(&inv_mod(r, &n), &diff)
}
/// Reference ECDSA verification (no low-s rule)
fn verify_ref(q: &Pt, r: &BigUint, s: &BigUint, z: &BigUint) -> bool {
    let n = N();
    if r == &zero() || s == &zero() || r >= &n || s >= &n || q.is_none() {
        return false;
    }
    let w = inv_mod(s, &n);
    let u1 = (z % &n) * &w % &n;
    let u2 = r * &w % &n;
    match pt_add(&pt_mul(&u1, &G()), &pt_mul(&u2, q)) {
        None => false,
        Some((x, _)) => &(x % &n) == r,
    }
}
fn enc_point(q: &Pt, compressed: bool) -> Vec<u8> {
    let (x, y) = q.clone().expect("not the point at infinity");
    let mut out = vec![];
    if compressed {
        out.push(if y.bit(0) { 3 } else { 2 });
        out.extend_from_slice(&b32(&x));
    } else {
        out.push(4);
        out.extend_from_slice(&b32(&x));
        out.extend_from_slice(&b32(&y));
    }
    out
}

fn sha256(d: &[u8]) -> Vec<u8> {
    Sha256::digest(d).to_vec()
}
fn sha256d(d: &[u8]) -> Vec<u8> {
    sha256(&sha256(d))
}

/// Hand-written DER encoder for an ECDSA signature (X.690: minimal two's complement INTEGERs in a SEQUENCE)
fn der_int(v: &[u8]) -> Vec<u8> {
    let mut i = 0;
    while i + 1 < v.len() && v[i] == 0 {
        i += 1;
    }
    let mut body = vec![];
    if v[i] & 0x80 != 0 {
        body.push(0);
    }
    body.extend_from_slice(&v[i..]);
    let mut out = vec![0x02, body.len() as u8];
    out.extend(body);
    out
}
fn der_ref(r: &[u8], s: &[u8]) -> Vec<u8> {
    let mut body = der_int(r);
    body.extend(der_int(s));
    assert!(body.len() < 0x80);
    let mut out = vec![0x30, body.len() as u8];
    out.extend(body);
    out
}
fn compact_ref(recid: u8, compressed: bool, r: &[u8; 32], s: &[u8; 32]) -> Vec<u8> {
    let mut out = vec![27 + recid + if compressed { 4 } else { 0 }];
    out.extend_from_slice(r);
    out.extend_from_slice(s);
    out
}

/// Boundary scalars in [1, n-1]
fn boundary_scalars() -> Vec<BigUint> {
    let n = N();
    let mut v = vec![
        one(),
        BigUint::from(2u8),
        BigUint::from(0x7fu8),
        BigUint::from(0x80u8),
        BigUint::from(0xffu8),
        BigUint::from(0x100u16),
        BigUint::from(0x8000u16),
        big("7fffffffffffffffffffffffffffffffffffffffffffffffffffffffffffffff"),
        big("8000000000000000000000000000000000000000000000000000000000000000"),
        big("00ffffffffffffffffffffffffffffffffffffffffffffffffffffffffffffff"),
        big("0080000000000000000000000000000000000000000000000000000000000000"),
        big("007fffffffffffffffffffffffffffffffffffffffffffffffffffffffffffff"),
        big("7fffffffffffffffffffffffffffffff5d576e7357a4501ddfe92f46681b20a0"), // n/2
        big("7fffffffffffffffffffffffffffffff5d576e7357a4501ddfe92f46681b20a1"), // n/2 + 1
        &n - one(),
        &n - BigUint::from(2u8),
    ];
    // values ending in every sighash flag value, short and full length, high bit set and clear
    for f in FLAGS {
        v.push(BigUint::from(f));
        v.push(big("1122334455667788990011223344556677889900112233445566778899001100") + BigUint::from(f));
        v.push(big("f122334455667788990011223344556677889900112233445566778899001100") + BigUint::from(f));
        v.push(BigUint::from(0x30u8) * BigUint::from(256u16) + BigUint::from(f));
    }
    v
}

fn no_panic<T>(f: impl FnOnce() -> T) -> Result<T, String> {
    catch_unwind(AssertUnwindSafe(f)).map_err(|e| {
        if let Some(s) = e.downcast_ref::<String>() {
            s.clone()
        } else if let Some(s) = e.downcast_ref::<&str>() {
            s.to_string()
        } else {
            "panic".to_string()
        }
    })
}

fn keys() -> Vec<PrivateKey> {
    let n = N();
    let mut ks: Vec<BigUint> = vec![
        one(),
        BigUint::from(2u8),
        BigUint::from(3u8),
        &n - one(),
        &n - BigUint::from(2u8),
        big("7fffffffffffffffffffffffffffffff5d576e7357a4501ddfe92f46681b20a0"),
        big("7fffffffffffffffffffffffffffffff5d576e7357a4501ddfe92f46681b20a1"),
        big("8000000000000000000000000000000000000000000000000000000000000000"),
    ];
    for i in 0..6u32 {
        ks.push(from_b(&sha256(format!("key{}", i).as_bytes())) % (&n - one()) + one());
    }
    ks.iter().map(|k| PrivateKey::from_bytes(&b32(k)).unwrap()).collect()
}
fn pub_ref(key: &PrivateKey, compressed: bool) -> Vec<u8> {
    enc_point(&pt_mul(&from_b(&key.to_bytes()), &G()), compressed)
}

// ---------------------------------------------------------------------------------------------
// E00 sanity of the reference implementation itself (published vectors)
// ---------------------------------------------------------------------------------------------
#[test]
fn e00_reference_sanity() {
    // 2G, from the SEC2 / widely published table
    let two_g = pt_mul(&BigUint::from(2u8), &G()).unwrap();
    assert_eq!(two_g.0, big("c6047f9441ed7d6d3045406e95c07cd85c778e4b8cef3ca7abac09b95c709ee5"));
    assert_eq!(two_g.1, big("1ae168fea63dc339a3c58419466ceaeef7f632653266d0e1236431a950cfe52a"));
    assert_eq!(pt_mul(&N(), &G()), None);
    for k in [one(), BigUint::from(2u8), BigUint::from(3u8), N() - one(), big("deadbeef00112233445566778899aabbccddeeff00112233445566778899aabb")] {
        assert_eq!(pt_mul(&k, &G()), pt_mul_affine(&k, &G()));
        let q = pt_mul(&big("1234567"), &G());
        assert_eq!(pt_mul(&k, &q), pt_mul_affine(&k, &q));
    }
    // generator multiples 3G and (n-1)G = -G
    assert_eq!(pt_mul(&BigUint::from(3u8), &G()).unwrap().0, big("f9308a019258c31049344f85f89d5229b531c845836f99b08601f113bce036f9"));
    assert_eq!(pt_mul(&(N() - one()), &G()), pt_neg(&G()));
    assert_eq!(lift_x(&GX(), false), G());
    // DER of the upstream test vector
    let r = hex::decode("75fc517e541bd54769c080b64397e32161c850f6c1b2b67a5c433affbb3e6277").unwrap();
    let s = hex::decode("729e85cc46ffab881065ec07694220e71d4df9b2b8c8fd12c3122cf3a5efbcf2").unwrap();
    assert_eq!(
        hex::encode(der_ref(&r, &s)),
        "3044022075fc517e541bd54769c080b64397e32161c850f6c1b2b67a5c433affbb3e62770220729e85cc46ffab881065ec07694220e71d4df9b2b8c8fd12c3122cf3a5efbcf2"
    );
}

// ---------------------------------------------------------------------------------------------
// E01 DER writer and reader against the hand-written encoder, all boundary (r, s) pairs
// ---------------------------------------------------------------------------------------------
#[test]
fn e01_der_roundtrip_boundary_pairs() {
    let vals = boundary_scalars();
    let mut count = 0;
    for r in &vals {
        for s in &vals {
            let (rb, sb) = (b32(r), b32(s));
            let expected = der_ref(&rb, &sb);
            // route 1: built from the compact form
            let sig = Signature::from_compact_bytes(&compact_ref(0, true, &rb, &sb)).unwrap();
            assert_eq!(sig.to_der_bytes(), expected, "DER writer r={:x} s={:x}", r, s);
            assert_eq!(sig.to_der_hex(), hex::encode(&expected));
            // route 2: parsed from DER
            let parsed = Signature::from_der(&expected).unwrap_or_else(|e| panic!("from_der refused {} : {}", hex::encode(&expected), e));
            assert_eq!(parsed.r(), rb.to_vec(), "r after from_der of {}", hex::encode(&expected));
            assert_eq!(parsed.s(), sb.to_vec(), "s after from_der of {}", hex::encode(&expected));
            assert_eq!(parsed.r_hex(), hex::encode(rb));
            assert_eq!(parsed.s_hex(), hex::encode(sb));
            assert_eq!(parsed.to_der_bytes(), expected);
            let parsed_hex = Signature::from_hex_der(&hex::encode(&expected)).unwrap();
            assert_eq!((parsed_hex.r(), parsed_hex.s()), (rb.to_vec(), sb.to_vec()));
            count += 1;
        }
    }
    println!("e01: {} pairs", count);
}

// ---------------------------------------------------------------------------------------------
// E02 DER + flag: every flag as suffix, (r, s) pairs whose DER ends in every flag value
// ---------------------------------------------------------------------------------------------
#[test]
fn e02_der_flag_roundtrip_all_flags() {
    let vals = boundary_scalars();
    let r_choices = [vals[0].clone(), vals[8].clone(), vals[14].clone(), vals[20].clone()];
    for r in &r_choices {
        for s in &vals {
            let (rb, sb) = (b32(r), b32(s));
            let der = der_ref(&rb, &sb);
            let base = Signature::from_compact_bytes(&compact_ref(1, false, &rb, &sb)).unwrap();
            for flag in FLAGS {
                let sighash = SigHash::try_from(flag).unwrap();
                let mut expected = der.clone();
                expected.push(flag);
                // writer
                let ss = SighashSignature::new(&base, sighash, b"buffer");
                assert_eq!(ss.to_bytes().unwrap(), expected);
                assert_eq!(ss.to_hex().unwrap(), hex::encode(&expected));
                // reader, strict route
                let back = SighashSignature::from_bytes(&expected, b"other").unwrap_or_else(|e| panic!("SighashSignature::from_bytes refused {}: {}", hex::encode(&expected), e));
                assert_eq!(back.to_bytes().unwrap(), expected, "SighashSignature round trip");
                // reader, lenient route
                let sig = Signature::from_der(&expected).unwrap_or_else(|e| panic!("from_der refused {}: {}", hex::encode(&expected), e));
                assert_eq!((sig.r(), sig.s()), (rb.to_vec(), sb.to_vec()), "from_der(DER+flag) {}", hex::encode(&expected));
                // a second flag must never be tolerated
                let mut two = expected.clone();
                two.push(flag);
                assert!(Signature::from_der(&two).is_err(), "from_der accepted DER+flag+flag {}", hex::encode(&two));
                assert!(SighashSignature::from_bytes(&two, b"").is_err());
            }
            // DER alone (possibly ending in a flag value) is not of the DER+flag form
            let alone = SighashSignature::from_bytes(&der, b"");
            assert!(alone.is_err(), "SighashSignature::from_bytes accepted a DER signature without a flag: {}", hex::encode(&der));
        }
    }
}

// ---------------------------------------------------------------------------------------------
// E03 SighashSignature::from_bytes: the flag byte is accepted iff it is one of the fourteen
// ---------------------------------------------------------------------------------------------
#[test]
fn e03_flag_byte_domain() {
    let der = der_ref(&b32(&big("1234")), &b32(&big("5678")));
    for b in 0..=255u8 {
        let mut v = der.clone();
        v.push(b);
        let ok = SighashSignature::from_bytes(&v, b"").is_ok();
        assert_eq!(ok, FLAGS.contains(&b), "flag byte {:02x}", b);
        let ok2 = Signature::from_der(&v).is_ok();
        assert_eq!(ok2, FLAGS.contains(&b), "from_der with trailing byte {:02x}", b);
        assert_eq!(SigHash::try_from(b).is_ok(), FLAGS.contains(&b));
    }
    assert!(SighashSignature::from_bytes(&[], b"").is_err());
    assert!(SighashSignature::from_bytes(&[0x41], b"").is_err());
    assert!(Signature::from_der(&[]).is_err());
    assert!(Signature::from_der(&[0x41]).is_err());
}

// ---------------------------------------------------------------------------------------------
// E04 malformed DER is rejected by every reader (systematic mutations of a good encoding)
// ---------------------------------------------------------------------------------------------
fn malformed_cases() -> Vec<(String, Vec<u8>)> {
    let n = N();
    let mut cases: Vec<(String, Vec<u8>)> = vec![];
    let raw = |r: &[u8], s: &[u8]| -> Vec<u8> {
        // INTEGER contents given verbatim
        let mut body = vec![0x02, r.len() as u8];
        body.extend_from_slice(r);
        body.push(0x02);
        body.push(s.len() as u8);
        body.extend_from_slice(s);
        let mut out = vec![0x30, body.len() as u8];
        out.extend(body);
        out
    };
    let good_r = b32(&big("75fc517e541bd54769c080b64397e32161c850f6c1b2b67a5c433affbb3e6277"));
    let good_s = b32(&big("729e85cc46ffab881065ec07694220e71d4df9b2b8c8fd12c3122cf3a5efbcf2"));
    let good = der_ref(&good_r, &good_s);
    assert_eq!(good, raw(&good_r, &good_s));

    cases.push(("r = 0".into(), raw(&[0], &good_s)));
    cases.push(("s = 0".into(), raw(&good_r, &[0])));
    cases.push(("r = 0, s = 0".into(), raw(&[0], &[0])));
    cases.push(("r empty".into(), raw(&[], &good_s)));
    cases.push(("s empty".into(), raw(&good_r, &[])));
    let mut nb = vec![0u8];
    nb.extend_from_slice(&b32(&n));
    cases.push(("r = n".into(), raw(&nb, &good_s)));
    cases.push(("s = n".into(), raw(&good_r, &nb)));
    let mut n1 = vec![0u8];
    n1.extend_from_slice(&b32(&(&n + one())));
    cases.push(("r = n+1".into(), raw(&n1, &good_s)));
    cases.push(("s = n+1".into(), raw(&good_r, &n1)));
    let mut ff = vec![0u8];
    ff.extend_from_slice(&[0xff; 32]);
    cases.push(("r = 2^256-1".into(), raw(&ff, &good_s)));
    cases.push(("s = 2^256-1".into(), raw(&good_r, &ff)));
    let mut big33 = vec![1u8];
    big33.extend_from_slice(&[0; 32]);
    cases.push(("r = 2^256".into(), raw(&big33, &good_s)));
    cases.push(("s = 2^256".into(), raw(&good_r, &big33)));
    // negative (high bit without padding)
    let neg = b32(&big("f5fc517e541bd54769c080b64397e32161c850f6c1b2b67a5c433affbb3e6277"));
    cases.push(("r negative".into(), raw(&neg, &good_s)));
    cases.push(("s negative".into(), raw(&good_r, &neg)));
    cases.push(("r = 0x80 unpadded".into(), raw(&[0x80], &good_s)));
    // excess padding
    let mut pad = vec![0u8];
    pad.extend_from_slice(&good_r);
    cases.push(("r needlessly padded".into(), raw(&pad, &good_s)));
    let mut pad = vec![0u8];
    pad.extend_from_slice(&good_s);
    cases.push(("s needlessly padded".into(), raw(&good_r, &pad)));
    cases.push(("r = 00 01".into(), raw(&[0, 1], &good_s)));
    cases.push(("s = 00 00".into(), raw(&good_r, &[0, 0])));
    cases.push(("r = 00 00 80".into(), raw(&[0, 0, 0x80], &good_s)));

    // length fields
    for delta in [-2i32, -1, 1, 2] {
        let mut v = good.clone();
        v[1] = (v[1] as i32 + delta) as u8;
        cases.push((format!("sequence length {:+}", delta), v));
        let mut v = good.clone();
        v[3] = (v[3] as i32 + delta) as u8;
        cases.push((format!("r length {:+}", delta), v));
        let mut v = good.clone();
        let s_len_at = 4 + good[3] as usize + 1;
        v[s_len_at] = (v[s_len_at] as i32 + delta) as u8;
        cases.push((format!("s length {:+}", delta), v));
    }
    // truncations and extensions
    for cut in 1..good.len() {
        cases.push((format!("truncated by {}", cut), good[..good.len() - cut].to_vec()));
    }
    for extra in [0x00u8, 0x04, 0x05, 0x30, 0xff, 0x44, 0x84] {
        let mut v = good.clone();
        v.push(extra);
        cases.push((format!("trailing byte {:02x} (not a flag)", extra), v));
    }
    // trailing byte inside the sequence
    for extra in [0x00u8, 0x01, 0x41] {
        let mut v = good.clone();
        v.push(extra);
        v[1] += 1;
        cases.push((format!("byte {:02x} after s inside the sequence", extra), v));
    }
    // third integer / NULL inside the sequence
    let mut v = good.clone();
    v.extend_from_slice(&[0x02, 0x01, 0x01]);
    v[1] += 3;
    cases.push(("third INTEGER in the sequence".into(), v));
    let mut v = good.clone();
    v.extend_from_slice(&[0x05, 0x00]);
    v[1] += 2;
    cases.push(("NULL after s in the sequence".into(), v));
    // tags
    for tag in [0x31u8, 0x10, 0x70, 0x00, 0x02] {
        let mut v = good.clone();
        v[0] = tag;
        cases.push((format!("outer tag {:02x}", tag), v));
    }
    for tag in [0x03u8, 0x04, 0x22, 0x82, 0x00] {
        let mut v = good.clone();
        v[2] = tag;
        cases.push((format!("r tag {:02x}", tag), v));
        let mut v = good.clone();
        let s_tag_at = 4 + good[3] as usize;
        v[s_tag_at] = tag;
        cases.push((format!("s tag {:02x}", tag), v));
    }
    // non-minimal / indefinite lengths
    let mut v = vec![0x30, 0x81, good[1]];
    v.extend_from_slice(&good[2..]);
    cases.push(("sequence length in long form 81".into(), v));
    let mut v = vec![0x30, 0x82, 0x00, good[1]];
    v.extend_from_slice(&good[2..]);
    cases.push(("sequence length in long form 82".into(), v));
    let mut v = vec![0x30, 0x80];
    v.extend_from_slice(&good[2..]);
    v.extend_from_slice(&[0, 0]);
    cases.push(("indefinite length".into(), v));
    let mut v = vec![0x30, good[1] + 1, 0x02, 0x81, 0x20];
    v.extend_from_slice(&good_r);
    v.extend_from_slice(&good[4 + 32..]);
    cases.push(("r length in long form".into(), v));
    let mut v = good[..4 + 32 + 1].to_vec();
    v.extend_from_slice(&[0x81, 0x20]);
    v.extend_from_slice(&good_s);
    v[1] += 1;
    cases.push(("s length in long form".into(), v));
    // order: only one integer
    let mut v = vec![0x30, 0x22, 0x02, 0x20];
    v.extend_from_slice(&good_r);
    cases.push(("only r".into(), v));
    cases.push(("empty sequence".into(), vec![0x30, 0x00]));
    cases.push(("empty".into(), vec![]));
    cases.push(("just 30".into(), vec![0x30]));
    // 64 raw bytes, 65 byte compact form are not DER
    let mut v = good_r.to_vec();
    v.extend_from_slice(&good_s);
    cases.push(("raw r||s".into(), v.clone()));
    let mut c = vec![0x1f];
    c.extend(v);
    cases.push(("compact form".into(), c));
    // two signatures in a row
    let mut v = good.clone();
    v.extend_from_slice(&good);
    cases.push(("DER DER".into(), v));
    // huge
    cases.push(("300 bytes of 30".into(), vec![0x30; 300]));
    let mut v = good.clone();
    v.extend_from_slice(&[0x41; 200]);
    cases.push(("DER followed by 200 flag bytes".into(), v));
    cases
}

/// Reference strict DER reader: Some((r, s)) iff the bytes are exactly the DER encoding of SEQUENCE { INTEGER r, INTEGER s }
/// with 0 < r, s < n
fn der_parse_ref(b: &[u8]) -> Option<(BigUint, BigUint)> {
    fn int(b: &[u8]) -> Option<(BigUint, &[u8])> {
        if b.len() < 2 || b[0] != 0x02 {
            return None;
        }
        let len = b[1] as usize;
        if len >= 0x80 || len == 0 || b.len() < 2 + len {
            return None;
        }
        let body = &b[2..2 + len];
        if body[0] & 0x80 != 0 {
            return None; // negative
        }
        if len > 1 && body[0] == 0 && body[1] & 0x80 == 0 {
            return None; // not minimal
        }
        Some((BigUint::from_bytes_be(body), &b[2 + len..]))
    }
    if b.len() < 2 || b[0] != 0x30 {
        return None;
    }
    let len = b[1] as usize;
    if len >= 0x80 || b.len() != 2 + len {
        return None;
    }
    let (r, rest) = int(&b[2..])?;
    let (s, rest) = int(rest)?;
    if !rest.is_empty() {
        return None;
    }
    let n = N();
    if r == zero() || s == zero() || r >= n || s >= n {
        return None;
    }
    Some((r, s))
}
/// What the documented lenient reader may accept: strict DER, or strict DER followed by one flag byte
fn lenient_ref(b: &[u8]) -> Option<(BigUint, BigUint)> {
    der_parse_ref(b).or_else(|| match b.split_last() {
        Some((f, rest)) if FLAGS.contains(f) => der_parse_ref(rest),
        _ => None,
    })
}
fn flagged_ref(b: &[u8]) -> Option<(BigUint, BigUint, u8)> {
    match b.split_last() {
        Some((f, rest)) if FLAGS.contains(f) => der_parse_ref(rest).map(|(r, s)| (r, s, *f)),
        _ => None,
    }
}

/// Compares the three readers with the reference readers on one input; returns a description of any difference
fn check_readers(name: &str, v: &[u8]) -> Vec<String> {
    let mut bad = vec![];
    let describe = |x: &Option<(BigUint, BigUint)>| x.as_ref().map(|(r, s)| format!("r={:x} s={:x}", r, s));
    let expected = lenient_ref(v);
    match no_panic(|| Signature::from_der(v).ok().map(|s| (from_b(&s.r()), from_b(&s.s())))) {
        Ok(got) if got == expected => {}
        Ok(got) => bad.push(format!("from_der [{}] {}: expected {:?} got {:?}", name, hex::encode(v), describe(&expected), describe(&got))),
        Err(p) => bad.push(format!("from_der PANIC [{}] {}: {}", name, hex::encode(v), p)),
    }
    match no_panic(|| Signature::from_hex_der(&hex::encode(v)).ok().map(|s| (from_b(&s.r()), from_b(&s.s())))) {
        Ok(got) if got == expected => {}
        Ok(got) => bad.push(format!("from_hex_der [{}] {}: expected {:?} got {:?}", name, hex::encode(v), describe(&expected), describe(&got))),
        Err(p) => bad.push(format!("from_hex_der PANIC [{}] {}: {}", name, hex::encode(v), p)),
    }
    let expected = flagged_ref(v);
    match no_panic(|| SighashSignature::from_bytes(v, b"x").ok().map(|s| s.to_bytes().unwrap())) {
        Ok(got) => {
            let want = expected.map(|(r, s, f)| {
                let mut d = der_ref(&b32(&r), &b32(&s));
                d.push(f);
                d
            });
            if got != want {
                bad.push(format!("SighashSignature::from_bytes [{}] {}: expected {:?} got {:?}", name, hex::encode(v), want.map(hex::encode), got.map(hex::encode)));
            }
        }
        Err(p) => bad.push(format!("SighashSignature::from_bytes PANIC [{}] {}: {}", name, hex::encode(v), p)),
    }
    bad
}

#[test]
fn e04_malformed_der_rejected() {
    let cases = malformed_cases();
    let mut bad = vec![];
    for (name, bytes) in &cases {
        assert!(der_parse_ref(bytes).is_none(), "reference reader accepts [{}]", name);
        bad.extend(check_readers(name, bytes));
        for flag in FLAGS {
            let mut v = bytes.clone();
            v.push(flag);
            bad.extend(check_readers(&format!("{} +{:02x}", name, flag), &v));
        }
    }
    println!("e04: {} malformed cases", cases.len());
    for b in &bad {
        println!("  {}", b);
    }
    assert!(bad.is_empty(), "{} differences from the reference readers", bad.len());
}

// ---------------------------------------------------------------------------------------------
// E05 mutation fuzz: every single-byte substitution / deletion / insertion / duplication on good encodings, compared with the reference readers
// ---------------------------------------------------------------------------------------------
#[test]
fn e05_der_mutation_fuzz() {
    let vals = boundary_scalars();
    let picks = [(0usize, 0usize), (14, 14), (7, 8), (8, 7), (3, 20), (17, 30), (9, 10), (21, 22), (5, 6)];
    let interesting: Vec<u8> = {
        let mut v = vec![0x00, 0x01, 0x02, 0x03, 0x1f, 0x20, 0x21, 0x22, 0x30, 0x43, 0x44, 0x45, 0x46, 0x47, 0x48, 0x7f, 0x80, 0x81, 0x82, 0xff];
        v.extend_from_slice(&FLAGS);
        v
    };
    let mut bad = vec![];
    let mut total = 0usize;
    for (i, j) in picks {
        let der = der_ref(&b32(&vals[i]), &b32(&vals[j]));
        let mut bases = vec![der.clone()];
        for f in [0x41u8, 0x01, 0xc3, 0x80] {
            let mut v = der.clone();
            v.push(f);
            bases.push(v);
        }
        for base in bases {
            for pos in 0..=base.len() {
                // insertion
                for &b in &interesting {
                    let mut v = base.clone();
                    v.insert(pos, b);
                    bad.extend(check_readers("insert", &v));
                    total += 1;
                }
                if pos < base.len() {
                    // substitution
                    for &b in &interesting {
                        let mut v = base.clone();
                        v[pos] = b;
                        bad.extend(check_readers("subst", &v));
                        total += 1;
                    }
                    for bit in 0..8 {
                        let mut v = base.clone();
                        v[pos] ^= 1 << bit;
                        bad.extend(check_readers("bitflip", &v));
                        total += 1;
                    }
                    // deletion
                    let mut v = base.clone();
                    v.remove(pos);
                    bad.extend(check_readers("delete", &v));
                    total += 1;
                }
            }
        }
    }
    println!("e05: {} mutants", total);
    for b in bad.iter().take(40) {
        println!("  {}", b);
    }
    assert!(bad.is_empty(), "{} differences from the reference readers", bad.len());
}


// ---------------------------------------------------------------------------------------------
// E06 compact form: all eight header bytes x boundary pairs round trip; everything else is refused
// ---------------------------------------------------------------------------------------------
#[test]
fn e06_compact_roundtrip_and_rejects() {
    let vals = boundary_scalars();
    for r in &vals {
        for s in vals.iter().step_by(3) {
            let (rb, sb) = (b32(r), b32(s));
            for recid in 0..4u8 {
                for compressed in [false, true] {
                    let bytes = compact_ref(recid, compressed, &rb, &sb);
                    let sig = Signature::from_compact_bytes(&bytes).unwrap();
                    assert_eq!((sig.r(), sig.s()), (rb.to_vec(), sb.to_vec()));
                    assert_eq!(sig.to_compact_bytes(None), bytes, "compact round trip recid {} compressed {}", recid, compressed);
                    assert_eq!(sig.to_compact_hex(None), hex::encode(&bytes));
                    // clone keeps the recovery data
                    assert_eq!(sig.clone().to_compact_bytes(None), bytes);
                    // DER of the same signature
                    assert_eq!(sig.to_der_bytes(), der_ref(&rb, &sb));
                }
            }
        }
    }
    let n = N();
    let good = b32(&big("1234"));
    let mut bad = vec![];
    for header in (0..27u8).chain(35..=255u8) {
        let mut v = vec![header];
        v.extend_from_slice(&good);
        v.extend_from_slice(&good);
        if !matches!(no_panic(|| Signature::from_compact_bytes(&v).is_err()), Ok(true)) {
            bad.push(format!("header {}", header));
        }
    }
    for len in [0usize, 1, 2, 32, 33, 63, 64, 66, 67, 72, 129, 130] {
        let mut v = vec![31u8; len];
        if len > 0 {
            v[0] = 31;
        }
        for b in v.iter_mut().skip(1) {
            *b = 1;
        }
        if !matches!(no_panic(|| Signature::from_compact_bytes(&v).is_err()), Ok(true)) {
            bad.push(format!("length {}", len));
        }
    }
    let out_of_range = [zero(), n.clone(), &n + one(), big("ffffffffffffffffffffffffffffffffffffffffffffffffffffffffffffffff"), P()];
    for v in &out_of_range {
        for header in 27..=34u8 {
            let mut a = vec![header];
            a.extend_from_slice(&b32(v));
            a.extend_from_slice(&good);
            if !matches!(no_panic(|| Signature::from_compact_bytes(&a).is_err()), Ok(true)) {
                bad.push(format!("r = {:x} header {}", v, header));
            }
            let mut a = vec![header];
            a.extend_from_slice(&good);
            a.extend_from_slice(&b32(v));
            if !matches!(no_panic(|| Signature::from_compact_bytes(&a).is_err()), Ok(true)) {
                bad.push(format!("s = {:x} header {}", v, header));
            }
        }
    }
    assert!(bad.is_empty(), "compact reader accepted or panicked on: {:?}", bad);
}

// ---------------------------------------------------------------------------------------------
// E07 to_compact_bytes with supplied recovery data (signature read from DER has none of its own)
// ---------------------------------------------------------------------------------------------
#[test]
fn e07_compact_with_supplied_recovery() {
    let (rb, sb) = (b32(&big("abcdef")), b32(&big("123456")));
    let sig = Signature::from_der(&der_ref(&rb, &sb)).unwrap();
    for recid in 0..4u8 {
        for compressed in [false, true] {
            let expected = compact_ref(recid, compressed, &rb, &sb);
            let a = sig.to_compact_bytes(Some(RecoveryInfo::from_byte(recid, compressed)));
            assert_eq!(a, expected);
            let b = sig.to_compact_bytes(Some(RecoveryInfo::new(recid & 1 != 0, recid & 2 != 0, compressed)));
            assert_eq!(b, expected);
            // parsed back: same recovery data (checked through equality of the public type)
            let back = Signature::from_compact_bytes(&a).unwrap();
            assert_eq!(back.to_compact_bytes(None), expected);
        }
    }
    // from_byte ignores bits above the two recovery bits (observation, not asserted as a defect)
    println!("e07: from_byte(7,true) -> header {}", sig.to_compact_bytes(Some(RecoveryInfo::from_byte(7, true)))[0]);
    println!("e07: no recovery data at all -> header {}", sig.to_compact_bytes(None)[0]);
    // a signature that has recovery data and is given other data: which wins?
    let own = Signature::from_compact_bytes(&compact_ref(3, true, &rb, &sb)).unwrap();
    println!("e07: own recid 3/compressed, supplied recid 0/uncompressed -> header {}", own.to_compact_bytes(Some(RecoveryInfo::from_byte(0, false)))[0]);
}

// ---------------------------------------------------------------------------------------------
// E08 signatures the library produces: compact form round trips and recovery returns the signer
// ---------------------------------------------------------------------------------------------
fn messages() -> Vec<Vec<u8>> {
    let mut m: Vec<Vec<u8>> = vec![vec![], vec![0], b"Hello".to_vec(), vec![0xff; 1000], b"Bitcoin Signed Message:\n".to_vec()];
    for i in 0..6u32 {
        m.push(sha256(&i.to_le_bytes()));
    }
    m
}

/// Checks one produced signature completely against the reference; returns problems found
fn check_produced(sig: &Signature, key: &PrivateKey, compressed: bool, z_bytes: &[u8], route: &str, recover: &dyn Fn(&Signature) -> Result<PublicKey, BSVErrors>) -> Vec<String> {
    let mut bad = vec![];
    let d = from_b(&key.to_bytes());
    let q = pt_mul(&d, &G());
    let (r, s) = (from_b(&sig.r()), from_b(&sig.s()));
    let z = from_b(z_bytes);
    if !verify_ref(&q, &r, &s, &z) {
        bad.push(format!("{}: signature does not verify under the reference verifier", route));
    }
    let compact = sig.to_compact_bytes(None);
    if compact.len() != 65 || compact[1..33] != sig.r()[..] || compact[33..] != sig.s()[..] {
        bad.push(format!("{}: compact bytes are not header|r|s", route));
        return bad;
    }
    let header = compact[0];
    if !(27..=34).contains(&header) {
        bad.push(format!("{}: header {}", route, header));
        return bad;
    }
    let marker = header >= 31;
    let recid = (header - 27) % 4;
    if marker != compressed {
        bad.push(format!("{}: compression marker {} for a key with compressed={}", route, marker, compressed));
    }
    // the recorded recovery id must be the one that leads to the signer (reference recovery)
    let expected_recids: Vec<u8> = (0..4u8).filter(|id| recover_ref(&r, &s, &z, *id) == q).collect();
    if !expected_recids.contains(&recid) {
        bad.push(format!("{}: recorded recovery id {} but the reference finds the signer with {:?}", route, recid, expected_recids));
    }
    // parse back
    let back = match Signature::from_compact_bytes(&compact) {
        Ok(b) => b,
        Err(e) => {
            bad.push(format!("{}: own compact bytes refused: {}", route, e));
            return bad;
        }
    };
    if back.to_compact_bytes(None) != compact || back.r() != sig.r() || back.s() != sig.s() {
        bad.push(format!("{}: compact round trip differs", route));
    }
    let expected_pub = enc_point(&q, compressed);
    for (which, sg) in [("original", sig), ("reparsed", &back)] {
        match no_panic(|| recover(sg)) {
            Ok(Ok(pk)) => {
                if pk.to_bytes().unwrap() != expected_pub {
                    bad.push(format!("{}: {} recovery gave {} expected {}", route, which, pk.to_hex().unwrap(), hex::encode(&expected_pub)));
                }
                if pk.is_compressed() != compressed {
                    bad.push(format!("{}: {} recovered key is_compressed()={}", route, which, pk.is_compressed()));
                }
                if pk != key.to_public_key().unwrap() {
                    bad.push(format!("{}: {} recovered key != PrivateKey::to_public_key()", route, which));
                }
            }
            Ok(Err(e)) => bad.push(format!("{}: {} recovery failed: {}", route, which, e)),
            Err(p) => bad.push(format!("{}: {} recovery PANIC {}", route, which, p)),
        }
    }
    // DER and DER+flag of the same object
    let der = der_ref(&b32(&r), &b32(&s));
    if sig.to_der_bytes() != der {
        bad.push(format!("{}: DER differs from the reference encoder", route));
    }
    bad
}

#[test]
fn e08_produced_signatures_recover_signer() {
    let mut bad = vec![];
    let mut count = 0;
    for key0 in keys() {
        for compressed in [true, false] {
            let key = key0.compress_public_key(compressed);
            for msg in messages() {
                for (algo, z) in [(SigningHash::Sha256, sha256(&msg)), (SigningHash::Sha256d, sha256d(&msg))] {
                    for reverse_k in [false, true] {
                        let sig = ECDSA::sign_with_deterministic_k(&key, &msg, algo, reverse_k).unwrap();
                        bad.extend(check_produced(&sig, &key, compressed, &z, "deterministic", &|s| s.recover_public_key(&msg, algo)));
                        bad.extend(check_produced(&sig, &key, compressed, &z, "deterministic/digest", &|s| s.recover_public_key_from_digest(&z)));
                        let sig = ECDSA::sign_with_random_k(&key, &msg, algo, reverse_k).unwrap();
                        bad.extend(check_produced(&sig, &key, compressed, &z, "random", &|s| s.recover_public_key(&msg, algo)));
                        count += 2;
                        // a different message gives a different key or an error
                        let mut other = msg.clone();
                        other.push(1);
                        let expected_pub = pub_ref(&key, compressed);
                        match no_panic(|| sig.recover_public_key(&other, algo)) {
                            Ok(Ok(pk)) => {
                                if pk.to_bytes().unwrap() == expected_pub {
                                    bad.push("other message recovered the signer".to_string());
                                }
                            }
                            Ok(Err(_)) => {}
                            Err(p) => bad.push(format!("other message PANIC {}", p)),
                        }
                        // the other algorithm is a different message as well
                        let other_algo = if algo == SigningHash::Sha256 { SigningHash::Sha256d } else { SigningHash::Sha256 };
                        if let Ok(Ok(pk)) = no_panic(|| sig.recover_public_key(&msg, other_algo)) {
                            if pk.to_bytes().unwrap() == expected_pub {
                                bad.push("other hash algorithm recovered the signer".to_string());
                            }
                        }
                    }
                }
                if compressed {
                    let sig = key.sign_message(&msg).unwrap();
                    bad.extend(check_produced(&sig, &key, compressed, &sha256(&msg), "PrivateKey::sign_message", &|s| s.recover_public_key(&msg, SigningHash::Sha256)));
                }
            }
        }
    }
    println!("e08: {} signatures", count);
    bad.sort();
    bad.dedup();
    for b in bad.iter().take(30) {
        println!("  {}", b);
    }
    assert!(bad.is_empty(), "{} problems", bad.len());
}

// ---------------------------------------------------------------------------------------------
// E09 constructed signatures, all four recovery ids and both markers, against the reference recovery
//     (small r so that r + n is still a field element; r around p - n and 2^256 - n; high and low s; digests above n)
// ---------------------------------------------------------------------------------------------
fn compare_recovery(r: &BigUint, s: &BigUint, z_bytes: &[u8; 32], bad: &mut Vec<String>, stats: &mut [usize; 4]) {
    let z = from_b(z_bytes);
    for recid in 0..4u8 {
        for compressed in [true, false] {
            let bytes = compact_ref(recid, compressed, &b32(r), &b32(s));
            let sig = Signature::from_compact_bytes(&bytes).unwrap();
            let expected = recover_ref(r, s, &z, recid);
            let got = no_panic(|| sig.recover_public_key_from_digest(z_bytes));
            match (&expected, got) {
                (_, Err(p)) => bad.push(format!("PANIC r={:x} s={:x} z={} recid={}: {}", r, s, hex::encode(z_bytes), recid, p)),
                (None, Ok(Err(_))) => {}
                (None, Ok(Ok(pk))) => bad.push(format!("r={:x} s={:x} z={} recid={}: no key exists, library returned {}", r, s, hex::encode(z_bytes), recid, pk.to_hex().unwrap())),
                (Some(_), Ok(Err(e))) => bad.push(format!("r={:x} s={:x} z={} recid={}: key exists, library failed: {}", r, s, hex::encode(z_bytes), recid, e)),
                (Some(_), Ok(Ok(pk))) => {
                    stats[recid as usize] += 1;
                    let want = enc_point(&expected, compressed);
                    if pk.to_bytes().unwrap() != want || pk.is_compressed() != compressed {
                        bad.push(format!("r={:x} s={:x} z={} recid={} compressed={}: expected {} got {}", r, s, hex::encode(z_bytes), recid, compressed, hex::encode(&want), pk.to_hex().unwrap()));
                    }
                    // the recovered key is a signer of (r, s) over z according to the reference verifier
                    if !verify_ref(&expected, r, s, &z) {
                        bad.push(format!("reference inconsistency r={:x} recid={}", r, recid));
                    }
                }
            }
        }
    }
}

#[test]
fn e09_constructed_all_recovery_ids() {
    let n = N();
    let p = P();
    let p_minus_n = &p - &n;
    let two256_minus_n = (one() << 256usize) - &n;
    let mut rs: Vec<BigUint> = (1..40u32).map(BigUint::from).collect();
    for d in 0..6u32 {
        rs.push(&p_minus_n - BigUint::from(d) - one()); // r + n = p - 1 - d
        rs.push(&p_minus_n + BigUint::from(d)); // r + n >= p
        rs.push(&two256_minus_n - BigUint::from(d) - one()); // r + n = 2^256 - 1 - d
        rs.push(&two256_minus_n + BigUint::from(d)); // r + n >= 2^256
    }
    rs.push(&n - one());
    rs.push(GX());
    rs.push(big("7fffffffffffffffffffffffffffffff5d576e7357a4501ddfe92f46681b20a0"));
    let ss = [one(), BigUint::from(2u8), &n - one(), big("7fffffffffffffffffffffffffffffff5d576e7357a4501ddfe92f46681b20a0"), big("7fffffffffffffffffffffffffffffff5d576e7357a4501ddfe92f46681b20a1"), from_b(&sha256(b"s"))  % &n];
    let zs: [[u8; 32]; 5] = [[0u8; 32], [0xff; 32], b32(&n), b32(&(&n - one())), {
        let mut a = [0u8; 32];
        a.copy_from_slice(&sha256(b"z"));
        a
    }];
    let mut bad = vec![];
    let mut stats = [0usize; 4];
    for r in &rs {
        for s in &ss {
            for z in &zs {
                compare_recovery(r, s, z, &mut bad, &mut stats);
            }
        }
    }
    println!("e09: keys recovered per recovery id {:?}", stats);
    for b in bad.iter().take(30) {
        println!("  {}", b);
    }
    assert!(stats.iter().all(|c| *c > 0), "every recovery id must have been exercised with success");
    assert!(bad.is_empty(), "{} differences", bad.len());
}

// ---------------------------------------------------------------------------------------------
// E10 message routes of recovery (Sha256 / Sha256d) for constructed signatures with recid 2 / 3: a key Q is made up so that
//     (r, s) is its signature over the message with R.x = r + n; the compact form must give Q back in both marker forms
// ---------------------------------------------------------------------------------------------
#[test]
fn e10_constructed_signer_with_large_abscissa_message_routes() {
    let n = N();
    let mut found = 0;
    let mut bad = vec![];
    for r_small in 1..60u32 {
        let r = BigUint::from(r_small);
        for odd in [false, true] {
            let R = lift_x(&(&r + &n), odd);
            if R.is_none() {
                continue;
            }
            found += 1;
            let msg = format!("message {}", r_small).into_bytes();
            for (algo, z) in [(SigningHash::Sha256, from_b(&sha256(&msg))), (SigningHash::Sha256d, from_b(&sha256d(&msg)))] {
                // choose a nonce-free construction: pick s, derive Q = r^-1 (sR - zG)
                let s = from_b(&sha256(&[r_small as u8, odd as u8])) % &n;
                let q = pt_mul(&inv_mod(&r, &n), &pt_add(&pt_mul(&s, &R), &pt_neg(&pt_mul(&(&z % &n), &G()))));
                assert!(verify_ref(&q, &r, &s, &z));
                let recid = 2 + odd as u8;
                for compressed in [true, false] {
                    let sig = Signature::from_compact_bytes(&compact_ref(recid, compressed, &b32(&r), &b32(&s))).unwrap();
                    match no_panic(|| sig.recover_public_key(&msg, algo)) {
                        Ok(Ok(pk)) => {
                            if pk.to_bytes().unwrap() != enc_point(&q, compressed) {
                                bad.push(format!("r={} recid={} wrong key", r_small, recid));
                            }
                            // the library's own verifier agrees that this is the signer (low s only)
                            if s <= (&n >> 1usize) && !ECDSA::verify_digest(&msg, &pk, &sig, algo).unwrap_or(false) {
                                bad.push(format!("r={} recid={}: library verifier refuses the recovered signer", r_small, recid));
                            }
                        }
                        Ok(Err(e)) => bad.push(format!("r={} recid={} error {}", r_small, recid, e)),
                        Err(pn) => bad.push(format!("r={} recid={} PANIC {}", r_small, recid, pn)),
                    }
                    // the same r, s with recid 0/1 must not give the signer
                    for other in 0..2u8 {
                        let sig = Signature::from_compact_bytes(&compact_ref(other, compressed, &b32(&r), &b32(&s))).unwrap();
                        if let Ok(Ok(pk)) = no_panic(|| sig.recover_public_key(&msg, algo)) {
                            if pk.to_bytes().unwrap() == enc_point(&q, compressed) {
                                bad.push(format!("r={} recid {} also gives the signer of recid {}", r_small, other, recid));
                            }
                        }
                    }
                }
            }
        }
    }
    println!("e10: {} points with abscissa n + small", found);
    assert!(found > 10);
    assert!(bad.is_empty(), "{:?}", bad);
}

// ---------------------------------------------------------------------------------------------
// E11 chosen nonces: k = 1, 2, 3, n-1, n-2, n/2 ... the recorded recovery id leads to the signer
// ---------------------------------------------------------------------------------------------
#[test]
fn e11_sign_with_k_edge_nonces() {
    let n = N();
    let ks = [one(), BigUint::from(2u8), BigUint::from(3u8), &n - one(), &n - BigUint::from(2u8), &n >> 1usize, (&n >> 1usize) + one(), from_b(&sha256(b"k")) % &n];
    let mut bad = vec![];
    for key0 in keys().into_iter().take(6) {
        for compressed in [true, false] {
            let key = key0.compress_public_key(compressed);
            for k in &ks {
                let eph = PrivateKey::from_bytes(&b32(k)).unwrap();
                for msg in [b"".to_vec(), b"abc".to_vec(), vec![7u8; 77]] {
                    for (algo, z) in [(SigningHash::Sha256, sha256(&msg)), (SigningHash::Sha256d, sha256d(&msg))] {
                        let sig = match ECDSA::sign_with_k(&key, &eph, &msg, algo) {
                            Ok(s) => s,
                            Err(e) => {
                                println!("e11: sign_with_k refused k={:x}: {}", k, e);
                                continue;
                            }
                        };
                        // r must be x(kG) mod n
                        let kg = pt_mul(k, &G()).unwrap();
                        if from_b(&sig.r()) != &kg.0 % &n {
                            bad.push(format!("r is not x(kG) for k={:x}", k));
                        }
                        bad.extend(check_produced(&sig, &key, compressed, &z, &format!("sign_with_k k={:x}", k), &|s| s.recover_public_key(&msg, algo)));
                    }
                }
                // Bitcoin Signed Message route with a chosen nonce
                let sig = BSM::sign_message_with_k(&key, &eph, b"hello").unwrap();
                let mut magic = vec![24u8];
                magic.extend_from_slice(b"Bitcoin Signed Message:\n");
                magic.push(5);
                magic.extend_from_slice(b"hello");
                bad.extend(check_produced(&sig, &key, compressed, &sha256d(&magic), "BSM::sign_message_with_k", &|s| s.recover_public_key(&magic, SigningHash::Sha256d)));
            }
        }
    }
    bad.sort();
    bad.dedup();
    assert!(bad.is_empty(), "{:#?}", bad);
}

// ---------------------------------------------------------------------------------------------
// E12 digest routes with boundary digests (0, n-1, n, n+1, 2^256-1)
// ---------------------------------------------------------------------------------------------
#[test]
fn e12_digest_routes_boundary_digests() {
    let n = N();
    let digests = [[0u8; 32], b32(&one()), b32(&(&n - one())), b32(&n), b32(&(&n + one())), [0xff; 32]];
    let mut bad = vec![];
    for key0 in keys().into_iter().take(8) {
        for compressed in [true, false] {
            let key = key0.compress_public_key(compressed);
            for d in &digests {
                let sig = ECDSA::sign_digest_with_deterministic_k(&key, d).unwrap();
                bad.extend(check_produced(&sig, &key, compressed, d, &format!("sign_digest {}", hex::encode(d)), &|s| s.recover_public_key_from_digest(d)));
                // the library verifier agrees
                if !ECDSA::verify_hashbuf(d, &key.to_public_key().unwrap(), &sig).unwrap_or(false) {
                    bad.push("verify_hashbuf refuses a produced signature".into());
                }
                // digest of a wrong length is an error, not a panic
                for wrong in [&d[..31], &[d.as_slice(), &[0u8]].concat()[..]] {
                    match no_panic(|| sig.recover_public_key_from_digest(wrong)) {
                        Ok(Err(_)) => {}
                        other => bad.push(format!("digest of length {}: {:?}", wrong.len(), other.map(|r| r.map(|k| k.to_hex().unwrap()).map_err(|e| e.to_string())))),
                    }
                }
            }
        }
    }
    bad.sort();
    bad.dedup();
    assert!(bad.is_empty(), "{:#?}", bad);
}

// ---------------------------------------------------------------------------------------------
// E13 Bitcoin Signed Message: sign, compact bytes out and in, verify against the signer's address (both key forms);
//     another message or another key's address does not verify
// ---------------------------------------------------------------------------------------------
#[test]
fn e13_bsm_compact_roundtrip() {
    let mut bad = vec![];
    for key0 in keys().into_iter().take(8) {
        for compressed in [true, false] {
            let key = key0.compress_public_key(compressed);
            let pk = key.to_public_key().unwrap();
            assert_eq!(pk.to_bytes().unwrap(), pub_ref(&key, compressed));
            let addr = P2PKHAddress::from_pubkey(&pk).unwrap();
            let other_form_addr = P2PKHAddress::from_pubkey(&key.compress_public_key(!compressed).to_public_key().unwrap()).unwrap();
            for msg in [b"".to_vec(), b"hello".to_vec(), vec![0xaa; 300], vec![0x55; 70000]] {
                let sig = BSM::sign_message(&key, &msg).unwrap();
                let compact = sig.to_compact_bytes(None);
                let back = Signature::from_compact_bytes(&compact).unwrap();
                if back != sig {
                    bad.push("reparsed BSM signature is not equal to the original".to_string());
                }
                if !matches!(no_panic(|| BSM::verify_message(&msg, &back, &addr)), Ok(Ok(true))) {
                    bad.push(format!("BSM verification of own signature failed (compressed={})", compressed));
                }
                if !addr.is_valid_bitcoin_message(&msg, &back) {
                    bad.push("is_valid_bitcoin_message false".into());
                }
                // the marker decides the address: the other form of the same key has another address
                if BSM::is_valid_message(&msg, &back, &other_form_addr) {
                    bad.push("verifies against the address of the other key form".into());
                }
                let mut other = msg.clone();
                other.push(0);
                if BSM::is_valid_message(&other, &back, &addr) {
                    bad.push("verifies for another message".into());
                }
                // flipping the marker in the compact bytes gives the other address
                let mut flipped = compact.clone();
                flipped[0] = if compressed { flipped[0] - 4 } else { flipped[0] + 4 };
                let f = Signature::from_compact_bytes(&flipped).unwrap();
                if !BSM::is_valid_message(&msg, &f, &other_form_addr) || BSM::is_valid_message(&msg, &f, &addr) {
                    bad.push("marker flip does not switch the address".into());
                }
                // independent check of the digest: varint(24) magic varint(len) msg, double SHA-256
                let mut magic = vec![24u8];
                magic.extend_from_slice(b"Bitcoin Signed Message:\n");
                match msg.len() {
                    l if l < 0xfd => magic.push(l as u8),
                    l if l <= 0xffff => {
                        magic.push(0xfd);
                        magic.extend_from_slice(&(l as u16).to_le_bytes());
                    }
                    l => {
                        magic.push(0xfe);
                        magic.extend_from_slice(&(l as u32).to_le_bytes());
                    }
                }
                magic.extend_from_slice(&msg);
                let z = from_b(&sha256d(&magic));
                let q = pt_mul(&from_b(&key.to_bytes()), &G());
                if !verify_ref(&q, &from_b(&sig.r()), &from_b(&sig.s()), &z) {
                    bad.push("BSM signature does not verify under the reference verifier".into());
                }
            }
        }
    }
    bad.sort();
    bad.dedup();
    assert!(bad.is_empty(), "{:#?}", bad);
}

// ---------------------------------------------------------------------------------------------
// E14 transaction signatures: for each of the fourteen flags the serialised form is DER || flag, parses back to the same
//     bytes, verifies under the reference verifier over sha256d(preimage) and unlocks a P2PKH output in the interpreter
// ---------------------------------------------------------------------------------------------
#[test]
fn e14_transaction_signatures_all_flags() {
    let mut bad = vec![];
    for (ki, key0) in keys().into_iter().take(5).enumerate() {
        for compressed in [true, false] {
            let key = key0.compress_public_key(compressed);
            let pubkey = key.to_public_key().unwrap();
            let q = pt_mul(&from_b(&key.to_bytes()), &G());
            let addr = P2PKHAddress::from_pubkey(&pubkey).unwrap();
            let locking = addr.get_locking_script().unwrap();
            for flag in FLAGS {
                let sighash = SigHash::try_from(flag).unwrap();
                let mut tx = Transaction::new(1, 0);
                for i in 0..2u32 {
                    let mut txin = TxIn::new(&[ki as u8 + 1; 32], i, &Script::default(), Some(0xfffffffe));
                    txin.set_satoshis(5000 + i as u64);
                    txin.set_locking_script(&locking);
                    tx.add_input(&txin);
                }
                tx.add_output(&TxOut::new(1000, &locking));
                tx.add_output(&TxOut::new(2000, &Script::from_asm_string("OP_RETURN 01020304").unwrap()));
                for n_in in 0..2usize {
                    let sig = match tx.sign(&key, sighash, n_in, &locking, 5000 + n_in as u64) {
                        Ok(s) => s,
                        Err(e) => {
                            bad.push(format!("flag {:02x}: sign failed {}", flag, e));
                            continue;
                        }
                    };
                    let bytes = sig.to_bytes().unwrap();
                    let preimage = tx.sighash_preimage(sighash, n_in, &locking, 5000 + n_in as u64).unwrap();
                    let (r, s, f) = match flagged_ref(&bytes) {
                        Some(v) => v,
                        None => {
                            bad.push(format!("flag {:02x}: serialised form is not DER||flag: {}", flag, hex::encode(&bytes)));
                            continue;
                        }
                    };
                    if f != flag {
                        bad.push(format!("flag {:02x}: serialised flag {:02x}", flag, f));
                    }
                    if !verify_ref(&q, &r, &s, &from_b(&sha256d(&preimage))) {
                        bad.push(format!("flag {:02x}: signature does not verify over sha256d(preimage)", flag));
                    }
                    if s > (N() >> 1usize) {
                        bad.push(format!("flag {:02x}: high s produced", flag));
                    }
                    let back = SighashSignature::from_bytes(&bytes, &preimage).unwrap();
                    if back.to_bytes().unwrap() != bytes || back.to_hex().unwrap() != hex::encode(&bytes) {
                        bad.push(format!("flag {:02x}: round trip differs", flag));
                    }
                    if !tx.verify(&pubkey, &back) || !tx.verify(&pubkey, &sig) {
                        bad.push(format!("flag {:02x}: Transaction::verify false", flag));
                    }
                    // unlocking script through the address helper carries exactly these bytes
                    let unlocking = addr.get_unlocking_script(&pubkey, &back).unwrap();
                    let mut expected_script = vec![bytes.len() as u8];
                    expected_script.extend_from_slice(&bytes);
                    let pkb = pubkey.to_bytes().unwrap();
                    expected_script.push(pkb.len() as u8);
                    expected_script.extend_from_slice(&pkb);
                    if unlocking.to_bytes() != expected_script {
                        bad.push(format!("flag {:02x}: unlocking script bytes differ", flag));
                    }
                    // interpreter
                    let mut tx2 = tx.clone();
                    let mut txin = tx2.get_input(n_in).unwrap();
                    txin.set_unlocking_script(&unlocking);
                    tx2.set_input(n_in, &txin);
                    let run = no_panic(|| {
                        let mut interp = Interpreter::from_transaction(&tx2, n_in).unwrap();
                        interp.run().map(|_| interp.state().stack().last().cloned())
                    });
                    match run {
                        Ok(Ok(Some(top))) if top == vec![1u8] => {}
                        other => bad.push(format!("flag {:02x} input {}: interpreter {:?}", flag, n_in, other.map(|r| r.map_err(|e| e.to_string())))),
                    }
                    // the same signature under another flag byte must not unlock
                    let other_flag = if flag == 0x41 { 0xc1 } else { 0x41 };
                    let mut forged = bytes.clone();
                    *forged.last_mut().unwrap() = other_flag;
                    let forged_script = Script::from_asm_string(&format!("{} {}", hex::encode(&forged), hex::encode(&pkb))).unwrap();
                    let mut tx3 = tx.clone();
                    let mut txin = tx3.get_input(n_in).unwrap();
                    txin.set_unlocking_script(&forged_script);
                    tx3.set_input(n_in, &txin);
                    let run = no_panic(|| {
                        let mut interp = Interpreter::from_transaction(&tx3, n_in).unwrap();
                        interp.run().map(|_| interp.state().stack().last().cloned())
                    });
                    if let Ok(Ok(Some(top))) = &run {
                        if top == &vec![1u8] {
                            bad.push(format!("flag {:02x}: signature accepted under flag {:02x}", flag, other_flag));
                        }
                    }
                    if run.is_err() {
                        bad.push(format!("flag {:02x}: interpreter panicked on a re-flagged signature", flag));
                    }
                }
            }
        }
    }
    bad.sort();
    bad.dedup();
    assert!(bad.is_empty(), "{:#?}", bad);
}

// ---------------------------------------------------------------------------------------------
// E15 degenerate point arithmetic inside recovery: sR = -zG (a doubling inside the subtraction), sR = zG (no key),
//     R = +-G, R = +-Q, and a random mass comparison with the reference recovery
// ---------------------------------------------------------------------------------------------
#[test]
fn e15_degenerate_and_random_recovery() {
    let n = N();
    let mut bad = vec![];
    let mut stats = [0usize; 4];
    for k in [one(), BigUint::from(2u8), BigUint::from(5u8), &n - one(), from_b(&sha256(b"kk")) % &n] {
        let R = pt_mul(&k, &G()).unwrap();
        let r = &R.0 % &n;
        for zb in [sha256(b"z1"), sha256(b"z2"), vec![0xff; 32]] {
            let mut z_bytes = [0u8; 32];
            z_bytes.copy_from_slice(&zb);
            let z = from_b(&z_bytes) % &n;
            let k_inv = inv_mod(&k, &n);
            // s = -z/k : sR = -zG
            let s1 = (&n - &z) * &k_inv % &n;
            // s = z/k : sR = zG (point at infinity: there is no key)
            let s2 = &z * &k_inv % &n;
            // s = (z + r) / k : signer is G itself (d = 1); s = (z + r k)/k: signer Q = R
            let s3 = (&z + &r) * &k_inv % &n;
            let s4 = (&z + &r * &k) * &k_inv % &n;
            for s in [s1, s2, s3, s4] {
                if s == zero() {
                    continue;
                }
                compare_recovery(&r, &s, &z_bytes, &mut bad, &mut stats);
            }
        }
    }
    // random mass comparison
    for i in 0..150u32 {
        let r = from_b(&sha256(&[b"r".as_slice(), &i.to_le_bytes()].concat())) % (&n - one()) + one();
        let s = from_b(&sha256(&[b"s".as_slice(), &i.to_le_bytes()].concat())) % (&n - one()) + one();
        let mut z = [0u8; 32];
        z.copy_from_slice(&sha256(&[b"z".as_slice(), &i.to_le_bytes()].concat()));
        compare_recovery(&r, &s, &z, &mut bad, &mut stats);
    }
    println!("e15: recovered per id {:?}", stats);
    for b in bad.iter().take(20) {
        println!("  {}", b);
    }
    assert!(bad.is_empty(), "{} differences", bad.len());
}

// ---------------------------------------------------------------------------------------------
// E16 text forms: hex of DER in either case; whitespace, prefixes and odd lengths are refused, never a panic
// ---------------------------------------------------------------------------------------------
#[test]
fn e16_hex_forms() {
    let (rb, sb) = (b32(&big("f122334455667788990011223344556677889900112233445566778899001141")), b32(&big("abcdef0123456789abcdef0123456789abcdef0123456789abcdef0123456741")));
    let der = der_ref(&rb, &sb);
    let lower = hex::encode(&der);
    let upper = lower.to_uppercase();
    for h in [&lower, &upper] {
        let s = Signature::from_hex_der(h).unwrap();
        assert_eq!((s.r(), s.s()), (rb.to_vec(), sb.to_vec()));
        assert_eq!(s.to_der_hex(), lower);
    }
    for bad in [format!("0x{}", lower), format!(" {}", lower), format!("{} ", lower), lower[1..].to_string(), format!("{}4", lower), "".to_string(), "zz".to_string()] {
        assert!(matches!(no_panic(|| Signature::from_hex_der(&bad).is_err()), Ok(true)), "from_hex_der({:?})", bad);
    }
    // with a flag, both cases
    for flag in FLAGS {
        let h = format!("{}{:02X}", upper, flag);
        let s = Signature::from_hex_der(&h).unwrap();
        assert_eq!((s.r(), s.s()), (rb.to_vec(), sb.to_vec()));
    }
}

// ---------------------------------------------------------------------------------------------
// E17 observations (printed, not asserted): recovery data of signatures that never had any; SigHash in serde forms
// ---------------------------------------------------------------------------------------------
#[test]
fn e17_observations() {
    let key = PrivateKey::from_bytes(&b32(&big("1234567890abcdef"))).unwrap();
    let sig = key.sign_message(b"obs").unwrap();
    let compact = sig.to_compact_bytes(None);
    let via_der = Signature::from_der(&sig.to_der_bytes()).unwrap();
    println!("e17: produced header {} ; after a DER round trip to_compact_bytes(None) writes header {}", compact[0], via_der.to_compact_bytes(None)[0]);
    println!("e17: recover on a DER-read signature: {:?}", via_der.recover_public_key(b"obs", SigningHash::Sha256).map(|k| k.to_hex().unwrap()).map_err(|e| e.to_string()));
    for flag in [SigHash::ALL, SigHash::InputsOutputs, SigHash::FORKID] {
        let json = serde_json::to_string(&flag);
        println!("e17: serde_json of SigHash::{:?} = {:?}", flag, json);
        if let Ok(j) = json {
            println!("e17:    read back as {:?}", serde_json::from_str::<SigHash>(&j));
        }
    }
}

// ---------------------------------------------------------------------------------------------
// E18 OP_CHECKSIG never accepts a malformed signature item (every malformed DER case followed by the flag that was signed,
//     the compact form, a good DER with the flag byte repeated or missing) and never panics on one
// ---------------------------------------------------------------------------------------------
#[test]
fn e18_checksig_refuses_malformed_items() {
    let key = PrivateKey::from_bytes(&b32(&big("c0ffee"))).unwrap();
    let pubkey = key.to_public_key().unwrap();
    let pkb = pubkey.to_bytes().unwrap();
    let locking = P2PKHAddress::from_pubkey(&pubkey).unwrap().get_locking_script().unwrap();
    let mut tx = Transaction::new(1, 0);
    let mut txin = TxIn::new(&[9u8; 32], 0, &Script::default(), None);
    txin.set_satoshis(700);
    txin.set_locking_script(&locking);
    tx.add_input(&txin);
    tx.add_output(&TxOut::new(600, &locking));
    let good = tx.sign(&key, SigHash::InputsOutputs, 0, &locking, 700).unwrap().to_bytes().unwrap();
    let compact_sig = {
        let (r, s, _) = flagged_ref(&good).unwrap();
        compact_ref(0, true, &b32(&r), &b32(&s))
    };
    let run = |item: &[u8]| -> Result<bool, String> {
        let mut script_bytes = Script::encode_pushdata(item).unwrap();
        script_bytes.extend(Script::encode_pushdata(&pkb).unwrap());
        let unlocking = Script::from_bytes(&script_bytes).map_err(|e| e.to_string())?;
        let mut tx2 = tx.clone();
        let mut txin = tx2.get_input(0).unwrap();
        txin.set_unlocking_script(&unlocking);
        tx2.set_input(0, &txin);
        no_panic(|| {
            let mut interp = Interpreter::from_transaction(&tx2, 0).unwrap();
            match interp.run() {
                Ok(_) => interp.state().stack().last().map(|t| t == &vec![1u8]).unwrap_or(false),
                Err(_) => false,
            }
        })
        .map_err(|p| format!("PANIC {}", p))
    };
    assert_eq!(run(&good), Ok(true), "the good signature must unlock");
    let mut bad = vec![];
    let mut items: Vec<(String, Vec<u8>)> = malformed_cases()
        .into_iter()
        .filter(|(_, b)| !b.is_empty())
        .map(|(n, mut b)| {
            b.push(0x41);
            (n, b)
        })
        .collect();
    items.push(("good without flag".into(), good[..good.len() - 1].to_vec()));
    items.push(("good with flag twice".into(), [good.as_slice(), &[0x41]].concat()));
    items.push(("compact".into(), compact_sig.clone()));
    items.push(("compact + flag".into(), [compact_sig.as_slice(), &[0x41]].concat()));
    items.push(("flag only".into(), vec![0x41]));
    // high-s twin of the good signature (valid ECDSA, refused by the low-s rule of the verifier: either outcome is recorded)
    let (r, s, _) = flagged_ref(&good).unwrap();
    let mut high = der_ref(&b32(&r), &b32(&(N() - &s)));
    high.push(0x41);
    println!("e18: high-s twin unlocks: {:?}", run(&high));
    for (name, item) in items {
        if flagged_ref(&item).is_some() {
            continue; // a well-formed item (cannot be the signature of this key, but not a malformed one)
        }
        match run(&item) {
            Ok(false) => {}
            Ok(true) => bad.push(format!("[{}] accepted: {}", name, hex::encode(&item))),
            Err(p) => bad.push(format!("[{}] {}", name, p)),
        }
    }
    assert!(bad.is_empty(), "{:#?}", bad);
}

// ---------------------------------------------------------------------------------------------
// E19 keys that reach the signer through other routes: WIF (both forms), extended keys; the marker follows the key form
// ---------------------------------------------------------------------------------------------
#[test]
fn e19_keys_from_wif_and_xprv() {
    let mut bad = vec![];
    // well known pair (Bitcoin wiki): 0C28FCA3... in uncompressed and compressed WIF
    let secret = big("0c28fca386c7a227600b2fe50b7cae11ec86d3bf1fbe471be89827e19d72aa1d");
    for (wif, compressed) in [("5HueCGU8rMjxEXxiPuD5BDku4MkFqeZyd4dZ1jvhTVqvbTLvyTJ", false), ("KwdMAjGmerYanjeui5SHS7JkmpZvVipYvB2LJGU1ZxJwYvP98617", true)] {
        let key = PrivateKey::from_wif(wif).unwrap();
        assert_eq!(from_b(&key.to_bytes()), secret);
        let msg = b"wif route";
        let sig = BSM::sign_message(&key, msg).unwrap();
        let mut magic = vec![24u8];
        magic.extend_from_slice(b"Bitcoin Signed Message:\n");
        magic.push(msg.len() as u8);
        magic.extend_from_slice(msg);
        bad.extend(check_produced(&sig, &key, compressed, &sha256d(&magic), wif, &|s| s.recover_public_key(&magic, SigningHash::Sha256d)));
        // and through the WIF string again
        let key2 = PrivateKey::from_wif(&key.to_wif().unwrap()).unwrap();
        let sig2 = BSM::sign_message(&key2, msg).unwrap();
        if sig2.to_compact_bytes(None) != sig.to_compact_bytes(None) {
            bad.push("WIF round trip changes the compact signature".to_string());
        }
    }
    let xprv = ExtendedPrivateKey::from_seed(&[7u8; 32]).unwrap();
    for path in ["m/0", "m/44'/0'/0'/0/5"] {
        let child = xprv.derive_from_path(path).unwrap();
        let key = child.get_private_key();
        let sig = key.sign_message(b"xprv").unwrap();
        bad.extend(check_produced(&sig, &key, true, &sha256(b"xprv"), path, &|s| s.recover_public_key(b"xprv", SigningHash::Sha256)));
        match sig.recover_public_key(b"xprv", SigningHash::Sha256) {
            Ok(pk) if pk == child.get_public_key() => {}
            other => bad.push(format!("{}: recovered {:?}, extended key says {}", path, other.map(|k| k.to_hex().unwrap()).map_err(|e| e.to_string()), child.get_public_key().to_hex().unwrap())),
        }
    }
    assert!(bad.is_empty(), "{:#?}", bad);
}

// ---------------------------------------------------------------------------------------------
// E20 random multi-byte mutations and random structured encodings (lengths, padding, sign bits chosen at random),
//     readers compared with the reference readers
// ---------------------------------------------------------------------------------------------
#[test]
fn e20_random_structured_der() {
    let mut state: u64 = 0x9e3779b97f4a7c15;
    let mut next = move || {
        state ^= state << 13;
        state ^= state >> 7;
        state ^= state << 17;
        state
    };
    let mut bad = vec![];
    let mut accepted = 0usize;
    let total = 120_000usize;
    for _ in 0..total {
        // random INTEGER bodies of random length with random leading bytes
        let mut ints: Vec<Vec<u8>> = vec![];
        for _ in 0..2 {
            let len = match next() % 10 {
                0 => 0,
                1 => 1,
                2 => 31,
                3 | 4 | 5 => 32,
                6 | 7 => 33,
                8 => 34,
                _ => (next() % 36) as usize,
            };
            let mut body: Vec<u8> = (0..len).map(|_| next() as u8).collect();
            if len > 0 {
                match next() % 6 {
                    0 => body[0] = 0,
                    1 => body[0] = 0x7f,
                    2 => body[0] = 0x80,
                    3 => body[0] = 0xff,
                    _ => {}
                }
                if len > 1 && next() % 4 == 0 {
                    body[1] = if next() % 2 == 0 { 0x80 | (next() as u8) } else { 0x7f & (next() as u8) };
                }
                if next() % 5 == 0 {
                    *body.last_mut().unwrap() = FLAGS[(next() % 14) as usize];
                }
            }
            ints.push(body);
        }
        let mut body = vec![];
        for i in &ints {
            body.push(if next() % 40 == 0 { next() as u8 } else { 0x02 });
            body.push(if next() % 30 == 0 { next() as u8 } else { i.len() as u8 });
            body.extend_from_slice(i);
        }
        let mut v = vec![if next() % 40 == 0 { next() as u8 } else { 0x30 }];
        v.push(if next() % 20 == 0 { next() as u8 } else { body.len() as u8 });
        v.extend(body);
        match next() % 6 {
            0 => v.push(FLAGS[(next() % 14) as usize]),
            1 => {
                v.push(FLAGS[(next() % 14) as usize]);
                v.push(FLAGS[(next() % 14) as usize]);
            }
            2 => v.push(next() as u8),
            _ => {}
        }
        if lenient_ref(&v).is_some() {
            accepted += 1;
        }
        bad.extend(check_readers("random", &v));
    }
    println!("e20: {} inputs, {} of them acceptable to the reference lenient reader", total, accepted);
    for b in bad.iter().take(20) {
        println!("  {}", b);
    }
    assert!(accepted > 1000);
    assert!(bad.is_empty(), "{} differences", bad.len());
}
