// C06 hunt: signature encodings (DER, DER+flag, compact) round-trip; recovery finds signer.
//
// Oracles: a tiny secp256k1 reference written here with num-bigint (affine arithmetic),
// a hand-written DER encoder, and SHA-256 from the sha2 crate.  The library's own output is never
// used as its own expected value.
#![allow(non_snake_case)]

use bsv::*;
use num_bigint::BigUint;
use num_traits::{One, Zero};
use sha2::{Digest as _, Sha256};

// ---------------------------------------------------------------------------------------------
// reference implementation
// ---------------------------------------------------------------------------------------------

type Pt = Option<(BigUint, BigUint)>;

fn hx(s: &str) -> BigUint {
    BigUint::parse_bytes(s.as_bytes(), 16).unwrap()
}

struct Curve {
    p: BigUint,
    n: BigUint,
    g: Pt,
}

impl Curve {
    fn new() -> Curve {
        Curve {
            p: hx("FFFFFFFFFFFFFFFFFFFFFFFFFFFFFFFFFFFFFFFFFFFFFFFFFFFFFFFEFFFFFC2F"),
            n: hx("FFFFFFFFFFFFFFFFFFFFFFFFFFFFFFFEBAAEDCE6AF48A03BBFD25E8CD0364141"),
            g: Some((
                hx("79BE667EF9DCBBAC55A06295CE870B07029BFCDB2DCE28D959F2815B16F81798"),
                hx("483ADA7726A3C4655DA4FBFC0E1108A8FD17B448A68554199C47D08FFB10D4B8"),
            )),
        }
    }

    fn inv(&self, a: &BigUint, m: &BigUint) -> BigUint {
        a.modpow(&(m - 2u32), m)
    }

    fn fsub(&self, a: &BigUint, b: &BigUint) -> BigUint {
        ((a % &self.p) + &self.p - (b % &self.p)) % &self.p
    }

    fn neg(&self, a: &Pt) -> Pt {
        a.as_ref().map(|(x, y)| (x.clone(), (&self.p - y) % &self.p))
    }

    fn add(&self, a: &Pt, b: &Pt) -> Pt {
        let (x1, y1) = match a {
            None => return b.clone(),
            Some(v) => v,
        };
        let (x2, y2) = match b {
            None => return a.clone(),
            Some(v) => v,
        };
        let lambda = if x1 == x2 {
            if (y1 + y2) % &self.p == BigUint::zero() {
                return None;
            }
            // doubling
            let num = (BigUint::from(3u32) * x1 * x1) % &self.p;
            let den = self.inv(&((BigUint::from(2u32) * y1) % &self.p), &self.p);
            (num * den) % &self.p
        } else {
            let num = self.fsub(y2, y1);
            let den = self.inv(&self.fsub(x2, x1), &self.p);
            (num * den) % &self.p
        };
        let x3 = self.fsub(&self.fsub(&((&lambda * &lambda) % &self.p), x1), x2);
        let y3 = self.fsub(&((&lambda * self.fsub(x1, &x3)) % &self.p), y1);
        Some((x3, y3))
    }

    fn mul(&self, k: &BigUint, a: &Pt) -> Pt {
        let mut acc: Pt = None;
        let mut addend = a.clone();
        let bits = k.bits();
        for i in 0..bits {
            if k.bit(i) {
                acc = self.add(&acc, &addend);
            }
            addend = self.add(&addend, &addend);
        }
        acc
    }

    fn lift_x(&self, x: &BigUint, odd: bool) -> Pt {
        if x >= &self.p {
            return None;
        }
        let rhs = (x * x * x + BigUint::from(7u32)) % &self.p;
        let y = rhs.modpow(&((&self.p + 1u32) >> 2), &self.p);
        if (&y * &y) % &self.p != rhs {
            return None;
        }
        let y = if y.bit(0) == odd { y } else { &self.p - y };
        Some((x.clone(), y))
    }

    fn pubkey(&self, d: &BigUint) -> Pt {
        self.mul(d, &self.g)
    }

    fn verify(&self, q: &Pt, z: &BigUint, r: &BigUint, s: &BigUint) -> bool {
        if r.is_zero() || s.is_zero() || r >= &self.n || s >= &self.n {
            return false;
        }
        let w = self.inv(s, &self.n);
        let u1 = (z % &self.n) * &w % &self.n;
        let u2 = r * &w % &self.n;
        match self.add(&self.mul(&u1, &self.g), &self.mul(&u2, q)) {
            None => false,
            Some((x, _)) => &(x % &self.n) == r,
        }
    }

    /// SEC1 4.1.6 public key recovery.  recid bit 0: R.y is odd, bit 1: R.x = r + n.
    fn recover(&self, r: &BigUint, s: &BigUint, z: &BigUint, recid: u8) -> Pt {
        let x = if recid & 2 != 0 { r + &self.n } else { r.clone() };
        let R = self.lift_x(&x, recid & 1 != 0);
        R.as_ref()?;
        let rinv = self.inv(r, &self.n);
        let u2 = (&rinv * s) % &self.n;
        let u1 = (&rinv * (&self.n - (z % &self.n))) % &self.n;
        self.add(&self.mul(&u1, &self.g), &self.mul(&u2, &R))
    }
}

fn be32(v: &BigUint) -> Vec<u8> {
    let b = v.to_bytes_be();
    assert!(b.len() <= 32);
    let mut out = vec![0u8; 32 - b.len()];
    out.extend_from_slice(&b);
    out
}

fn sec1(q: &Pt, compressed: bool) -> Vec<u8> {
    let (x, y) = q.as_ref().unwrap();
    if compressed {
        let mut out = vec![if y.bit(0) { 3u8 } else { 2u8 }];
        out.extend(be32(x));
        out
    } else {
        let mut out = vec![4u8];
        out.extend(be32(x));
        out.extend(be32(y));
        out
    }
}

fn der_int(v: &BigUint) -> Vec<u8> {
    let mut b = v.to_bytes_be(); // [0] for zero
    if b[0] & 0x80 != 0 {
        b.insert(0, 0);
    }
    let mut out = vec![0x02, b.len() as u8];
    out.extend(b);
    out
}

fn der_sig(r: &BigUint, s: &BigUint) -> Vec<u8> {
    let mut body = der_int(r);
    body.extend(der_int(s));
    assert!(body.len() < 0x80);
    let mut out = vec![0x30, body.len() as u8];
    out.extend(body);
    out
}

fn sha256(data: &[u8]) -> Vec<u8> {
    Sha256::digest(data).to_vec()
}

fn sha256d(data: &[u8]) -> Vec<u8> {
    sha256(&sha256(data))
}

fn big(b: &[u8]) -> BigUint {
    BigUint::from_bytes_be(b)
}

/// deterministic pseudo random bytes
fn prng(seed: &str, i: u64) -> Vec<u8> {
    let mut v = seed.as_bytes().to_vec();
    v.extend_from_slice(&i.to_be_bytes());
    sha256(&v)
}

const FLAGS: [u8; 14] = [0x40, 0x01, 0x02, 0x03, 0x80, 0x41, 0x42, 0x43, 0xc1, 0xc2, 0xc3, 0x81, 0x82, 0x83];

fn compact(header: u8, r: &BigUint, s: &BigUint) -> Vec<u8> {
    let mut v = vec![header];
    v.extend(be32(r));
    v.extend(be32(s));
    v
}

fn boundary_scalars(c: &Curve) -> Vec<BigUint> {
    let one = BigUint::one();
    vec![
        one.clone(),
        BigUint::from(0x7fu32),
        BigUint::from(0x80u32),
        BigUint::from(0xffu32),
        BigUint::from(0x100u32),
        BigUint::from(0x8000u32),
        (&one << 247) - 1u32,
        &one << 247,
        (&one << 248) - 1u32,
        &one << 248,
        (&one << 255) - 1u32,
        &one << 255,
        (&c.n - 1u32) >> 1,
        ((&c.n - 1u32) >> 1) + 1u32,
        &c.n - 2u32,
        &c.n - 1u32,
    ]
}

// ---------------------------------------------------------------------------------------------
// sanity of the reference itself (known vector: private key 1 -> G, 2 -> 2G)
// ---------------------------------------------------------------------------------------------

#[test]
fn e00_reference_self_check() {
    let c = Curve::new();
    let two_g = c.pubkey(&BigUint::from(2u32)).unwrap();
    assert_eq!(two_g.0, hx("C6047F9441ED7D6D3045406E95C07CD85C778E4B8CEF3CA7ABAC09B95C709EE5"));
    assert_eq!(two_g.1, hx("1AE168FEA63DC339A3C58419466CEAEEF7F632653266D0E1236431A950CFE52A"));
    // n*G = infinity
    assert!(c.mul(&c.n, &c.g).is_none());
    // sign by hand and verify + recover by hand
    let d = hx("1234567890abcdef1234567890abcdef1234567890abcdef1234567890abcdef");
    let k = hx("0fedcba987654321");
    let z = big(&sha256(b"abc"));
    let R = c.mul(&k, &c.g).unwrap();
    let r = &R.0 % &c.n;
    let s = c.inv(&k, &c.n) * ((&z + &r * &d) % &c.n) % &c.n;
    let q = c.pubkey(&d);
    assert!(c.verify(&q, &z, &r, &s));
    assert_eq!(c.recover(&r, &s, &z, R.1.bit(0) as u8), q);
}

// ---------------------------------------------------------------------------------------------
// E01: DER round trip over boundary (r, s)
// ---------------------------------------------------------------------------------------------

#[test]
fn e01_der_roundtrip_boundary_pairs() {
    let c = Curve::new();
    let vals = boundary_scalars(&c);
    for r in &vals {
        for s in &vals {
            let d = der_sig(r, s);
            let sig = Signature::from_der(&d).unwrap_or_else(|e| panic!("from_der {} failed: {:?}", hex::encode(&d), e));
            assert_eq!(sig.r(), be32(r));
            assert_eq!(sig.s(), be32(s));
            assert_eq!(sig.r_hex(), hex::encode(be32(r)));
            assert_eq!(sig.s_hex(), hex::encode(be32(s)));
            assert_eq!(sig.to_der_bytes(), d);
            assert_eq!(sig.to_der_hex(), hex::encode(&d));
            let sig2 = Signature::from_hex_der(&hex::encode_upper(&d)).unwrap();
            assert_eq!(sig2.to_der_bytes(), d);
            // compact built from the same pair: DER of it must be the same
            let cs = Signature::from_compact_bytes(&compact(27, r, s)).unwrap();
            assert_eq!(cs.to_der_bytes(), d);
        }
    }
}

// ---------------------------------------------------------------------------------------------
// E02: DER (+flag) where the final DER byte equals each flag value, all 14 suffix flags
// ---------------------------------------------------------------------------------------------

fn flag_ending_scalars(c: &Curve) -> Vec<BigUint> {
    let mut out = vec![];
    for f in FLAGS {
        out.push(BigUint::from(f)); // one byte s == flag (0x80.. get a pad byte)
        out.push(BigUint::from(0x0100u32 + f as u32));
        out.push((BigUint::one() << 255) + BigUint::from(f)); // 33 byte integer, high
        out.push((BigUint::one() << 254) + BigUint::from(f)); // 32 byte integer, low
        out.push((BigUint::one() << 200) + BigUint::from(f)); // short
    }
    // n - 1 ends in 0x40 (a flag), (n-1)/2 = ...a0 (not a flag)
    out.push(&c.n - 1u32);
    out
}

#[test]
fn e02_der_final_byte_equals_flag_plain_and_suffixed() {
    let c = Curve::new();
    let rs = vec![BigUint::one(), (BigUint::one() << 255) + 5u32, (BigUint::one() << 254) + 0x41u32, &c.n - 1u32];
    let ss = flag_ending_scalars(&c);
    let mut lens = std::collections::BTreeSet::new();
    for r in &rs {
        for s in &ss {
            let d = der_sig(r, s);
            lens.insert(d.len());
            // plain
            let sig = Signature::from_der(&d).unwrap();
            assert_eq!((sig.r(), sig.s()), (be32(r), be32(s)), "plain {}", hex::encode(&d));
            assert_eq!(sig.to_der_bytes(), d);
            for f in FLAGS {
                let mut df = d.clone();
                df.push(f);
                let sig = Signature::from_der(&df).unwrap_or_else(|e| panic!("from_der {} failed {:?}", hex::encode(&df), e));
                assert_eq!((sig.r(), sig.s()), (be32(r), be32(s)), "suffixed {}", hex::encode(&df));
                let sig = Signature::from_hex_der(&hex::encode(&df)).unwrap();
                assert_eq!((sig.r(), sig.s()), (be32(r), be32(s)));
                // DER + flag parser
                let ss = SighashSignature::from_bytes(&df, b"buffer").unwrap_or_else(|e| panic!("SighashSignature::from_bytes {} failed {:?}", hex::encode(&df), e));
                assert_eq!(ss.to_bytes().unwrap(), df, "sighash sig round trip");
                assert_eq!(ss.to_hex().unwrap(), hex::encode(&df));
            }
        }
    }
    // both the longest (72) and short encodings were covered
    assert!(lens.contains(&72) && lens.contains(&71) && lens.contains(&70) && lens.contains(&8), "{:?}", lens);
}

// E03: SighashSignature::new(sig, flag, ..).to_bytes() is DER || flag by the hand encoder
#[test]
fn e03_sighash_signature_new_serialises_der_plus_flag() {
    let c = Curve::new();
    let flags = [
        (SigHash::FORKID, 0x40u8),
        (SigHash::ALL, 0x01),
        (SigHash::NONE, 0x02),
        (SigHash::SINGLE, 0x03),
        (SigHash::ANYONECANPAY, 0x80),
        (SigHash::InputsOutputs, 0x41),
        (SigHash::Inputs, 0x42),
        (SigHash::InputsOutput, 0x43),
        (SigHash::InputOutputs, 0xc1),
        (SigHash::Input, 0xc2),
        (SigHash::InputOutput, 0xc3),
        (SigHash::Legacy_InputOutputs, 0x81),
        (SigHash::Legacy_Input, 0x82),
        (SigHash::Legacy_InputOutput, 0x83),
    ];
    for s in flag_ending_scalars(&c) {
        let r = (BigUint::one() << 255) + 0x43u32;
        let sig = Signature::from_compact_bytes(&compact(31, &r, &s)).unwrap();
        for (flag, byte) in flags {
            let mut expected = der_sig(&r, &s);
            expected.push(byte);
            let ss = SighashSignature::new(&sig, flag, b"x");
            assert_eq!(ss.to_bytes().unwrap(), expected);
            let back = SighashSignature::from_bytes(&expected, b"x").unwrap();
            assert_eq!(back.to_bytes().unwrap(), expected);
        }
    }
}

// ---------------------------------------------------------------------------------------------
// E04: compact round trip, all 8 headers x boundary pairs
// ---------------------------------------------------------------------------------------------

#[test]
fn e04_compact_roundtrip_all_headers() {
    let c = Curve::new();
    let vals = boundary_scalars(&c);
    for header in 27u8..=34 {
        for r in &vals {
            for s in &vals {
                let bytes = compact(header, r, s);
                let sig = Signature::from_compact_bytes(&bytes).unwrap();
                assert_eq!(sig.r(), be32(r));
                assert_eq!(sig.s(), be32(s));
                assert_eq!(sig.to_compact_bytes(None), bytes, "header {}", header);
                assert_eq!(sig.to_compact_hex(None), hex::encode(&bytes));
                // parse again from what was written
                let again = Signature::from_compact_bytes(&sig.to_compact_bytes(None)).unwrap();
                assert_eq!(again, sig);
            }
        }
    }
}

// E05: header byte arithmetic by the Bitcoin convention 27 + recid (+4 when compressed), with explicit RecoveryInfo
#[test]
fn e05_compact_header_from_recovery_info() {
    let r = BigUint::from(0x1234u32);
    let s = BigUint::from(0x5678u32);
    let base = Signature::from_der(&der_sig(&r, &s)).unwrap();
    for y_odd in [false, true] {
        for x_red in [false, true] {
            for comp in [false, true] {
                let expected_header = 27 + (y_odd as u8) + 2 * (x_red as u8) + 4 * (comp as u8);
                let bytes = base.to_compact_bytes(Some(RecoveryInfo::new(y_odd, x_red, comp)));
                assert_eq!(bytes, compact(expected_header, &r, &s));
                let parsed = Signature::from_compact_bytes(&bytes).unwrap();
                // the parsed signature carries the same info: re-serialising without info gives the same header
                assert_eq!(parsed.to_compact_bytes(None), bytes);
                // an explicit info overrides a stored one
                let other = parsed.to_compact_bytes(Some(RecoveryInfo::new(!y_odd, x_red, !comp)));
                assert_eq!(other[0], 27 + (!y_odd as u8) + 2 * (x_red as u8) + 4 * (!comp as u8));
                // from_byte agrees with new
                assert_eq!(RecoveryInfo::from_byte((y_odd as u8) | ((x_red as u8) << 1), comp), RecoveryInfo::new(y_odd, x_red, comp));
            }
        }
    }
}

// E06: malformed compact input rejected, never a panic
#[test]
fn e06_compact_rejects() {
    let c = Curve::new();
    let one = BigUint::one();
    let good = compact(31, &one, &one);
    assert!(Signature::from_compact_bytes(&good).is_ok());
    for len in [0usize, 1, 33, 64, 66, 130] {
        let mut v = good.clone();
        v.resize(len, 1);
        assert!(Signature::from_compact_bytes(&v).is_err(), "len {}", len);
    }
    for header in (0u8..27).chain(35u8..=255) {
        let mut v = good.clone();
        v[0] = header;
        assert!(Signature::from_compact_bytes(&v).is_err(), "header {}", header);
    }
    let zero = BigUint::zero();
    let max = (BigUint::one() << 256) - 1u32;
    let bad = [zero, c.n.clone(), &c.n + 1u32, c.p.clone(), max];
    for header in 27u8..=34 {
        for b in &bad {
            assert!(Signature::from_compact_bytes(&compact(header, b, &one)).is_err(), "r={:x}", b);
            assert!(Signature::from_compact_bytes(&compact(header, &one, b)).is_err(), "s={:x}", b);
        }
    }
}

// ---------------------------------------------------------------------------------------------
// E07: malformed DER rejected (with and without a flag appended)
// ---------------------------------------------------------------------------------------------

fn malformed_ders(c: &Curve) -> Vec<(String, Vec<u8>)> {
    let one = BigUint::one();
    let r = (BigUint::one() << 255) + 0x17u32;
    let s = (BigUint::one() << 254) + 0x19u32;
    let good = der_sig(&r, &s);
    let mut out: Vec<(String, Vec<u8>)> = vec![];
    // every strict prefix
    for i in 0..good.len() {
        out.push((format!("prefix {}", i), good[..i].to_vec()));
    }
    // sequence length off by +-1, +-2
    for delta in [-2i32, -1, 1, 2] {
        let mut v = good.clone();
        v[1] = (v[1] as i32 + delta) as u8;
        out.push((format!("seq len {:+}", delta), v));
    }
    // r length off by +-1
    for delta in [-1i32, 1] {
        let mut v = good.clone();
        v[3] = (v[3] as i32 + delta) as u8;
        out.push((format!("r len {:+}", delta), v));
    }
    // s length off by +-1
    let s_len_pos = 4 + good[3] as usize + 1;
    for delta in [-1i32, 1] {
        let mut v = good.clone();
        v[s_len_pos] = (v[s_len_pos] as i32 + delta) as u8;
        out.push((format!("s len {:+}", delta), v));
    }
    // trailing bytes that are not a flag, inside and outside the sequence
    for t in [0x00u8, 0x04, 0x05, 0x30, 0x44, 0x84, 0xff, 0xc0, 0xc4] {
        let mut v = good.clone();
        v.push(t);
        out.push((format!("trailing {:02x}", t), v));
        let mut v = good.clone();
        v.push(t);
        v[1] += 1;
        out.push((format!("trailing inside seq {:02x}", t), v));
    }
    // trailing flag that is counted inside the sequence
    for f in FLAGS {
        let mut v = good.clone();
        v.push(f);
        v[1] += 1;
        out.push((format!("flag inside seq {:02x}", f), v));
    }
    // zero / out of range
    let zero = BigUint::zero();
    for (name, bad) in [("zero", zero.clone()), ("n", c.n.clone()), ("n+1", &c.n + 1u32), ("p", c.p.clone()), ("2^256-1", (BigUint::one() << 256) - 1u32)] {
        out.push((format!("r = {}", name), der_sig(&bad, &one)));
        out.push((format!("s = {}", name), der_sig(&one, &bad)));
    }
    // 2^256 (33 significant bytes)
    out.push(("r = 2^256".into(), der_sig(&(BigUint::one() << 256), &one)));
    out.push(("s = 2^256".into(), der_sig(&one, &(BigUint::one() << 256))));
    // empty integers
    out.push(("empty r".into(), vec![0x30, 0x05, 0x02, 0x00, 0x02, 0x01, 0x01]));
    out.push(("empty s".into(), vec![0x30, 0x05, 0x02, 0x01, 0x01, 0x02, 0x00]));
    // negative (high bit, no pad) and over-padded integers
    out.push(("negative r".into(), vec![0x30, 0x06, 0x02, 0x01, 0x80, 0x02, 0x01, 0x01]));
    out.push(("negative s".into(), vec![0x30, 0x06, 0x02, 0x01, 0x01, 0x02, 0x01, 0x81]));
    out.push(("padded r".into(), vec![0x30, 0x07, 0x02, 0x02, 0x00, 0x01, 0x02, 0x01, 0x01]));
    out.push(("padded s".into(), vec![0x30, 0x07, 0x02, 0x01, 0x01, 0x02, 0x02, 0x00, 0x01]));
    // long form lengths
    out.push(("long form seq len".into(), vec![0x30, 0x81, 0x06, 0x02, 0x01, 0x01, 0x02, 0x01, 0x01]));
    out.push(("long form int len".into(), vec![0x30, 0x07, 0x02, 0x81, 0x01, 0x01, 0x02, 0x01, 0x01]));
    out.push(("indefinite len".into(), vec![0x30, 0x80, 0x02, 0x01, 0x01, 0x02, 0x01, 0x01, 0x00, 0x00]));
    // wrong tags
    out.push(("tag 31".into(), vec![0x31, 0x06, 0x02, 0x01, 0x01, 0x02, 0x01, 0x01]));
    out.push(("int tag 03".into(), vec![0x30, 0x06, 0x03, 0x01, 0x01, 0x02, 0x01, 0x01]));
    out.push(("int tag 03 s".into(), vec![0x30, 0x06, 0x02, 0x01, 0x01, 0x03, 0x01, 0x01]));
    // a third integer
    out.push(("three ints".into(), vec![0x30, 0x09, 0x02, 0x01, 0x01, 0x02, 0x01, 0x01, 0x02, 0x01, 0x01]));
    // one integer
    out.push(("one int".into(), vec![0x30, 0x03, 0x02, 0x01, 0x01]));
    // garbage
    out.push(("only flags".into(), vec![0x41, 0x41]));
    out.push(("single flag".into(), vec![0x41]));
    out
}

#[test]
fn e07_malformed_der_rejected_by_signature_from_der() {
    let c = Curve::new();
    for (name, bytes) in malformed_ders(&c) {
        assert!(Signature::from_der(&bytes).is_err(), "{}: {} accepted", name, hex::encode(&bytes));
        assert!(Signature::from_hex_der(&hex::encode(&bytes)).is_err());
        // a prefix missing exactly its last byte, completed by a flag byte, is simply another valid DER
        // signature (s ends in the flag value): not malformed, skip it here
        if name == "prefix 70" {
            continue;
        }
        for f in FLAGS {
            let mut v = bytes.clone();
            v.push(f);
            assert!(Signature::from_der(&v).is_err(), "{} + flag {:02x}: {} accepted", name, f, hex::encode(&v));
            assert!(SighashSignature::from_bytes(&v, b"").is_err(), "{} + flag {:02x}: {} accepted by SighashSignature", name, f, hex::encode(&v));
        }
    }
    // two flag bytes after a short valid DER: trailing bytes
    let good = der_sig(&BigUint::from(5u32), &BigUint::from(6u32));
    for f1 in FLAGS {
        for f2 in FLAGS {
            let mut v = good.clone();
            v.push(f1);
            v.push(f2);
            assert!(Signature::from_der(&v).is_err());
            assert!(SighashSignature::from_bytes(&v, b"").is_err());
        }
    }
    // hex: odd length / non hex
    assert!(Signature::from_hex_der("3006020101020101f").is_err());
    assert!(Signature::from_hex_der("zz").is_err());
    assert!(Signature::from_hex_der("").is_err());
    assert!(Signature::from_der(&[]).is_err());
    assert!(SighashSignature::from_bytes(&[], b"").is_err());
}

// E08: Signature::from_der: two flag bytes after DER of every length class (70, 71, 72) are trailing bytes
#[test]
fn e08_signature_from_der_two_trailing_flags_rejected() {
    let hi = (BigUint::one() << 255) + 0x17u32;
    let lo = (BigUint::one() << 254) + 0x19u32;
    for (r, s) in [(&lo, &lo), (&hi, &lo), (&lo, &hi), (&hi, &hi)] {
        let d = der_sig(r, s);
        for f1 in FLAGS {
            for f2 in FLAGS {
                let mut v = d.clone();
                v.push(f1);
                v.push(f2);
                assert!(Signature::from_der(&v).is_err(), "{}", hex::encode(&v));
            }
        }
    }
}

// ---------------------------------------------------------------------------------------------
// VIOLATION A: SighashSignature::from_bytes accepts DER || flag || flag when the total is 73+ bytes
// ---------------------------------------------------------------------------------------------

#[test]
fn violation_sighash_signature_accepts_two_trailing_flag_bytes() {
    // 71 byte DER: r needs a pad byte, s does not (about half of all real signatures)
    let r = (BigUint::one() << 255) + 0x17u32;
    let s = (BigUint::one() << 254) + 0x19u32;
    let d = der_sig(&r, &s);
    assert_eq!(d.len(), 71);
    let mut accepted = vec![];
    for f1 in FLAGS {
        for f2 in FLAGS {
            let mut v = d.clone();
            v.push(f1);
            v.push(f2); // 73 bytes: DER, then TWO bytes
            if let Ok(ss) = SighashSignature::from_bytes(&v, b"") {
                accepted.push((hex::encode(&v), hex::encode(ss.to_bytes().unwrap())));
            }
        }
    }
    // 72 byte DER followed by two flags (74 bytes)
    let s_hi = (BigUint::one() << 255) + 0x19u32;
    let d72 = der_sig(&r, &s_hi);
    assert_eq!(d72.len(), 72);
    let mut v = d72.clone();
    v.push(0x01);
    v.push(0x41);
    if let Ok(ss) = SighashSignature::from_bytes(&v, b"") {
        accepted.push((hex::encode(&v), hex::encode(ss.to_bytes().unwrap())));
    }
    if let Some((input, output)) = accepted.first() {
        println!("{} malformed inputs accepted; first: {} -> re-serialises as {}", accepted.len(), input, output);
    }
    assert!(accepted.is_empty(), "DER followed by two trailing bytes was accepted {} times", accepted.len());
}

// ---------------------------------------------------------------------------------------------
// VIOLATION B: SighashSignature::from_bytes(plain DER, no flag) is accepted iff the final DER byte is flag-valued
// ---------------------------------------------------------------------------------------------

#[test]
fn violation_sighash_signature_outcome_depends_on_final_der_byte() {
    let r = (BigUint::one() << 255) + 0x17u32;
    let mut outcomes = vec![];
    for last in 0u16..=255 {
        let s = (BigUint::one() << 254) + BigUint::from(last);
        let d = der_sig(&r, &s); // a DER signature WITHOUT any sighash flag appended
        let ok = SighashSignature::from_bytes(&d, b"").is_ok();
        outcomes.push((last as u8, ok));
    }
    let accepted: Vec<u8> = outcomes.iter().filter(|(_, ok)| *ok).map(|(b, _)| *b).collect();
    println!("flag-less DER accepted for final bytes {:02x?}", accepted);
    // The input has no flag byte at all: it is not a DER+flag encoding, whatever its last byte is.
    // Whatever decision the parser takes, it must be the same for all 256 final byte values.
    assert!(outcomes.iter().all(|(_, ok)| *ok == outcomes[0].1), "accept/reject depends on the final DER byte: accepted for {:02x?}", accepted);
}

// ---------------------------------------------------------------------------------------------
// E09: library produced signatures: encodings round trip, independent verification, recovery finds signer
// ---------------------------------------------------------------------------------------------

fn check_produced(c: &Curve, key: &PrivateKey, sig: &Signature, z: &BigUint, msg_for_recover: Option<(&[u8], SigningHash)>, digest_for_recover: Option<&[u8]>, ctx: &str) {
    let d = big(&key.to_bytes());
    let q = c.pubkey(&d);
    let compressed = key.to_wif().map(|w| !w.starts_with('5')).unwrap();
    let expected_pk = sec1(&q, compressed);
    assert_eq!(key.to_public_key().unwrap().to_bytes().unwrap(), expected_pk, "{} pubkey", ctx);

    let r = big(&sig.r());
    let s = big(&sig.s());
    // independent verification of (r, s) over z under the independently computed public key
    assert!(c.verify(&q, z, &r, &s), "{}: signature does not verify under reference", ctx);
    // low s
    assert!(s <= (&c.n - 1u32) >> 1, "{} high s", ctx);

    // DER
    let der = sig.to_der_bytes();
    assert_eq!(der, der_sig(&r, &s), "{} der", ctx);
    let back = Signature::from_der(&der).unwrap();
    assert_eq!((back.r(), back.s()), (sig.r(), sig.s()));
    for f in FLAGS {
        let mut v = der.clone();
        v.push(f);
        let back = Signature::from_der(&v).unwrap();
        assert_eq!((back.r(), back.s()), (sig.r(), sig.s()));
        let ss = SighashSignature::from_bytes(&v, b"").unwrap();
        assert_eq!(ss.to_bytes().unwrap(), v);
    }

    // compact: header by independent recovery: which recid recovers q?
    let cb = sig.to_compact_bytes(None);
    assert_eq!(cb.len(), 65);
    assert_eq!(&cb[1..33], &be32(&r)[..]);
    assert_eq!(&cb[33..], &be32(&s)[..]);
    let mut matching = vec![];
    for recid in 0u8..4 {
        if c.recover(&r, &s, z, recid) == q {
            matching.push(recid);
        }
    }
    assert_eq!(matching.len(), 1, "{}: exactly one recid expected", ctx);
    let expected_header = 27 + matching[0] + if compressed { 4 } else { 0 };
    assert_eq!(cb[0], expected_header, "{}: compact header", ctx);
    let parsed = Signature::from_compact_bytes(&cb).unwrap();
    assert_eq!(&parsed, sig, "{}: compact round trip keeps r, s, recovery info", ctx);
    assert_eq!(parsed.to_compact_bytes(None), cb);

    for candidate in [sig, &parsed] {
        if let Some((msg, algo)) = msg_for_recover {
            let pk = candidate.recover_public_key(msg, algo).unwrap();
            assert_eq!(pk.to_bytes().unwrap(), expected_pk, "{}: recovered key", ctx);
            assert_eq!(pk.is_compressed(), compressed);
            // different message: error or a different key
            let mut other = msg.to_vec();
            other.push(0x21);
            match candidate.recover_public_key(&other, algo) {
                Err(_) => {}
                Ok(pk2) => assert_ne!(pk2.to_bytes().unwrap(), expected_pk, "{}: other message recovers signer", ctx),
            }
            // wrong hash algorithm is a different message digest too
            let other_algo = if algo == SigningHash::Sha256 { SigningHash::Sha256d } else { SigningHash::Sha256 };
            match candidate.recover_public_key(msg, other_algo) {
                Err(_) => {}
                Ok(pk2) => assert_ne!(pk2.to_bytes().unwrap(), expected_pk),
            }
        }
        if let Some(digest) = digest_for_recover {
            let pk = candidate.recover_public_key_from_digest(digest).unwrap();
            assert_eq!(pk.to_bytes().unwrap(), expected_pk, "{}: recovered key from digest", ctx);
        }
    }
    // a DER-parsed signature has no recovery info: recovery must fail rather than guess
    assert!(back.recover_public_key(b"x", SigningHash::Sha256).is_err());
    assert!(back.recover_public_key_from_digest(&[1u8; 32]).is_err());
}

fn test_keys(count: u64) -> Vec<PrivateKey> {
    let c = Curve::new();
    let mut keys = vec![];
    // boundary keys
    for d in [BigUint::one(), BigUint::from(2u32), &c.n - 1u32, &c.n - 2u32, (&c.n - 1u32) >> 1] {
        keys.push(PrivateKey::from_bytes(&be32(&d)).unwrap());
    }
    for i in 0..count {
        keys.push(PrivateKey::from_bytes(&prng("key", i)).unwrap());
    }
    // every key in both compression forms; uncompressed through the WIF route for some
    let mut all = vec![];
    for (i, k) in keys.into_iter().enumerate() {
        all.push(k.clone());
        let unc = k.compress_public_key(false);
        if i % 2 == 0 {
            all.push(PrivateKey::from_wif(&unc.to_wif().unwrap()).unwrap());
        } else {
            all.push(unc);
        }
    }
    all
}

#[test]
fn e09_produced_signatures_roundtrip_and_recover() {
    let c = Curve::new();
    let keys = test_keys(6);
    for (ki, key) in keys.iter().enumerate() {
        for mi in 0..2u64 {
            let msg = match mi {
                0 => vec![],
                _ => prng("msg", ki as u64 * 10 + mi),
            };
            let z256 = big(&sha256(&msg));
            let z256d = big(&sha256d(&msg));

            let sig = key.sign_message(&msg).unwrap();
            check_produced(&c, key, &sig, &z256, Some((&msg, SigningHash::Sha256)), Some(&sha256(&msg)), "sign_message");

            for reverse in [false, true] {
                let sig = ECDSA::sign_with_deterministic_k(key, &msg, SigningHash::Sha256, reverse).unwrap();
                check_produced(&c, key, &sig, &z256, Some((&msg, SigningHash::Sha256)), None, "det sha256");
                let sig = ECDSA::sign_with_deterministic_k(key, &msg, SigningHash::Sha256d, reverse).unwrap();
                check_produced(&c, key, &sig, &z256d, Some((&msg, SigningHash::Sha256d)), Some(&sha256d(&msg)), "det sha256d");
            }
        }
    }
}

#[test]
fn e10_produced_signatures_random_k_and_given_k() {
    let c = Curve::new();
    let keys = test_keys(3);
    for (ki, key) in keys.iter().enumerate() {
        let msg = prng("msg2", ki as u64);
        let z256 = big(&sha256(&msg));
        let z256d = big(&sha256d(&msg));
        for reverse in [false, true] {
            let sig = ECDSA::sign_with_random_k(key, &msg, SigningHash::Sha256, reverse).unwrap();
            check_produced(&c, key, &sig, &z256, Some((&msg, SigningHash::Sha256)), None, "random sha256");
            let sig = ECDSA::sign_with_random_k(key, &msg, SigningHash::Sha256d, reverse).unwrap();
            check_produced(&c, key, &sig, &z256d, Some((&msg, SigningHash::Sha256d)), None, "random sha256d");
        }
        // chosen nonces, including boundary ones
        for k in [BigUint::one(), BigUint::from(2u32), &c.n - 1u32, (&c.n - 1u32) >> 1, big(&prng("nonce", ki as u64)) % &c.n] {
            let eph = PrivateKey::from_bytes(&be32(&k)).unwrap();
            for (algo, z) in [(SigningHash::Sha256, &z256), (SigningHash::Sha256d, &z256d)] {
                let sig = ECDSA::sign_with_k(key, &eph, &msg, algo).unwrap();
                // r is x(kG) mod n by the reference
                let R = c.mul(&k, &c.g).unwrap();
                assert_eq!(big(&sig.r()), &R.0 % &c.n);
                check_produced(&c, key, &sig, z, Some((&msg, algo)), None, "given k");
            }
        }
    }
}

// E11: signing a digest directly, with boundary digests (0, n, n+1, 2^256-1) and recovery from digest
#[test]
fn e11_digest_signing_boundary_digests() {
    let c = Curve::new();
    let keys = test_keys(1);
    let digests: Vec<Vec<u8>> = vec![
        vec![0u8; 32],
        be32(&BigUint::one()),
        be32(&c.n),
        be32(&(&c.n + 1u32)),
        be32(&(&c.n - 1u32)),
        vec![0xffu8; 32],
        prng("digest", 1),
    ];
    for key in &keys {
        for digest in &digests {
            let sig = ECDSA::sign_digest_with_deterministic_k(key, digest).unwrap();
            let z = big(digest);
            check_produced(&c, key, &sig, &z, None, Some(digest), "digest");
            // other digest: different key or error
            let mut other = digest.clone();
            other[31] ^= 1;
            let expected = key.to_public_key().unwrap().to_bytes().unwrap();
            match sig.recover_public_key_from_digest(&other) {
                Err(_) => {}
                Ok(pk) => assert_ne!(pk.to_bytes().unwrap(), expected),
            }
        }
        // wrong digest lengths
        let sig = ECDSA::sign_digest_with_deterministic_k(key, &digests[1]).unwrap();
        for len in [0usize, 31, 33, 64] {
            assert!(sig.recover_public_key_from_digest(&vec![1u8; len]).is_err());
            assert!(ECDSA::sign_digest_with_deterministic_k(key, &vec![1u8; len]).is_err());
        }
    }
}

// E12: BSM signatures: compact round trip and recovery of the signer over the magic-prefixed message
#[test]
fn e12_bsm_signatures() {
    let c = Curve::new();
    for (ki, key) in test_keys(2).iter().enumerate() {
        let msg = prng("bsm", ki as u64);
        let mut magic = vec![24u8];
        magic.extend_from_slice(b"Bitcoin Signed Message:\n");
        magic.push(msg.len() as u8);
        magic.extend_from_slice(&msg);
        let z = big(&sha256d(&magic));
        let sig = BSM::sign_message(key, &msg).unwrap();
        check_produced(&c, key, &sig, &z, Some((&magic, SigningHash::Sha256d)), None, "bsm");
        let addr = P2PKHAddress::from_pubkey(&key.to_public_key().unwrap()).unwrap();
        let parsed = Signature::from_compact_bytes(&sig.to_compact_bytes(None)).unwrap();
        assert!(BSM::verify_message(&msg, &parsed, &addr).unwrap());
        // the other compression form is another address
        let mut flipped = sig.to_compact_bytes(None);
        flipped[0] = if flipped[0] >= 31 { flipped[0] - 4 } else { flipped[0] + 4 };
        let flipped = Signature::from_compact_bytes(&flipped).unwrap();
        assert!(BSM::verify_message(&msg, &flipped, &addr).is_err());
    }
}

// ---------------------------------------------------------------------------------------------
// E13: recovery against the reference for arbitrary in-range (r, s), recovery ids 0 and 1, both markers, high s too
// ---------------------------------------------------------------------------------------------

#[test]
fn e13_recovery_matches_reference_for_arbitrary_pairs() {
    let c = Curve::new();
    let mut done = 0;
    for i in 0..12u64 {
        let r = big(&prng("r", i)) % &c.n;
        let s = match i % 3 {
            0 => big(&prng("s", i)) % &c.n,
            1 => &c.n - 1u32 - BigUint::from(i), // high s
            _ => BigUint::from(i + 1),           // tiny s
        };
        let msg = prng("m", i);
        let z = big(&sha256(&msg));
        for recid in 0u8..2 {
            for comp in [false, true] {
                let header = 27 + recid + if comp { 4 } else { 0 };
                let sig = Signature::from_compact_bytes(&compact(header, &r, &s)).unwrap();
                let expected = c.recover(&r, &s, &z, recid);
                match expected {
                    None => assert!(sig.recover_public_key(&msg, SigningHash::Sha256).is_err()),
                    Some(_) => {
                        let pk = sig.recover_public_key(&msg, SigningHash::Sha256).unwrap();
                        assert_eq!(pk.to_bytes().unwrap(), sec1(&expected, comp), "recid {} comp {}", recid, comp);
                        let pk = sig.recover_public_key_from_digest(&sha256(&msg)).unwrap();
                        assert_eq!(pk.to_bytes().unwrap(), sec1(&expected, comp));
                        assert!(c.verify(&expected, &z, &r, &s));
                        done += 1;
                    }
                }
            }
        }
    }
    assert!(done > 8);
}

// E14: recovery ids 2 and 3 for an ordinary r (r + n >= p): no such point, recovery must fail (never panic / never a key)
#[test]
fn e14_x_reduced_ids_with_ordinary_r_fail() {
    let c = Curve::new();
    let r = big(&prng("r", 77)) % &c.n;
    assert!(&r + &c.n >= c.p);
    let s = BigUint::from(9u32);
    for header in [29u8, 30, 33, 34] {
        let sig = Signature::from_compact_bytes(&compact(header, &r, &s)).unwrap();
        assert!(sig.recover_public_key(b"m", SigningHash::Sha256).is_err());
        assert!(sig.recover_public_key_from_digest(&[7u8; 32]).is_err());
    }
}

// ---------------------------------------------------------------------------------------------
// VIOLATION C: recovery ids 2 and 3 (R.x = r + n): a valid signature whose signer is never recovered
// ---------------------------------------------------------------------------------------------

#[test]
fn violation_recovery_ids_2_and_3_never_recover_the_signer() {
    let c = Curve::new();
    // smallest t >= 1 such that x = n + t is the abscissa of a curve point (x < p holds since p - n ~ 2^128)
    let mut t = BigUint::one();
    let R = loop {
        let x = &c.n + &t;
        assert!(x < c.p);
        if let Some(pt) = c.lift_x(&x, false) {
            break pt;
        }
        t += 1u32;
    };
    println!("R.x = n + {}", t);
    let r = t.clone(); // r = R.x mod n
    let msg = b"C06 x-reduced".to_vec();
    let z = big(&sha256(&msg));
    let s = BigUint::from(0x1234567u32); // low s
    let mut failures = vec![];
    for y_odd in [false, true] {
        let recid = 2 + y_odd as u8;
        // The unique public key Q for which (r, s) is a signature over z made with nonce point R:
        // Q = r^-1 (s R - z G).   (reference SEC1 4.1.6, with R.x = r + n)
        let Rpt = if y_odd { c.neg(&Some(R.clone())) } else { Some(R.clone()) };
        assert_eq!(Rpt.as_ref().unwrap().1.bit(0), y_odd);
        let q = c.recover(&r, &s, &z, recid);
        assert!(q.is_some());
        // It is a genuine signature: the reference verifier accepts it ...
        assert!(c.verify(&q, &z, &r, &s));
        for comp in [false, true] {
            let expected_pk = sec1(&q, comp);
            let header = 27 + recid + if comp { 4 } else { 0 };
            let sig = Signature::from_compact_bytes(&compact(header, &r, &s)).unwrap();
            // ... and so does the library's verifier
            let pk = PublicKey::from_bytes(&expected_pk).unwrap();
            assert!(sig.verify_message(&msg, &pk), "library verifies the signature under Q");
            assert!(ECDSA::verify_digest(&msg, &pk, &sig, SigningHash::Sha256).unwrap());
            // the compact form round trips including the x-reduced bit
            assert_eq!(sig.to_compact_bytes(None), compact(header, &r, &s));
            // the two other ids give other keys (or none), so only id 2/3 can name the signer
            for other in 0u8..2 {
                assert_ne!(c.recover(&r, &s, &z, other), q);
            }
            match sig.recover_public_key(&msg, SigningHash::Sha256) {
                Ok(got) if got.to_bytes().unwrap() == expected_pk => {}
                Ok(got) => failures.push(format!("header {}: wrong key {}", header, got.to_hex().unwrap())),
                Err(e) => failures.push(format!("header {}: error {:?}", header, e)),
            }
            match sig.recover_public_key_from_digest(&sha256(&msg)) {
                Ok(got) if got.to_bytes().unwrap() == expected_pk => {}
                Ok(got) => failures.push(format!("header {} (digest): wrong key {}", header, got.to_hex().unwrap())),
                Err(e) => failures.push(format!("header {} (digest): error {:?}", header, e)),
            }
        }
    }
    for f in &failures {
        println!("{}", f);
    }
    assert!(failures.is_empty(), "{} recoveries with ids 2/3 did not return the signer", failures.len());
}

// ---------------------------------------------------------------------------------------------
// E15: transaction signatures for all fourteen flags: DER+flag serialisation and its parse
// ---------------------------------------------------------------------------------------------

fn sample_tx(locktime: u32) -> (Transaction, Script) {
    let mut tx = Transaction::new(1, locktime);
    let lock = Script::from_asm_string("OP_DUP OP_HASH160 0102030405060708090a0b0c0d0e0f1011121314 OP_EQUALVERIFY OP_CHECKSIG").unwrap();
    for i in 0..2u8 {
        let mut txin = TxIn::new(&[i + 1; 32], i as u32, &Script::default(), Some(0xfffffffe));
        txin.set_satoshis(1000);
        txin.set_locking_script(&lock);
        tx.add_input(&txin);
    }
    for i in 0..2u64 {
        tx.add_output(&TxOut::new(400 + i, &lock));
    }
    (tx, lock)
}

#[test]
fn e15_transaction_signatures_all_flags() {
    let c = Curve::new();
    let key = PrivateKey::from_bytes(&prng("txkey", 0)).unwrap();
    let d = big(&key.to_bytes());
    let q = c.pubkey(&d);
    let pk = key.to_public_key().unwrap();
    let flags = [
        SigHash::FORKID,
        SigHash::ALL,
        SigHash::NONE,
        SigHash::SINGLE,
        SigHash::ANYONECANPAY,
        SigHash::InputsOutputs,
        SigHash::Inputs,
        SigHash::InputsOutput,
        SigHash::InputOutputs,
        SigHash::Input,
        SigHash::InputOutput,
        SigHash::Legacy_InputOutputs,
        SigHash::Legacy_Input,
        SigHash::Legacy_InputOutput,
    ];
    let mut coincidences = 0;
    for (fi, flag) in flags.iter().enumerate() {
        // vary the lock time so that some signatures end in a flag-valued byte
        for locktime in 0..40u32 {
            let (mut tx, lock) = sample_tx(locktime);
            let ss = tx.sign(&key, *flag, 1, &lock, 1000).unwrap();
            let bytes = ss.to_bytes().unwrap();
            assert_eq!(*bytes.last().unwrap(), FLAGS[fi]);
            let der = &bytes[..bytes.len() - 1];
            if FLAGS.contains(der.last().unwrap()) {
                coincidences += 1;
            }
            // preimage -> z by the reference hash; verify (r, s) under the reference
            let preimage = tx.sighash_preimage(*flag, 1, &lock, 1000).unwrap();
            let z = big(&sha256d(&preimage));
            let sig = Signature::from_der(&bytes).unwrap();
            let sig_plain = Signature::from_der(der).unwrap();
            assert_eq!(sig.to_der_bytes(), der);
            assert_eq!(sig_plain.to_der_bytes(), der);
            let (r, s) = (big(&sig.r()), big(&sig.s()));
            assert_eq!(der_sig(&r, &s), der);
            assert!(c.verify(&q, &z, &r, &s));
            let back = SighashSignature::from_bytes(&bytes, &preimage).unwrap();
            assert_eq!(back.to_bytes().unwrap(), bytes);
            assert_eq!(back.to_hex().unwrap(), ss.to_hex().unwrap());
            assert!(tx.verify(&pk, &back));
            // chosen nonce variant
            let eph = PrivateKey::from_bytes(&prng("eph", locktime as u64)).unwrap();
            let ss2 = tx.sign_with_k(&key, &eph, *flag, 1, &lock, 1000).unwrap();
            let b2 = ss2.to_bytes().unwrap();
            let sig2 = Signature::from_der(&b2).unwrap();
            assert!(c.verify(&q, &z, &big(&sig2.r()), &big(&sig2.s())));
            assert_eq!(SighashSignature::from_bytes(&b2, &preimage).unwrap().to_bytes().unwrap(), b2);
        }
    }
    println!("signatures whose final DER byte is flag-valued: {}", coincidences);
    assert!(coincidences > 0);
}

// E16: a DER-parsed signature (no recovery info) written as compact uses the given info; recovery with the right
// info (found by the reference) returns the signer
#[test]
fn e16_der_then_compact_with_supplied_info() {
    let c = Curve::new();
    let key = PrivateKey::from_bytes(&prng("k16", 0)).unwrap();
    let q = c.pubkey(&big(&key.to_bytes()));
    let msg = b"sixteen".to_vec();
    let z = big(&sha256(&msg));
    let sig = key.sign_message(&msg).unwrap();
    let plain = Signature::from_der(&sig.to_der_bytes()).unwrap();
    let (r, s) = (big(&plain.r()), big(&plain.s()));
    let recid = (0u8..4).find(|id| c.recover(&r, &s, &z, *id) == q).unwrap();
    for comp in [false, true] {
        let info = RecoveryInfo::new(recid & 1 != 0, recid & 2 != 0, comp);
        let cb = plain.to_compact_bytes(Some(info));
        assert_eq!(cb, compact(27 + recid + 4 * comp as u8, &r, &s));
        let parsed = Signature::from_compact_bytes(&cb).unwrap();
        assert_eq!(parsed.recover_public_key(&msg, SigningHash::Sha256).unwrap().to_bytes().unwrap(), sec1(&q, comp));
        // wrong parity -> other key
        let wrong = plain.to_compact_bytes(Some(RecoveryInfo::new(recid & 1 == 0, false, comp)));
        let wrong = Signature::from_compact_bytes(&wrong).unwrap();
        match wrong.recover_public_key(&msg, SigningHash::Sha256) {
            Err(_) => {}
            Ok(pk) => assert_ne!(pk.to_bytes().unwrap(), sec1(&q, comp)),
        }
    }
}

// E17: impact of violation A inside the interpreter: a P2PKH spend whose signature push carries an extra flag byte
#[test]
fn violation_checksig_accepts_signature_with_extra_flag_byte() {
    let key = PrivateKey::from_bytes(&prng("k17", 0)).unwrap();
    let pubkey = key.to_public_key().unwrap();
    let lock = Script::from_asm_string(&format!("OP_DUP OP_HASH160 {} OP_EQUALVERIFY OP_CHECKSIG", Hash::hash_160(&pubkey.to_bytes().unwrap()).to_hex())).unwrap();
    // find a lock time giving a 71 byte DER signature (r padded, s not): half of all signatures
    for locktime in 0..64u32 {
        let mut tx = Transaction::new(2, locktime);
        let mut txin = TxIn::new(&[9u8; 32], 0, &Script::default(), Some(0xffffffff));
        txin.set_satoshis(5000);
        txin.set_locking_script(&lock);
        tx.add_input(&txin);
        tx.add_output(&TxOut::new(4000, &lock));
        let ss = tx.sign(&key, SigHash::InputsOutputs, 0, &lock, 5000).unwrap();
        let good = ss.to_bytes().unwrap();
        if good.len() != 72 {
            continue;
        }
        // honest spend works
        let run = |sig_push: &[u8]| -> Result<bool, String> {
            let mut txin = txin.clone();
            let unlock = Script::from_asm_string(&format!("{} {}", hex::encode(sig_push), pubkey.to_hex().unwrap())).unwrap();
            txin.set_unlocking_script(&unlock);
            let mut tx = tx.clone();
            tx.set_input(0, &txin);
            let mut interp = Interpreter::from_transaction(&tx, 0).map_err(|e| format!("{:?}", e))?;
            interp.run().map_err(|e| format!("{:?}", e))?;
            Ok(interp.state().stack().last().map(|v| v == &vec![1u8]).unwrap_or(false))
        };
        assert_eq!(run(&good), Ok(true));
        // malleated: DER || 0x01 || 0x41  (DER with a trailing byte, then the flag)
        let mut bad = good[..71].to_vec();
        bad.push(0x01);
        bad.push(0x41);
        let outcome = run(&bad);
        println!("malleated signature push {} -> {:?}", hex::encode(&bad), outcome);
        assert_ne!(outcome, Ok(true), "OP_CHECKSIG accepted a signature whose DER part has a trailing byte");
        return;
    }
    panic!("no 71 byte signature found");
}


// ---------------------------------------------------------------------------------------------
// VIOLATION D: recovery panics when s R = z G (the recovered "key" is the point at infinity)
// ---------------------------------------------------------------------------------------------

/// (r, s) in range, recovery id 0/1, chosen for the message so that r^-1 (s R - z G) is the point at infinity:
/// R = k G, r = R.x mod n, s = z / k.
fn infinity_signature(c: &Curve, k: &BigUint, z: &BigUint, compressed: bool) -> Vec<u8> {
    let R = c.mul(k, &c.g).unwrap();
    let r = &R.0 % &c.n;
    let s = ((z % &c.n) * c.inv(k, &c.n)) % &c.n;
    assert!(!s.is_zero());
    let recid = R.1.bit(0) as u8;
    assert!(c.recover(&r, &s, z, recid).is_none(), "reference: the recovered point is infinity");
    compact(27 + recid + 4 * compressed as u8, &r, &s)
}

#[test]
fn violation_recovery_panics_when_recovered_point_is_infinity() {
    let c = Curve::new();
    let mut problems = vec![];
    for k in [BigUint::one(), BigUint::from(7u32), big(&prng("kinf", 0)) % &c.n] {
        for comp in [false, true] {
            // from a digest
            let digest = prng("zinf", 3);
            let sig = Signature::from_compact_bytes(&infinity_signature(&c, &k, &big(&digest), comp)).unwrap();
            match std::panic::catch_unwind(|| sig.recover_public_key_from_digest(&digest).map(|p| p.to_hex().unwrap())) {
                Err(_) => problems.push(format!("recover_public_key_from_digest panicked (k={:x}, compressed={})", k, comp)),
                Ok(Ok(pk)) => problems.push(format!("recover_public_key_from_digest returned a key {}", pk)),
                Ok(Err(_)) => {}
            }
            // from a message, both hash algorithms
            let msg = b"any message the attacker likes".to_vec();
            for (algo, z) in [(SigningHash::Sha256, big(&sha256(&msg))), (SigningHash::Sha256d, big(&sha256d(&msg)))] {
                let sig = Signature::from_compact_bytes(&infinity_signature(&c, &k, &z, comp)).unwrap();
                // the compact form itself is fine and round trips
                assert_eq!(Signature::from_compact_bytes(&sig.to_compact_bytes(None)).unwrap(), sig);
                match std::panic::catch_unwind(|| sig.recover_public_key(&msg, algo).map(|p| p.to_hex().unwrap())) {
                    Err(_) => problems.push(format!("recover_public_key panicked (k={:x}, compressed={})", k, comp)),
                    Ok(Ok(pk)) => problems.push(format!("recover_public_key returned a key {}", pk)),
                    Ok(Err(_)) => {}
                }
            }
        }
    }
    for p in &problems {
        println!("{}", p);
    }
    assert!(problems.is_empty(), "{} recoveries did not fail cleanly", problems.len());
}

// the same through Bitcoin Signed Message verification: a crafted (message, compact signature) pair
#[test]
fn violation_bsm_verify_panics_on_crafted_compact_signature() {
    let c = Curve::new();
    let msg = b"hello".to_vec();
    let mut magic = vec![24u8];
    magic.extend_from_slice(b"Bitcoin Signed Message:\n");
    magic.push(msg.len() as u8);
    magic.extend_from_slice(&msg);
    let z = big(&sha256d(&magic));
    // simplest instance: k = 1, so r = G.x and s = z mod n; header 31 (G.y is even, compressed)
    let bytes = infinity_signature(&c, &BigUint::one(), &z, true);
    println!("message {:?}, compact signature {}", String::from_utf8_lossy(&msg), hex::encode(&bytes));
    let sig = Signature::from_compact_bytes(&bytes).unwrap();
    let some_key = PrivateKey::from_bytes(&prng("victim", 0)).unwrap();
    let address = P2PKHAddress::from_pubkey(&some_key.to_public_key().unwrap()).unwrap();
    let outcome = std::panic::catch_unwind(|| BSM::verify_message(&msg, &sig, &address).map_err(|e| e.to_string()));
    match outcome {
        Err(_) => panic!("BSM::verify_message panicked instead of returning an error"),
        Ok(Ok(v)) => assert!(!v, "BSM::verify_message accepted the crafted signature"),
        Ok(Err(_)) => {}
    }
}

// ---------------------------------------------------------------------------------------------
// E17: mutation fuzz of DER / DER+flag: no panic; whatever is accepted is exactly canonical DER (+ one flag)
// ---------------------------------------------------------------------------------------------

#[test]
fn e17_mutation_fuzz_der_parsers() {
    let c = Curve::new();
    let hi = (BigUint::one() << 255) + 0x41u32;
    let lo = (BigUint::one() << 254) + 0x41u32;
    let seeds: Vec<Vec<u8>> = vec![
        der_sig(&hi, &hi),
        der_sig(&hi, &lo),
        der_sig(&lo, &lo),
        der_sig(&BigUint::from(0x41u32), &BigUint::from(0x01u32)),
        der_sig(&(&c.n - 1u32), &(&c.n - 1u32)),
        der_sig(&BigUint::from(0x80u32), &BigUint::from(0xc3u32)),
    ];
    let mut state = 0x9e3779b97f4a7c15u64;
    let mut next = move || {
        state ^= state << 13;
        state ^= state >> 7;
        state ^= state << 17;
        state
    };
    let interesting = [0x00u8, 0x01, 0x02, 0x30, 0x20, 0x21, 0x40, 0x41, 0x7f, 0x80, 0x81, 0xc1, 0xff, 0x44, 0x45, 0x46, 0x47];
    let (mut accepted_der, mut accepted_ss, mut known_a, mut known_b) = (0u32, 0u32, 0u32, 0u32);
    for _ in 0..300_000 {
        let mut v = seeds[(next() % seeds.len() as u64) as usize].clone();
        if next() % 2 == 0 {
            v.push(FLAGS[(next() % 14) as usize]);
        }
        for _ in 0..(1 + next() % 3) {
            let pos = if v.is_empty() { 0 } else { (next() % v.len() as u64) as usize };
            let byte = if next() % 2 == 0 { interesting[(next() % interesting.len() as u64) as usize] } else { next() as u8 };
            match next() % 6 {
                0 if !v.is_empty() => v[pos] = byte,
                1 => v.insert(pos, byte),
                2 if !v.is_empty() => {
                    v.remove(pos);
                }
                3 => v.truncate(pos),
                4 => v.push(byte),
                _ if !v.is_empty() => v[pos] ^= 1 << (next() % 8),
                _ => {}
            }
        }
        if let Ok(sig) = Signature::from_der(&v) {
            accepted_der += 1;
            let (r, s) = (big(&sig.r()), big(&sig.s()));
            assert!(!r.is_zero() && !s.is_zero() && r < c.n && s < c.n);
            let canon = der_sig(&r, &s);
            let ok = v == canon || (v.len() == canon.len() + 1 && v[..canon.len()] == canon[..] && FLAGS.contains(v.last().unwrap()));
            assert!(ok, "from_der accepted non canonical input {}", hex::encode(&v));
            assert_eq!(sig.to_der_bytes(), canon);
        }
        if let Ok(ss) = SighashSignature::from_bytes(&v, b"") {
            accepted_ss += 1;
            let out = ss.to_bytes().unwrap();
            if out == v {
                // must be canonical DER + flag
                let sig = Signature::from_der(&v[..v.len() - 1]).unwrap();
                assert_eq!(sig.to_der_bytes(), &v[..v.len() - 1]);
                assert!(FLAGS.contains(v.last().unwrap()));
            } else if v.len() >= 73 && v.len() == out.len() + 1 && v[..out.len() - 1] == out[..out.len() - 1] && FLAGS.contains(&v[v.len() - 2]) {
                known_a += 1; // violation A: DER || flag || flag
            } else if out.len() == v.len() + 1 && out[..v.len()] == v[..] && out.last() == v.last() {
                known_b += 1; // violation B: flag-less DER whose last byte is flag-valued
            } else {
                panic!("SighashSignature::from_bytes accepted {} and wrote {}", hex::encode(&v), hex::encode(&out));
            }
        }
    }
    println!("fuzz: from_der accepted {}, SighashSignature accepted {} (pattern A {}, pattern B {})", accepted_der, accepted_ss, known_a, known_b);
    assert!(accepted_der > 100);
}

// E19: random 65 byte compact inputs: accepted exactly when header in 27..=34 and 0 < r, s < n; round trip is the identity
#[test]
fn e19_compact_random_inputs() {
    let c = Curve::new();
    for i in 0..20_000u64 {
        let mut v = prng("c1", i);
        v.extend(prng("c2", i));
        v.insert(0, (i % 256) as u8);
        // sprinkle boundary words
        if i % 7 == 0 {
            let b = be32(&(&c.n - 1u32 + BigUint::from(i % 3)));
            v[1..33].copy_from_slice(&b);
        }
        if i % 11 == 0 {
            let b = be32(&(&c.n - 1u32 + BigUint::from(i % 3)));
            v[33..65].copy_from_slice(&b);
        }
        let r = big(&v[1..33]);
        let s = big(&v[33..65]);
        let expected_ok = (27..=34).contains(&v[0]) && !r.is_zero() && !s.is_zero() && r < c.n && s < c.n;
        match Signature::from_compact_bytes(&v) {
            Ok(sig) => {
                assert!(expected_ok, "accepted {}", hex::encode(&v));
                assert_eq!(sig.to_compact_bytes(None), v);
                assert_eq!(sig.to_der_bytes(), der_sig(&r, &s));
            }
            Err(_) => assert!(!expected_ok, "rejected {}", hex::encode(&v)),
        }
    }
}
