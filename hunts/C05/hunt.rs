// C05 hunt: ECDSA signatures verify, are low-S, deterministic ones follow RFC 6979; ECDH symmetric.
//
// Independent oracle: secp256k1 arithmetic over num-bigint (Jacobian coordinates), HMAC-SHA256 built by hand
// from sha2::Sha256 (ipad/opad), RFC 6979 section 3.2 written from the specification, textbook ECDSA sign/verify.
// Nothing from k256 / ecdsa / hmac crates nor from the library under test is used inside the oracle.

use bsv::*;
use num_bigint::BigUint;
use num_traits::{One, Zero};
use sha2::{Digest, Sha256};

// ---------------------------------------------------------------------------------------------------------
// Oracle
// ---------------------------------------------------------------------------------------------------------

fn hexn(s: &str) -> BigUint {
    BigUint::parse_bytes(s.as_bytes(), 16).unwrap()
}
fn p() -> BigUint {
    hexn("FFFFFFFFFFFFFFFFFFFFFFFFFFFFFFFFFFFFFFFFFFFFFFFFFFFFFFFEFFFFFC2F")
}
fn n() -> BigUint {
    hexn("FFFFFFFFFFFFFFFFFFFFFFFFFFFFFFFEBAAEDCE6AF48A03BBFD25E8CD0364141")
}
fn gx() -> BigUint {
    hexn("79BE667EF9DCBBAC55A06295CE870B07029BFCDB2DCE28D959F2815B16F81798")
}
fn gy() -> BigUint {
    hexn("483ADA7726A3C4655DA4FBFC0E1108A8FD17B448A68554199C47D08FFB10D4B8")
}
fn lambda() -> BigUint {
    hexn("5363ad4cc05c30e0a5261c028812645a122e22ea20816678df02967c1b23bd72")
}

fn be32(v: &BigUint) -> [u8; 32] {
    let b = v.to_bytes_be();
    assert!(b.len() <= 32);
    let mut out = [0u8; 32];
    out[32 - b.len()..].copy_from_slice(&b);
    out
}
fn from_be(b: &[u8]) -> BigUint {
    BigUint::from_bytes_be(b)
}

#[derive(Clone, Debug, PartialEq)]
struct Jac {
    x: BigUint,
    y: BigUint,
    z: BigUint, // z == 0 : infinity
}

fn subm(a: &BigUint, b: &BigUint, m: &BigUint) -> BigUint {
    ((a % m) + m - (b % m)) % m
}
fn inv(a: &BigUint, m: &BigUint) -> BigUint {
    // Fermat; m prime
    a.modpow(&(m - BigUint::from(2u8)), m)
}

fn jac_inf() -> Jac {
    Jac { x: BigUint::one(), y: BigUint::one(), z: BigUint::zero() }
}
fn jac_double(a: &Jac) -> Jac {
    let p = p();
    if a.z.is_zero() || a.y.is_zero() {
        return jac_inf();
    }
    let aa = (&a.x * &a.x) % &p;
    let bb = (&a.y * &a.y) % &p;
    let cc = (&bb * &bb) % &p;
    let xb = (&a.x + &bb) % &p;
    let d = (subm(&subm(&((&xb * &xb) % &p), &aa, &p), &cc, &p) * BigUint::from(2u8)) % &p;
    let e = (&aa * BigUint::from(3u8)) % &p;
    let f = (&e * &e) % &p;
    let x3 = subm(&f, &((&d * BigUint::from(2u8)) % &p), &p);
    let y3 = subm(&((&e * subm(&d, &x3, &p)) % &p), &((&cc * BigUint::from(8u8)) % &p), &p);
    let z3 = (&a.y * &a.z * BigUint::from(2u8)) % &p;
    Jac { x: x3, y: y3, z: z3 }
}
fn jac_add(a: &Jac, b: &Jac) -> Jac {
    let p = p();
    if a.z.is_zero() {
        return b.clone();
    }
    if b.z.is_zero() {
        return a.clone();
    }
    let z1z1 = (&a.z * &a.z) % &p;
    let z2z2 = (&b.z * &b.z) % &p;
    let u1 = (&a.x * &z2z2) % &p;
    let u2 = (&b.x * &z1z1) % &p;
    let s1 = (&a.y * &z2z2 % &p * &b.z) % &p;
    let s2 = (&b.y * &z1z1 % &p * &a.z) % &p;
    if u1 == u2 {
        if s1 != s2 {
            return jac_inf();
        }
        return jac_double(a);
    }
    let h = subm(&u2, &u1, &p);
    let r = subm(&s2, &s1, &p);
    let hh = (&h * &h) % &p;
    let hhh = (&hh * &h) % &p;
    let v = (&u1 * &hh) % &p;
    let x3 = subm(&subm(&((&r * &r) % &p), &hhh, &p), &((&v * BigUint::from(2u8)) % &p), &p);
    let y3 = subm(&((&r * subm(&v, &x3, &p)) % &p), &((&s1 * &hhh) % &p), &p);
    let z3 = (&h * &a.z % &p * &b.z) % &p;
    Jac { x: x3, y: y3, z: z3 }
}
fn jac_mul(k: &BigUint, pt: &Jac) -> Jac {
    let mut acc = jac_inf();
    let bits = k.bits();
    for i in (0..bits).rev() {
        acc = jac_double(&acc);
        if k.bit(i) {
            acc = jac_add(&acc, pt);
        }
    }
    acc
}
/// affine (x, y) or None for infinity
fn to_affine(a: &Jac) -> Option<(BigUint, BigUint)> {
    if a.z.is_zero() {
        return None;
    }
    let p = p();
    let zi = inv(&a.z, &p);
    let zi2 = (&zi * &zi) % &p;
    let zi3 = (&zi2 * &zi) % &p;
    Some(((&a.x * zi2) % &p, (&a.y * zi3) % &p))
}
fn g() -> Jac {
    Jac { x: gx(), y: gy(), z: BigUint::one() }
}
fn from_affine(x: &BigUint, y: &BigUint) -> Jac {
    Jac { x: x.clone(), y: y.clone(), z: BigUint::one() }
}
fn on_curve(x: &BigUint, y: &BigUint) -> bool {
    let p = p();
    (y * y) % &p == (x * x % &p * x + BigUint::from(7u8)) % &p
}
fn ref_pubkey(d: &BigUint) -> (BigUint, BigUint) {
    to_affine(&jac_mul(d, &g())).unwrap()
}
fn sec1(pt: &(BigUint, BigUint), compressed: bool) -> Vec<u8> {
    let mut out = vec![];
    if compressed {
        out.push(if pt.1.bit(0) { 3 } else { 2 });
        out.extend_from_slice(&be32(&pt.0));
    } else {
        out.push(4);
        out.extend_from_slice(&be32(&pt.0));
        out.extend_from_slice(&be32(&pt.1));
    }
    out
}

fn sha256(b: &[u8]) -> [u8; 32] {
    let mut h = Sha256::new();
    h.update(b);
    let mut o = [0u8; 32];
    o.copy_from_slice(&h.finalize());
    o
}
fn sha256d(b: &[u8]) -> [u8; 32] {
    sha256(&sha256(b))
}
fn hmac_sha256(key: &[u8], parts: &[&[u8]]) -> [u8; 32] {
    let mut k = [0u8; 64];
    if key.len() > 64 {
        k[..32].copy_from_slice(&sha256(key));
    } else {
        k[..key.len()].copy_from_slice(key);
    }
    let mut inner = Sha256::new();
    let ipad: Vec<u8> = k.iter().map(|b| b ^ 0x36).collect();
    inner.update(&ipad);
    for p in parts {
        inner.update(p);
    }
    let ih = inner.finalize();
    let mut outer = Sha256::new();
    let opad: Vec<u8> = k.iter().map(|b| b ^ 0x5c).collect();
    outer.update(&opad);
    outer.update(&ih);
    let mut o = [0u8; 32];
    o.copy_from_slice(&outer.finalize());
    o
}

/// RFC 6979 section 3.2 with HMAC-SHA256, qlen = hlen = 256. `h1` are the 32 hash bytes as they go into bits2octets.
fn rfc6979_k(d: &BigUint, h1: &[u8; 32]) -> BigUint {
    let n = n();
    let x = be32(d); // int2octets(x)
    let hred = be32(&(from_be(h1) % &n)); // bits2octets(h1)
    let mut v = [1u8; 32];
    let mut k = [0u8; 32];
    k = hmac_sha256(&k, &[&v, &[0u8], &x, &hred]);
    v = hmac_sha256(&k, &[&v]);
    k = hmac_sha256(&k, &[&v, &[1u8], &x, &hred]);
    v = hmac_sha256(&k, &[&v]);
    loop {
        v = hmac_sha256(&k, &[&v]);
        let cand = from_be(&v);
        if !cand.is_zero() && cand < n {
            return cand;
        }
        k = hmac_sha256(&k, &[&v, &[0u8]]);
        v = hmac_sha256(&k, &[&v]);
    }
}

/// Textbook ECDSA with given nonce, then low-S. Returns (r, s, R.y odd after normalisation)
fn ref_sign_with_k(d: &BigUint, k: &BigUint, digest: &[u8; 32]) -> (BigUint, BigUint) {
    let n = n();
    let z = from_be(digest) % &n;
    let (rx, _ry) = to_affine(&jac_mul(k, &g())).unwrap();
    let r = rx % &n;
    assert!(!r.is_zero());
    let kinv = inv(k, &n);
    let mut s = (kinv * ((z + &r * d) % &n)) % &n;
    assert!(!s.is_zero());
    let half = &n >> 1;
    if s > half {
        s = &n - s;
    }
    (r, s)
}
/// digest: the bytes signed (z). reverse: nonce derivation sees the digest bytes in reversed order.
fn ref_sign_det(d: &BigUint, digest: &[u8; 32], reverse: bool) -> (BigUint, BigUint) {
    let mut h1 = *digest;
    if reverse {
        h1.reverse();
    }
    let k = rfc6979_k(d, &h1);
    ref_sign_with_k(d, &k, digest)
}
fn ref_verify(q: &(BigUint, BigUint), digest: &[u8; 32], r: &BigUint, s: &BigUint) -> bool {
    let n = n();
    if r.is_zero() || s.is_zero() || r >= &n || s >= &n {
        return false;
    }
    let z = from_be(digest) % &n;
    let w = inv(s, &n);
    let u1 = (z * &w) % &n;
    let u2 = (r * &w) % &n;
    let pt = jac_add(&jac_mul(&u1, &g()), &jac_mul(&u2, &from_affine(&q.0, &q.1)));
    match to_affine(&pt) {
        None => false,
        Some((x, _)) => &(x % &n) == r,
    }
}

fn digest_of(hash: SigningHash, msg: &[u8]) -> [u8; 32] {
    match hash {
        SigningHash::Sha256 => sha256(msg),
        SigningHash::Sha256d => sha256d(msg),
    }
}
fn other(hash: SigningHash) -> SigningHash {
    match hash {
        SigningHash::Sha256 => SigningHash::Sha256d,
        SigningHash::Sha256d => SigningHash::Sha256,
    }
}

/// deterministic byte stream for test inputs
struct Prng([u8; 32], u64);
impl Prng {
    fn new(seed: &str) -> Prng {
        Prng(sha256(seed.as_bytes()), 0)
    }
    fn next32(&mut self) -> [u8; 32] {
        self.1 += 1;
        let mut v = self.0.to_vec();
        v.extend_from_slice(&self.1.to_le_bytes());
        sha256(&v)
    }
    fn bytes(&mut self, len: usize) -> Vec<u8> {
        let mut out = vec![];
        while out.len() < len {
            out.extend_from_slice(&self.next32());
        }
        out.truncate(len);
        out
    }
    fn scalar(&mut self) -> BigUint {
        loop {
            let v = from_be(&self.next32());
            if !v.is_zero() && v < n() {
                return v;
            }
        }
    }
}

fn key_of(d: &BigUint, compressed: bool) -> PrivateKey {
    PrivateKey::from_bytes(&be32(d)).unwrap().compress_public_key(compressed)
}

fn edge_scalars() -> Vec<BigUint> {
    let n = n();
    let one = BigUint::one();
    let l = lambda();
    let mut v = vec![
        one.clone(),
        BigUint::from(2u8),
        BigUint::from(3u8),
        &n - &one,
        &n - BigUint::from(2u8),
        &n - BigUint::from(3u8),
        &n >> 1,
        (&n >> 1) + &one,
        (&n >> 1) + BigUint::from(2u8),
        l.clone(),
        &l + &one,
        &l - &one,
        &n - &l,
        (&l * &l) % &n,
        &one << 128,
        (&one << 128) - &one,
        (&one << 128) + &one,
        &one << 127,
        &one << 255,
        (&one << 255) - &one,
        &n - (&one << 128),
        &n - (&one << 128) - &one,
        &n - (&one << 128) + &one,
        (&one << 64) - &one,
        &one << 192,
        hexn("00000000000000000000000000000000ffffffffffffffffffffffffffffffff"),
        hexn("ffffffffffffffffffffffffffffffff00000000000000000000000000000000"),
        hexn("3086d221a7d46bcde86c90e49284eb15"), // endomorphism decomposition constants
        hexn("e4437ed6010e88286f547fa90abfe4c3"),
        hexn("114ca50f7a8e2f3f657c1108d9d44cfd8"),
        hexn("7ae96a2b657c07106e64479eac3434e99cf0497512f58995c1396c28719501ee"), // beta (as a scalar)
    ];
    v.retain(|x| !x.is_zero() && x < &n);
    v
}

fn assert_low_s(sig: &Signature) {
    let s = from_be(&sig.s());
    assert!(s <= (n() >> 1), "high S produced: {}", sig.s_hex());
    assert!(!s.is_zero());
}

// ---------------------------------------------------------------------------------------------------------
// E00: the oracle itself is sane
// ---------------------------------------------------------------------------------------------------------
#[test]
fn e00_oracle_sanity() {
    assert!(on_curve(&gx(), &gy()));
    assert!(to_affine(&jac_mul(&n(), &g())).is_none());
    let two_g = to_affine(&jac_mul(&BigUint::from(2u8), &g())).unwrap();
    assert_eq!(be32(&two_g.0).to_vec(), hex::decode("c6047f9441ed7d6d3045406e95c07cd85c778e4b8cef3ca7abac09b95c709ee5").unwrap());
    // widely published RFC 6979 secp256k1 vector: key 1, SHA-256("Satoshi Nakamoto")
    let d = BigUint::one();
    let h = sha256(b"Satoshi Nakamoto");
    let k = rfc6979_k(&d, &h);
    assert_eq!(hex::encode(be32(&k)), "8f8a276c19f4149656b280621e358cce24f5f52542772691ee69063b74f15d15");
    let (r, s) = ref_sign_det(&d, &h, false);
    assert_eq!(hex::encode(be32(&r)), "934b1ea10a4b3c1757e2b0c017d0b6143ce3c9a7e6a4a49860d7a6ab210ee3d8");
    assert_eq!(hex::encode(be32(&s)), "2442ce9d2b916064108014783e923ec36b49743e2ffa1c4496f01a512aafd9e5");
    assert!(ref_verify(&ref_pubkey(&d), &h, &r, &s));
    // second published vector: key 1, "All those moments will be lost in time, like tears in rain. Time to die..."
    let h = sha256(b"All those moments will be lost in time, like tears in rain. Time to die...");
    let k = rfc6979_k(&d, &h);
    assert_eq!(hex::encode(be32(&k)), "38aa22d72376b4dbc472e06c3ba403ee0a394da63fc58d88686c611aba98d6b3");
    // HMAC-SHA256 RFC 4231 test case 2
    assert_eq!(
        hex::encode(hmac_sha256(b"Jefe", &[b"what do ya want ", b"for nothing?"])),
        "5bdcc146bf60754e6a042426089575c75a003f089d2739839dec58b964ec3843"
    );
}

// ---------------------------------------------------------------------------------------------------------
// E01: deterministic signing == oracle, for edge keys, message lengths, both hashes, both nonce modes, both compressions
// ---------------------------------------------------------------------------------------------------------
#[test]
fn e01_deterministic_matches_rfc6979_edge_keys() {
    let mut rng = Prng::new("e01");
    let lens = [0usize, 1, 31, 32, 33, 55, 56, 63, 64, 65, 119, 120, 1000];
    let mut count = 0;
    for (ki, d) in edge_scalars().iter().enumerate() {
        let q = ref_pubkey(d);
        for (li, len) in lens.iter().enumerate() {
            // rotate through combinations to keep the run time bounded while covering all of them for every key
            let msg = rng.bytes(*len);
            for hash in [SigningHash::Sha256, SigningHash::Sha256d] {
                for reverse in [false, true] {
                    let compressed = (ki + li) % 2 == 0;
                    let key = key_of(d, compressed);
                    let sig = ECDSA::sign_with_deterministic_k(&key, &msg, hash, reverse).unwrap();
                    let dg = digest_of(hash, &msg);
                    let (r, s) = ref_sign_det(d, &dg, reverse);
                    assert_eq!(sig.r(), be32(&r).to_vec(), "r differs key#{} len {} rev {}", ki, len, reverse);
                    assert_eq!(sig.s(), be32(&s).to_vec(), "s differs key#{} len {} rev {}", ki, len, reverse);
                    assert_low_s(&sig);
                    let pk = key.to_public_key().unwrap();
                    assert_eq!(pk.to_bytes().unwrap(), sec1(&q, compressed));
                    assert!(ECDSA::verify_digest(&msg, &pk, &sig, hash).unwrap());
                    assert!(ECDSA::verify_hashbuf(&dg, &pk, &sig).unwrap());
                    assert!(ref_verify(&q, &dg, &from_be(&sig.r()), &from_be(&sig.s())));
                    // negative: other hash choice, other message, other key
                    assert!(!ECDSA::verify_digest(&msg, &pk, &sig, other(hash)).unwrap_or(false));
                    let mut m2 = msg.clone();
                    m2.push(0);
                    assert!(!ECDSA::verify_digest(&m2, &pk, &sig, hash).unwrap_or(false));
                    let other_key = key_of(&((d + BigUint::one()) % n()).max(BigUint::one()), compressed).to_public_key().unwrap();
                    assert!(!ECDSA::verify_digest(&msg, &other_key, &sig, hash).unwrap_or(false));
                    count += 1;
                }
            }
        }
    }
    println!("e01: {} signatures compared", count);
}

// ---------------------------------------------------------------------------------------------------------
// E02: random differential sweep
// ---------------------------------------------------------------------------------------------------------
#[test]
fn e02_deterministic_matches_rfc6979_random() {
    let mut rng = Prng::new("e02");
    for i in 0..400 {
        let d = rng.scalar();
        let len = (from_be(&rng.next32()[..2]).to_u32_digits().first().cloned().unwrap_or(0) % 300) as usize;
        let msg = rng.bytes(len);
        let hash = if i % 2 == 0 { SigningHash::Sha256 } else { SigningHash::Sha256d };
        let reverse = (i / 2) % 2 == 0;
        let compressed = (i / 4) % 2 == 0;
        let key = key_of(&d, compressed);
        let sig = ECDSA::sign_with_deterministic_k(&key, &msg, hash, reverse).unwrap();
        let sig2 = ECDSA::sign_with_deterministic_k(&key, &msg, hash, reverse).unwrap();
        assert_eq!(sig.to_der_bytes(), sig2.to_der_bytes());
        assert_eq!(sig.to_compact_bytes(None), sig2.to_compact_bytes(None));
        let dg = digest_of(hash, &msg);
        let (r, s) = ref_sign_det(&d, &dg, reverse);
        assert_eq!(sig.r(), be32(&r).to_vec());
        assert_eq!(sig.s(), be32(&s).to_vec());
        assert_low_s(&sig);
        let pk = key.to_public_key().unwrap();
        assert!(ECDSA::verify_digest(&msg, &pk, &sig, hash).unwrap());
    }
}

// ---------------------------------------------------------------------------------------------------------
// E03: pre-hashed digest signing, including digests >= n, 0, n (z == 0)
// ---------------------------------------------------------------------------------------------------------
#[test]
fn e03_prehashed_digest_edges() {
    let n = n();
    let one = BigUint::one();
    let max: BigUint = (&one << 256usize) - &one;
    let digests: Vec<BigUint> = vec![
        BigUint::zero(),
        one.clone(),
        &n - &one,
        n.clone(),
        &n + &one,
        max.clone(),
        &max - &one,
        &n >> 1,
        &one << 255,
        hexn("ffffffffffffffffffffffffffffffff00000000000000000000000000000000"),
        hexn("00000000000000000000000000000000ffffffffffffffffffffffffffffffff"),
    ];
    let mut rng = Prng::new("e03");
    let mut keys = edge_scalars();
    keys.truncate(9);
    keys.push(rng.scalar());
    for d in keys.iter() {
        let q = ref_pubkey(d);
        for (i, dgv) in digests.iter().enumerate() {
            let dg = be32(dgv);
            let compressed = i % 2 == 0;
            let key = key_of(d, compressed);
            let sig = ECDSA::sign_digest_with_deterministic_k(&key, &dg).unwrap();
            let (r, s) = ref_sign_det(d, &dg, false);
            assert_eq!(sig.r(), be32(&r).to_vec(), "digest#{}", i);
            assert_eq!(sig.s(), be32(&s).to_vec(), "digest#{}", i);
            assert_low_s(&sig);
            let pk = key.to_public_key().unwrap();
            assert!(ECDSA::verify_hashbuf(&dg, &pk, &sig).unwrap(), "digest#{}", i);
            assert!(ref_verify(&q, &dg, &r, &s));
            // a digest that is a different residue must fail
            let dg2 = be32(&((dgv + BigUint::from(5u8)) % (&one << 256usize)));
            assert!(!ECDSA::verify_hashbuf(&dg2, &pk, &sig).unwrap_or(false));
            // recovery data produced by signing leads back to the signer
            let rec = sig.recover_public_key_from_digest(&dg).unwrap();
            assert_eq!(rec.to_bytes().unwrap(), sec1(&q, compressed), "recovery digest#{}", i);
        }
        // wrong lengths are errors, not panics
        assert!(ECDSA::sign_digest_with_deterministic_k(&key_of(d, true), &[0u8; 31]).is_err());
        assert!(ECDSA::sign_digest_with_deterministic_k(&key_of(d, true), &[0u8; 33]).is_err());
        assert!(ECDSA::sign_digest_with_deterministic_k(&key_of(d, true), &[]).is_err());
    }
}

// E03b: prehashed signing of sha256(m) equals message signing of m in normal mode; sha256d likewise
#[test]
fn e03b_prehashed_equals_message_signing() {
    let mut rng = Prng::new("e03b");
    for i in 0..40 {
        let d = rng.scalar();
        let msg = rng.bytes(i * 7);
        let key = key_of(&d, i % 2 == 0);
        for hash in [SigningHash::Sha256, SigningHash::Sha256d] {
            let a = ECDSA::sign_with_deterministic_k(&key, &msg, hash, false).unwrap();
            let b = ECDSA::sign_digest_with_deterministic_k(&key, &digest_of(hash, &msg)).unwrap();
            assert_eq!(a.to_compact_bytes(None), b.to_compact_bytes(None));
        }
        let a = key.sign_message(&msg).unwrap();
        let b = ECDSA::sign_digest_with_deterministic_k(&key, &sha256(&msg)).unwrap();
        assert_eq!(a.to_der_bytes(), b.to_der_bytes());
    }
}

// ---------------------------------------------------------------------------------------------------------
// E04: caller supplied nonce
// ---------------------------------------------------------------------------------------------------------
#[test]
fn e04_caller_nonce() {
    let mut rng = Prng::new("e04");
    let nn = n();
    let mut nonces = edge_scalars();
    // k = 1/2 mod n gives an r of only 166 bits (short DER integer, leading zero bytes in fixed form)
    nonces.push(inv(&BigUint::from(2u8), &nn));
    nonces.push(&nn - inv(&BigUint::from(2u8), &nn));
    let mut keys = vec![BigUint::one(), &nn - BigUint::one(), lambda(), rng.scalar(), rng.scalar()];
    keys.push(&nn >> 1);
    let mut cnt = 0;
    for (ki, d) in keys.iter().enumerate() {
        let q = ref_pubkey(d);
        for (ni, k) in nonces.iter().enumerate() {
            let hash = if (ki + ni) % 2 == 0 { SigningHash::Sha256 } else { SigningHash::Sha256d };
            let compressed = ni % 3 != 0;
            let msg = rng.bytes(ni * 3);
            let key = key_of(d, compressed);
            let eph = key_of(k, ni % 2 == 0);
            let sig = match ECDSA::sign_with_k(&key, &eph, &msg, hash) {
                Ok(s) => s,
                Err(e) => panic!("sign_with_k failed key#{} nonce#{}: {}", ki, ni, e),
            };
            let dg = digest_of(hash, &msg);
            let (r, s) = ref_sign_with_k(d, k, &dg);
            assert_eq!(sig.r(), be32(&r).to_vec(), "key#{} nonce#{}", ki, ni);
            assert_eq!(sig.s(), be32(&s).to_vec(), "key#{} nonce#{}", ki, ni);
            assert_low_s(&sig);
            let pk = key.to_public_key().unwrap();
            assert!(ECDSA::verify_digest(&msg, &pk, &sig, hash).unwrap());
            assert!(!ECDSA::verify_digest(&msg, &pk, &sig, other(hash)).unwrap_or(false));
            assert!(ref_verify(&q, &dg, &r, &s));
            // nonce k and n-k give the same normalised signature
            let eph_neg = key_of(&(&nn - k), true);
            let sig_neg = ECDSA::sign_with_k(&key, &eph_neg, &msg, hash).unwrap();
            assert_eq!(sig_neg.to_der_bytes(), sig.to_der_bytes());
            // serialised forms of the produced signature keep verifying
            let der = Signature::from_der(&sig.to_der_bytes()).unwrap();
            assert_eq!(der.r(), sig.r());
            assert_eq!(der.s(), sig.s());
            assert!(ECDSA::verify_digest(&msg, &pk, &der, hash).unwrap());
            let cmp = Signature::from_compact_bytes(&sig.to_compact_bytes(None)).unwrap();
            assert_eq!(cmp.r(), sig.r());
            assert_eq!(cmp.s(), sig.s());
            assert!(ECDSA::verify_digest(&msg, &pk, &cmp, hash).unwrap());
            // recovery data of the produced signature
            let rec = sig.recover_public_key(&msg, hash).unwrap();
            assert_eq!(rec.to_bytes().unwrap(), sec1(&q, compressed), "recovery key#{} nonce#{}", ki, ni);
            cnt += 1;
        }
    }
    println!("e04: {} caller nonce signatures", cnt);
}

// ---------------------------------------------------------------------------------------------------------
// E05: randomised nonce
// ---------------------------------------------------------------------------------------------------------
#[test]
fn e05_random_nonce() {
    let mut rng = Prng::new("e05");
    let mut keys = edge_scalars();
    keys.truncate(8);
    for _ in 0..8 {
        keys.push(rng.scalar());
    }
    let mut seen = std::collections::HashSet::new();
    for (ki, d) in keys.iter().enumerate() {
        let q = ref_pubkey(d);
        for j in 0..12 {
            let hash = if j % 2 == 0 { SigningHash::Sha256 } else { SigningHash::Sha256d };
            let reverse = (j / 2) % 2 == 0;
            let compressed = (j / 4) % 2 == 0;
            let msg = rng.bytes(j * 11);
            let key = key_of(d, compressed);
            let pk = key.to_public_key().unwrap();
            let sig = ECDSA::sign_with_random_k(&key, &msg, hash, reverse).unwrap();
            assert_low_s(&sig);
            let dg = digest_of(hash, &msg);
            assert!(ECDSA::verify_digest(&msg, &pk, &sig, hash).unwrap(), "key#{} j{}", ki, j);
            assert!(ECDSA::verify_hashbuf(&dg, &pk, &sig).unwrap());
            assert!(ref_verify(&q, &dg, &from_be(&sig.r()), &from_be(&sig.s())), "oracle verify key#{} j{}", ki, j);
            assert!(!ECDSA::verify_digest(&msg, &pk, &sig, other(hash)).unwrap_or(false));
            let mut m2 = msg.clone();
            m2.insert(0, 1);
            assert!(!ECDSA::verify_digest(&m2, &pk, &sig, hash).unwrap_or(false));
            assert!(seen.insert(sig.r()), "nonce repeated");
            let sig_b = ECDSA::sign_with_random_k(&key, &msg, hash, reverse).unwrap();
            assert_ne!(sig_b.r(), sig.r(), "randomised nonce gave the same r twice");
            assert!(seen.insert(sig_b.r()));
            // recovery data
            let rec = sig.recover_public_key(&msg, hash).unwrap();
            assert_eq!(rec.to_bytes().unwrap(), sec1(&q, compressed));
        }
    }
}

// ---------------------------------------------------------------------------------------------------------
// E06: key construction routes give the same signature; compression flag does not change (r, s)
// ---------------------------------------------------------------------------------------------------------
#[test]
fn e06_key_routes() {
    let mut rng = Prng::new("e06");
    let mut keys = vec![BigUint::one(), n() - BigUint::one(), BigUint::from(255u8), BigUint::from(256u16)];
    keys.push(rng.scalar());
    for d in keys.iter() {
        let msg = rng.bytes(77);
        let base = key_of(d, true);
        let routes = vec![
            PrivateKey::from_hex(&hex::encode(be32(d))).unwrap(),
            PrivateKey::from_wif(&base.to_wif().unwrap()).unwrap(),
            PrivateKey::from_wif(&base.compress_public_key(false).to_wif().unwrap()).unwrap(),
            base.compress_public_key(false).compress_public_key(true),
            base.clone(),
            PrivateKey::from_bytes(&base.to_bytes()).unwrap(),
            PrivateKey::from_hex(&hex::encode(be32(d)).to_uppercase()).unwrap(),
        ];
        assert!(!routes[2].to_public_key().unwrap().is_compressed());
        assert!(routes[1].to_public_key().unwrap().is_compressed());
        let want = ref_sign_det(d, &sha256d(&msg), true);
        for (i, k) in routes.iter().enumerate() {
            assert_eq!(k.to_bytes(), be32(d).to_vec(), "route {}", i);
            let sig = ECDSA::sign_with_deterministic_k(k, &msg, SigningHash::Sha256d, true).unwrap();
            assert_eq!(sig.r(), be32(&want.0).to_vec(), "route {}", i);
            assert_eq!(sig.s(), be32(&want.1).to_vec(), "route {}", i);
            // verifies under both encodings of the signer's key
            let pk = k.to_public_key().unwrap();
            for form in [pk.to_compressed().unwrap(), pk.to_decompressed().unwrap(), PublicKey::from_private_key(k), PublicKey::from_bytes(&pk.to_bytes().unwrap()).unwrap(), PublicKey::from_hex(&pk.to_hex().unwrap()).unwrap()] {
                assert!(ECDSA::verify_digest(&msg, &form, &sig, SigningHash::Sha256d).unwrap());
            }
        }
        // out of range keys are refused rather than wrapped
        assert!(PrivateKey::from_bytes(&be32(&n())).is_err());
        assert!(PrivateKey::from_bytes(&[0u8; 32]).is_err());
        assert!(PrivateKey::from_bytes(&[0xffu8; 32]).is_err());
        assert!(PrivateKey::from_bytes(&[1u8; 31]).is_err());
        assert!(PrivateKey::from_bytes(&[1u8; 33]).is_err());
        assert!(PrivateKey::from_bytes(&[]).is_err());
    }
}

// ---------------------------------------------------------------------------------------------------------
// E07: ECDH
// ---------------------------------------------------------------------------------------------------------
#[test]
fn e07_ecdh_symmetric_and_matches_oracle() {
    let mut rng = Prng::new("e07");
    let mut scalars = edge_scalars();
    for _ in 0..6 {
        scalars.push(rng.scalar());
    }
    let m = scalars.len();
    let mut cnt = 0;
    for i in 0..m {
        // pair every scalar with a few others (including itself and its negative)
        for j in [i, (i + 1) % m, (i * 7 + 3) % m, (m - 1 - i)] {
            let a = &scalars[i];
            let b = &scalars[j];
            let ka = key_of(a, i % 2 == 0);
            let kb = key_of(b, j % 3 == 0);
            let pa = ka.to_public_key().unwrap();
            let pb = kb.to_public_key().unwrap();
            let s1 = ECDH::derive_shared_key(&ka, &pb).unwrap();
            let s2 = ECDH::derive_shared_key(&kb, &pa).unwrap();
            assert_eq!(s1, s2, "ECDH not symmetric for scalars #{} #{}", i, j);
            let shared = to_affine(&jac_mul(&((a * b) % n()), &g())).unwrap();
            assert_eq!(s1, be32(&shared.0).to_vec(), "ECDH differs from oracle #{} #{}", i, j);
            // independent of the encoding of the peer key
            let s3 = ECDH::derive_shared_key(&ka, &pb.to_compressed().unwrap()).unwrap();
            let s4 = ECDH::derive_shared_key(&ka, &pb.to_decompressed().unwrap()).unwrap();
            assert_eq!(s3, s1);
            assert_eq!(s4, s1);
            // also via a * Q_b computed the long way in the oracle
            let qb = ref_pubkey(b);
            let alt = to_affine(&jac_mul(a, &from_affine(&qb.0, &qb.1))).unwrap();
            assert_eq!(alt, shared);
            // the ECIES key derivation uses the same point (compressed) hashed with SHA-512
            let ck = ECIES::derive_cipher_keys(&ka, &pb).unwrap();
            let ck2 = ECIES::derive_cipher_keys(&kb, &pa).unwrap();
            let h = Hash::sha_512(&sec1(&shared, true)).to_bytes();
            assert_eq!(ck.get_iv(), h[0..16].to_vec());
            assert_eq!(ck.get_ke(), h[16..32].to_vec());
            assert_eq!(ck.get_km(), h[32..64].to_vec());
            assert_eq!(ck2.get_iv(), ck.get_iv());
            assert_eq!(ck2.get_km(), ck.get_km());
            cnt += 1;
        }
    }
    println!("e07: {} ECDH pairs", cnt);
}

// ---------------------------------------------------------------------------------------------------------
// E08: Bitcoin Signed Message signing (double SHA-256 over the magic framed message, normal nonce mode)
// ---------------------------------------------------------------------------------------------------------
fn varint(v: usize) -> Vec<u8> {
    if v < 0xfd {
        vec![v as u8]
    } else if v <= 0xffff {
        let mut o = vec![0xfd];
        o.extend_from_slice(&(v as u16).to_le_bytes());
        o
    } else {
        let mut o = vec![0xfe];
        o.extend_from_slice(&(v as u32).to_le_bytes());
        o
    }
}
#[test]
fn e08_bsm_signing() {
    let mut rng = Prng::new("e08");
    for (i, len) in [0usize, 1, 252, 253, 254, 65535, 65536, 70000].iter().enumerate() {
        let d = if i == 0 { BigUint::one() } else if i == 1 { n() - BigUint::one() } else { rng.scalar() };
        let compressed = i % 2 == 0;
        let key = key_of(&d, compressed);
        let msg = rng.bytes(*len);
        let mut framed = vec![24u8];
        framed.extend_from_slice(b"Bitcoin Signed Message:\n");
        framed.extend_from_slice(&varint(*len));
        framed.extend_from_slice(&msg);
        let dg = sha256d(&framed);
        let sig = BSM::sign_message(&key, &msg).unwrap();
        let (r, s) = ref_sign_det(&d, &dg, false);
        assert_eq!(sig.r(), be32(&r).to_vec(), "len {}", len);
        assert_eq!(sig.s(), be32(&s).to_vec(), "len {}", len);
        assert_low_s(&sig);
        let pk = key.to_public_key().unwrap();
        let addr = pk.to_p2pkh_address().unwrap();
        assert!(BSM::verify_message(&msg, &sig, &addr).unwrap());
        assert!(BSM::is_valid_message(&msg, &sig, &addr));
        let mut m2 = msg.clone();
        m2.push(1);
        assert!(!BSM::is_valid_message(&m2, &sig, &addr));
        let other_addr = key_of(&((&d + BigUint::from(2u8)) % n()).max(BigUint::one()), compressed).to_public_key().unwrap().to_p2pkh_address().unwrap();
        assert!(!BSM::is_valid_message(&msg, &sig, &other_addr));
        // compact round trip
        let back = Signature::from_compact_bytes(&sig.to_compact_bytes(None)).unwrap();
        assert!(BSM::verify_message(&msg, &back, &addr).unwrap());
        // with caller nonce
        let k = rng.scalar();
        let sigk = BSM::sign_message_with_k(&key, &key_of(&k, true), &msg).unwrap();
        let (rk, sk) = ref_sign_with_k(&d, &k, &dg);
        assert_eq!(sigk.r(), be32(&rk).to_vec());
        assert_eq!(sigk.s(), be32(&sk).to_vec());
        assert!(BSM::verify_message(&msg, &sigk, &addr).unwrap());
    }
}

// ---------------------------------------------------------------------------------------------------------
// E09: transaction signing = double SHA-256 of the preimage, reversed nonce mode
// ---------------------------------------------------------------------------------------------------------
#[test]
fn e09_transaction_signing() {
    let mut rng = Prng::new("e09");
    let script = Script::from_asm_string("OP_DUP OP_HASH160 20bb5c3bfaef0231dc05190e7f1c8e22e098991e OP_EQUALVERIFY OP_CHECKSIG").unwrap();
    for i in 0..6 {
        let d = match i {
            0 => BigUint::one(),
            1 => n() - BigUint::one(),
            _ => rng.scalar(),
        };
        let key = key_of(&d, i % 2 == 0);
        let mut tx = Transaction::new(1, 0);
        tx.add_input(&TxIn::new(&rng.next32(), i as u32, &Script::default(), None));
        tx.add_input(&TxIn::new(&rng.next32(), 7, &Script::default(), Some(5)));
        tx.add_output(&TxOut::new(1000 + i as u64, &script));
        tx.add_output(&TxOut::new(7, &Script::from_asm_string("OP_0 OP_RETURN").unwrap()));
        for sh in [SigHash::InputsOutputs, SigHash::Input, SigHash::InputOutput, SigHash::Legacy_InputOutputs] {
            for idx in 0..2usize {
                let pre = tx.sighash_preimage(sh, idx, &script, 5000).unwrap();
                let ss = tx.sign(&key, sh, idx, &script, 5000).unwrap();
                let dg = sha256d(&pre);
                let (r, s) = ref_sign_det(&d, &dg, true);
                let bytes = ss.to_bytes().unwrap();
                let sig = Signature::from_der(&bytes[..bytes.len() - 1]).unwrap();
                assert_eq!(sig.r(), be32(&r).to_vec());
                assert_eq!(sig.s(), be32(&s).to_vec());
                assert_low_s(&sig);
                let pk = key.to_public_key().unwrap();
                assert!(tx.verify(&pk, &ss));
                assert!(ECDSA::verify_digest(&pre, &pk, &sig, SigningHash::Sha256d).unwrap());
                assert!(ref_verify(&ref_pubkey(&d), &dg, &r, &s));
                // caller nonce
                let k = rng.scalar();
                let ssk = tx.sign_with_k(&key, &key_of(&k, true), sh, idx, &script, 5000).unwrap();
                let b = ssk.to_bytes().unwrap();
                let sigk = Signature::from_der(&b[..b.len() - 1]).unwrap();
                let (rk, sk) = ref_sign_with_k(&d, &k, &dg);
                assert_eq!(sigk.r(), be32(&rk).to_vec());
                assert_eq!(sigk.s(), be32(&sk).to_vec());
                assert!(tx.verify(&pk, &ssk));
            }
        }
    }
}

// The repository's own pinned transaction signature (from another implementation) is reproduced by the oracle
#[test]
fn e09b_pinned_tx_vector_matches_oracle() {
    let priv_key = PrivateKey::from_wif("L31JUXCGspUREe9Gya8F2WWjeoRz3bb8AQzJjAP8ntGYp37oYdSx").unwrap();
    let pre = hex::decode("010000008bf38a2d3f477a28aba2fe171260ffb0315c7371617ba6e39aea4ed97558c35800000000000000000000000000000000000000000000000000000000000000009e8d016a7b0dc49a325922d05da1f916d1e4d4f0cb840c9727f3d22ce8d1363f0000000002006a0000000000000000ffffffffc7732d98e887792b43e5dae92a159010d22e47d60ed48b88ba7b6c12a3c9e7560000000043000000").unwrap();
    let d = from_be(&priv_key.to_bytes());
    let (r, s) = ref_sign_det(&d, &sha256d(&pre), true);
    assert_eq!(hex::encode(be32(&r)), "798bd19a0bb1fd5e1b3832e46ae69af687d87cbd179a81e60af719382860aee5");
    assert_eq!(hex::encode(be32(&s)), "6d849665f4010a54f40d9ac463629cbd758042745cebf7122818d9bfea2bce70");
}

// ---------------------------------------------------------------------------------------------------------
// E10: message signing convenience entry points
// ---------------------------------------------------------------------------------------------------------
#[test]
fn e10_sign_message_entry_points() {
    let mut rng = Prng::new("e10");
    for i in 0..30 {
        let d = if i == 0 { BigUint::one() } else if i == 1 { n() - BigUint::one() } else { rng.scalar() };
        let key = key_of(&d, i % 2 == 1);
        let pk = key.to_public_key().unwrap();
        let msg = rng.bytes(i * 13);
        let sig = key.sign_message(&msg).unwrap();
        let (r, s) = ref_sign_det(&d, &sha256(&msg), false);
        assert_eq!(sig.r(), be32(&r).to_vec());
        assert_eq!(sig.s(), be32(&s).to_vec());
        assert_eq!(sig.r_hex(), hex::encode(be32(&r)));
        assert_eq!(sig.s_hex(), hex::encode(be32(&s)));
        assert!(pk.verify_message(&msg, &sig).unwrap());
        assert!(pk.is_valid_message(&msg, &sig));
        assert!(sig.verify_message(&msg, &pk));
        let mut m2 = msg.clone();
        m2.push(b'x');
        assert!(!pk.is_valid_message(&m2, &sig));
        assert!(!sig.verify_message(&m2, &pk));
        assert!(pk.verify_message(&m2, &sig).is_err() || !pk.verify_message(&m2, &sig).unwrap());
        // signed with sha256, must not verify as sha256d
        assert!(!ECDSA::verify_digest(&msg, &pk, &sig, SigningHash::Sha256d).unwrap_or(false));
        // the DER text form
        let back = Signature::from_hex_der(&sig.to_der_hex()).unwrap();
        assert!(back.verify_message(&msg, &pk));
        assert_eq!(back.r(), sig.r());
        assert_eq!(back.s(), sig.s());
    }
}

// ---------------------------------------------------------------------------------------------------------
// E11: public key from private key equals oracle for structured scalars (scalar multiplication edge cases)
// ---------------------------------------------------------------------------------------------------------
#[test]
fn e11_public_key_edge_scalars() {
    let mut rng = Prng::new("e11");
    let mut scalars = edge_scalars();
    for _ in 0..40 {
        scalars.push(rng.scalar());
    }
    // scalars with long runs / sparse bits
    for sh in [1u32, 31, 32, 33, 63, 64, 65, 127, 129, 191, 193, 254] {
        scalars.push(BigUint::one() << sh);
        scalars.push((BigUint::one() << sh) - BigUint::one());
        scalars.push(n() - (BigUint::one() << sh));
    }
    for d in scalars.iter() {
        let q = ref_pubkey(d);
        assert!(on_curve(&q.0, &q.1));
        for c in [true, false] {
            let key = key_of(d, c);
            assert_eq!(key.to_public_key().unwrap().to_bytes().unwrap(), sec1(&q, c));
            assert_eq!(PublicKey::from_private_key(&key).to_bytes().unwrap(), sec1(&q, c));
            assert_eq!(key.get_point(), sec1(&q, c));
        }
    }
}

// ---------------------------------------------------------------------------------------------------------
// E12: verification decisions on altered signatures of the library's own output (oracle: reference verifier)
// ---------------------------------------------------------------------------------------------------------
#[test]
fn e12_verify_decisions_match_reference_on_mutations() {
    let mut rng = Prng::new("e12");
    let nn = n();
    for i in 0..25 {
        let d = rng.scalar();
        let q = ref_pubkey(&d);
        let key = key_of(&d, i % 2 == 0);
        let pk = key.to_public_key().unwrap();
        let msg = rng.bytes(40);
        let sig = ECDSA::sign_with_deterministic_k(&key, &msg, SigningHash::Sha256, false).unwrap();
        let dg = sha256(&msg);
        let r = from_be(&sig.r());
        let s = from_be(&sig.s());
        // candidates: (r, s+1), (r+1, s), (s, r), (r, n-s) [the high-S twin is valid ECDSA but not low-S]
        let cands = vec![
            (r.clone(), (&s + BigUint::one()) % &nn),
            ((&r + BigUint::one()) % &nn, s.clone()),
            (s.clone(), r.clone()),
        ];
        for (cr, cs) in cands {
            if cr.is_zero() || cs.is_zero() {
                continue;
            }
            let mut compact = vec![31u8];
            compact.extend_from_slice(&be32(&cr));
            compact.extend_from_slice(&be32(&cs));
            let cand = Signature::from_compact_bytes(&compact).unwrap();
            let want = ref_verify(&q, &dg, &cr, &cs) && cs <= (&nn >> 1);
            assert_eq!(ECDSA::verify_digest(&msg, &pk, &cand, SigningHash::Sha256).unwrap_or(false), want);
            assert_eq!(ECDSA::verify_hashbuf(&dg, &pk, &cand).unwrap_or(false), want);
        }
    }
}

// ---------------------------------------------------------------------------------------------------------
// E13: determinism under concurrency and after cloning / reuse of the key object
// ---------------------------------------------------------------------------------------------------------
#[test]
fn e13_reproducible_parallel() {
    use rayon::prelude::*;
    let d = hexn("c9afa9d845ba75166b5c215767b1d6934e50c3db36e89b127b8a622b120f6721");
    let key = key_of(&d, true);
    let msg = b"sample".to_vec();
    let want = ref_sign_det(&d, &sha256(&msg), false);
    let all: Vec<Vec<u8>> = (0..256)
        .into_par_iter()
        .map(|i| {
            let k = if i % 2 == 0 { key.clone() } else { key.compress_public_key(false) };
            // interleave other operations on the same key object
            let _ = ECDSA::sign_with_random_k(&k, b"noise", SigningHash::Sha256d, true).unwrap();
            ECDSA::sign_with_deterministic_k(&k, &msg, SigningHash::Sha256, false).unwrap().to_compact_bytes(None)[1..].to_vec()
        })
        .collect();
    let mut expect = be32(&want.0).to_vec();
    expect.extend_from_slice(&be32(&want.1));
    for a in all {
        assert_eq!(a, expect);
    }
}

// ---------------------------------------------------------------------------------------------------------
// E14: hash plumbing used by signing: Sha256r / Sha256d digests and get_hash_digest against plain SHA-256
// ---------------------------------------------------------------------------------------------------------
#[test]
fn e14_hash_plumbing() {
    use digest::FixedOutput;
    let mut rng = Prng::new("e14");
    for len in [0usize, 1, 55, 56, 64, 119, 120, 128, 1000] {
        let m = rng.bytes(len);
        assert_eq!(get_hash_digest(SigningHash::Sha256, &m).finalize_fixed().to_vec(), sha256(&m).to_vec());
        assert_eq!(get_hash_digest(SigningHash::Sha256d, &m).finalize_fixed().to_vec(), sha256d(&m).to_vec());
        let mut rev = sha256d(&m).to_vec();
        rev.reverse();
        assert_eq!(get_hash_digest(SigningHash::Sha256d, &m).reverse().finalize_fixed().to_vec(), rev);
        assert_eq!(Hash::sha_256d(&m).to_bytes(), sha256d(&m).to_vec());
        assert_eq!(Hash::sha_256(&m).to_bytes(), sha256(&m).to_vec());
        // reset / reuse of the digest object
        let mut dgs = get_hash_digest(SigningHash::Sha256, &m);
        let first = dgs.finalize_fixed_reset().to_vec();
        assert_eq!(first, sha256(&m).to_vec());
        digest::Update::update(&mut dgs, &m);
        assert_eq!(dgs.finalize_fixed().to_vec(), sha256(&m).to_vec());
        // HMAC helper against the hand built HMAC
        let key = rng.bytes(len % 100);
        assert_eq!(Hash::sha_256_hmac(&m, &key).to_bytes(), hmac_sha256(&key, &[&m]).to_vec());
    }
}

// ---------------------------------------------------------------------------------------------------------
// E15: large message, and messages that only differ in trailing zero bytes / empty vs [0]
// ---------------------------------------------------------------------------------------------------------
#[test]
fn e15_message_lengths() {
    let d = hexn("0000000000000000000000000000000000000000000000000000000000000001");
    let key = key_of(&d, true);
    let pk = key.to_public_key().unwrap();
    let big = vec![0xabu8; 3_000_000];
    for hash in [SigningHash::Sha256, SigningHash::Sha256d] {
        for reverse in [false, true] {
            let sig = ECDSA::sign_with_deterministic_k(&key, &big, hash, reverse).unwrap();
            let (r, s) = ref_sign_det(&d, &digest_of(hash, &big), reverse);
            assert_eq!(sig.r(), be32(&r).to_vec());
            assert_eq!(sig.s(), be32(&s).to_vec());
            assert!(ECDSA::verify_digest(&big, &pk, &sig, hash).unwrap());
            assert!(!ECDSA::verify_digest(&big[1..], &pk, &sig, hash).unwrap_or(false));
        }
    }
    let e = ECDSA::sign_with_deterministic_k(&key, &[], SigningHash::Sha256, false).unwrap();
    let z = ECDSA::sign_with_deterministic_k(&key, &[0], SigningHash::Sha256, false).unwrap();
    assert_ne!(e.to_der_bytes(), z.to_der_bytes());
    assert!(!ECDSA::verify_digest(&[0], &pk, &e, SigningHash::Sha256).unwrap_or(false));
    assert!(!ECDSA::verify_digest(&[], &pk, &z, SigningHash::Sha256).unwrap_or(false));
    // Sha256d of m is Sha256 of sha256(m): the signature over m with Sha256d must verify as Sha256 over sha256(m) and only so
    let m = b"layered".to_vec();
    let sd = ECDSA::sign_with_deterministic_k(&key, &m, SigningHash::Sha256d, false).unwrap();
    assert!(ECDSA::verify_digest(&sha256(&m), &pk, &sd, SigningHash::Sha256).unwrap());
    let s1 = ECDSA::sign_with_deterministic_k(&key, &sha256(&m), SigningHash::Sha256, false).unwrap();
    assert_eq!(s1.to_der_bytes(), sd.to_der_bytes());
}

// ---------------------------------------------------------------------------------------------------------
// E16: ephemeral key object flags do not leak into the signature; signer == nonce key
// ---------------------------------------------------------------------------------------------------------
#[test]
fn e16_nonce_equal_to_key_and_flags() {
    let mut rng = Prng::new("e16");
    for i in 0..10 {
        let d = if i == 0 { BigUint::one() } else if i == 1 { n() - BigUint::one() } else { rng.scalar() };
        let key = key_of(&d, i % 2 == 0);
        let msg = rng.bytes(20);
        let a = ECDSA::sign_with_k(&key, &key, &msg, SigningHash::Sha256).unwrap();
        let b = ECDSA::sign_with_k(&key, &key.compress_public_key(i % 2 != 0), &msg, SigningHash::Sha256).unwrap();
        assert_eq!(a.to_compact_bytes(None), b.to_compact_bytes(None));
        let (r, s) = ref_sign_with_k(&d, &d, &sha256(&msg));
        assert_eq!(a.r(), be32(&r).to_vec());
        assert_eq!(a.s(), be32(&s).to_vec());
        assert!(ECDSA::verify_digest(&msg, &key.to_public_key().unwrap(), &a, SigningHash::Sha256).unwrap());
        // compact header byte records the signer's compression flag
        let hdr = a.to_compact_bytes(None)[0];
        assert_eq!(hdr >= 31, i % 2 == 0);
    }
}

// ---------------------------------------------------------------------------------------------------------
// E17: related keys must not verify: negated key, same abscissa with flipped parity, key*lambda (same ordinate)
// ---------------------------------------------------------------------------------------------------------
#[test]
fn e17_related_keys_do_not_verify() {
    let mut rng = Prng::new("e17");
    let nn = n();
    for i in 0..12 {
        let d = if i == 0 { BigUint::one() } else if i == 1 { &nn - BigUint::one() } else { rng.scalar() };
        let key = key_of(&d, true);
        let pk = key.to_public_key().unwrap();
        let msg = rng.bytes(33);
        for hash in [SigningHash::Sha256, SigningHash::Sha256d] {
            let sig = ECDSA::sign_with_deterministic_k(&key, &msg, hash, i % 2 == 0).unwrap();
            assert!(ECDSA::verify_digest(&msg, &pk, &sig, hash).unwrap());
            let neg = key_of(&(&nn - &d), true).to_public_key().unwrap();
            assert!(!ECDSA::verify_digest(&msg, &neg, &sig, hash).unwrap_or(false));
            let mut flipped = pk.to_bytes().unwrap();
            flipped[0] ^= 1;
            assert_eq!(flipped, neg.to_bytes().unwrap());
            let flipped = PublicKey::from_bytes(&flipped).unwrap();
            assert!(!ECDSA::verify_digest(&msg, &flipped, &sig, hash).unwrap_or(false));
            assert!(!ECDSA::verify_hashbuf(&digest_of(hash, &msg), &flipped, &sig).unwrap_or(false));
            let lam = key_of(&((&d * lambda()) % &nn), false).to_public_key().unwrap();
            assert!(!ECDSA::verify_digest(&msg, &lam, &sig, hash).unwrap_or(false));
        }
    }
}

// ---------------------------------------------------------------------------------------------------------
// E18: keys coming out of HD derivation sign like the same scalar imported directly
// ---------------------------------------------------------------------------------------------------------
#[test]
fn e18_hd_derived_keys() {
    let xprv = ExtendedPrivateKey::from_seed(&[7u8; 64]).unwrap();
    for path in ["m/0", "m/0'/1", "m/44'/0'/0'/0/5", "m/2147483647'/1"] {
        let child = xprv.derive_from_path(path).unwrap();
        let key = child.get_private_key();
        let d = from_be(&key.to_bytes());
        let q = ref_pubkey(&d);
        assert_eq!(child.get_public_key().to_bytes().unwrap(), sec1(&q, true));
        let msg = path.as_bytes();
        for hash in [SigningHash::Sha256, SigningHash::Sha256d] {
            for rev in [false, true] {
                let sig = ECDSA::sign_with_deterministic_k(&key, msg, hash, rev).unwrap();
                let (r, s) = ref_sign_det(&d, &digest_of(hash, msg), rev);
                assert_eq!(sig.r(), be32(&r).to_vec());
                assert_eq!(sig.s(), be32(&s).to_vec());
                assert!(ECDSA::verify_digest(msg, &child.get_public_key(), &sig, hash).unwrap());
                let xpub = ExtendedPublicKey::from_xpriv(&child);
                assert!(ECDSA::verify_digest(msg, &xpub.get_public_key(), &sig, hash).unwrap());
            }
        }
    }
}

// ---------------------------------------------------------------------------------------------------------
// E19: a signature made by Transaction::sign unlocks P2PKH in the script interpreter, compressed and uncompressed
// ---------------------------------------------------------------------------------------------------------
#[test]
fn e19_interpreter_accepts_library_signatures() {
    let mut rng = Prng::new("e19");
    for i in 0..6 {
        let d = if i == 0 { BigUint::one() } else if i == 1 { n() - BigUint::one() } else { rng.scalar() };
        let key = key_of(&d, i % 2 == 0);
        let pubkey = key.to_public_key().unwrap();
        let mut tx = Transaction::new(2, 0);
        let locking_script = Script::from_asm_string(&format!("OP_DUP OP_HASH160 {} OP_EQUALVERIFY OP_CHECKSIG", Hash::hash_160(&pubkey.to_bytes().unwrap()).to_hex())).unwrap();
        let mut txin = TxIn::default();
        txin.set_satoshis(1234);
        txin.set_locking_script(&locking_script);
        tx.add_input(&txin);
        let signature = tx.sign(&key, SigHash::InputsOutputs, 0, &locking_script, 1234).unwrap();
        let script = Script::from_asm_string(&format!("{} {}", signature.to_hex().unwrap(), pubkey.to_hex().unwrap())).unwrap();
        txin.set_unlocking_script(&script);
        tx.set_input(0, &txin);
        let mut interpreter = Interpreter::from_transaction(&tx, 0).unwrap();
        interpreter.run().unwrap();
        assert_eq!(interpreter.state().stack().last().unwrap(), &vec![1_u8], "case {}", i);
    }
}

// ---------------------------------------------------------------------------------------------------------
// E20: address level verification of signed messages
// ---------------------------------------------------------------------------------------------------------
#[test]
fn e20_address_verify_bitcoin_message() {
    let mut rng = Prng::new("e20");
    for i in 0..8 {
        let d = rng.scalar();
        let key = key_of(&d, i % 2 == 0);
        let addr = key.to_public_key().unwrap().to_p2pkh_address().unwrap();
        let msg = rng.bytes(i * 40);
        let sig = BSM::sign_message(&key, &msg).unwrap();
        assert!(addr.verify_bitcoin_message(&msg, &sig).unwrap());
        // the other encoding of the same key is a different address
        let addr2 = key.compress_public_key(i % 2 != 0).to_public_key().unwrap().to_p2pkh_address().unwrap();
        assert!(!addr2.verify_bitcoin_message(&msg, &sig).unwrap_or(false));
        // DER form lost the recovery data: cannot be verified against an address, but is not accepted wrongly
        let der = Signature::from_der(&sig.to_der_bytes()).unwrap();
        assert!(!addr.verify_bitcoin_message(&msg, &der).unwrap_or(false));
    }
}

// ---------------------------------------------------------------------------------------------------------
// E21: caller nonce that makes s == 0 (d = -z / r): no signature exists for that nonce; must be an error, not a panic
//      and not a returned signature
// ---------------------------------------------------------------------------------------------------------
#[test]
fn e21_forced_zero_s_is_an_error() {
    let mut rng = Prng::new("e21");
    let nn = n();
    for hash in [SigningHash::Sha256, SigningHash::Sha256d] {
        let k = rng.scalar();
        let msg = rng.bytes(50);
        let z = from_be(&digest_of(hash, &msg)) % &nn;
        let r = to_affine(&jac_mul(&k, &g())).unwrap().0 % &nn;
        let d = ((&nn - &z) * inv(&r, &nn)) % &nn;
        assert!(((&z + &r * &d) % &nn).is_zero());
        let res = ECDSA::sign_with_k(&key_of(&d, true), &key_of(&k, true), &msg, hash);
        assert!(res.is_err(), "a signature with s == 0 was returned");
        // the neighbouring key signs fine
        let d2 = (&d + BigUint::one()) % &nn;
        let sig = ECDSA::sign_with_k(&key_of(&d2, true), &key_of(&k, true), &msg, hash).unwrap();
        let (rr, ss) = ref_sign_with_k(&d2, &k, &digest_of(hash, &msg));
        assert_eq!(sig.r(), be32(&rr).to_vec());
        assert_eq!(sig.s(), be32(&ss).to_vec());
    }
}

// ---------------------------------------------------------------------------------------------------------
// E22: the byte forms of produced signatures: minimal DER built by hand, compact = header || r || s with the
//      header computed from the oracle's R (parity of R.y, flipped when s was negated)
// ---------------------------------------------------------------------------------------------------------
fn der_int(v: &BigUint) -> Vec<u8> {
    let mut b = v.to_bytes_be();
    if b[0] & 0x80 != 0 {
        b.insert(0, 0);
    }
    let mut o = vec![0x02, b.len() as u8];
    o.extend_from_slice(&b);
    o
}
fn der_sig(r: &BigUint, s: &BigUint) -> Vec<u8> {
    let mut body = der_int(r);
    body.extend_from_slice(&der_int(s));
    let mut o = vec![0x30, body.len() as u8];
    o.extend_from_slice(&body);
    o
}
/// (r, s, recid) for a given nonce
fn ref_sign_with_k_rec(d: &BigUint, k: &BigUint, digest: &[u8; 32]) -> (BigUint, BigUint, u8) {
    let nn = n();
    let z = from_be(digest) % &nn;
    let (rx, ry) = to_affine(&jac_mul(k, &g())).unwrap();
    let r = &rx % &nn;
    let mut s = (inv(k, &nn) * ((z + &r * d) % &nn)) % &nn;
    let mut odd = ry.bit(0);
    if s > (&nn >> 1) {
        s = &nn - s;
        odd = !odd;
    }
    let recid = (odd as u8) | (if rx >= nn { 2 } else { 0 });
    (r, s, recid)
}
#[test]
fn e22_der_and_compact_bytes() {
    let mut rng = Prng::new("e22");
    let nn = n();
    let half_inv = inv(&BigUint::from(2u8), &nn);
    let mut nonces = vec![half_inv.clone(), &nn - &half_inv, BigUint::one(), BigUint::from(2u8), &nn - BigUint::one()];
    for _ in 0..40 {
        nonces.push(rng.scalar());
    }
    for (i, k) in nonces.iter().enumerate() {
        let d = if i % 5 == 0 { BigUint::one() } else { rng.scalar() };
        let compressed = i % 2 == 0;
        let key = key_of(&d, compressed);
        let msg = rng.bytes(i);
        let hash = if i % 3 == 0 { SigningHash::Sha256 } else { SigningHash::Sha256d };
        let dg = digest_of(hash, &msg);
        let sig = ECDSA::sign_with_k(&key, &key_of(k, true), &msg, hash).unwrap();
        let (r, s, recid) = ref_sign_with_k_rec(&d, k, &dg);
        assert_eq!(sig.to_der_bytes(), der_sig(&r, &s), "DER nonce#{}", i);
        assert_eq!(sig.to_der_hex(), hex::encode(der_sig(&r, &s)));
        let mut compact = vec![27 + recid + if compressed { 4 } else { 0 }];
        compact.extend_from_slice(&be32(&r));
        compact.extend_from_slice(&be32(&s));
        assert_eq!(sig.to_compact_bytes(None), compact, "compact nonce#{}", i);
        assert_eq!(sig.to_compact_hex(None), hex::encode(&compact));
        // deterministic route, same checks
        let rev = i % 2 == 1;
        let sigd = ECDSA::sign_with_deterministic_k(&key, &msg, hash, rev).unwrap();
        let mut h1 = dg;
        if rev {
            h1.reverse();
        }
        let kd = rfc6979_k(&d, &h1);
        let (r, s, recid) = ref_sign_with_k_rec(&d, &kd, &dg);
        assert_eq!(sigd.to_der_bytes(), der_sig(&r, &s));
        let mut compact = vec![27 + recid + if compressed { 4 } else { 0 }];
        compact.extend_from_slice(&be32(&r));
        compact.extend_from_slice(&be32(&s));
        assert_eq!(sigd.to_compact_bytes(None), compact);
    }
    // the short r really is short (guards the experiment itself)
    let (r, _, _) = ref_sign_with_k_rec(&BigUint::one(), &half_inv, &[1u8; 32]);
    assert!(r.bits() <= 166);
}

// ---------------------------------------------------------------------------------------------------------
// E23: wide random sweep in parallel (deterministic both modes, caller nonce, pre-hashed, ECDH)
// ---------------------------------------------------------------------------------------------------------
#[test]
fn e23_wide_sweep() {
    use rayon::prelude::*;
    (0..3000u32).into_par_iter().for_each(|i| {
        let mut rng = Prng::new(&format!("e23-{}", i));
        let d = rng.scalar();
        let compressed = i % 2 == 0;
        let key = key_of(&d, compressed);
        let pk = key.to_public_key().unwrap();
        let msg = rng.bytes((i % 200) as usize);
        let hash = if (i / 2) % 2 == 0 { SigningHash::Sha256 } else { SigningHash::Sha256d };
        let dg = digest_of(hash, &msg);
        match i % 4 {
            0 | 1 => {
                let rev = i % 4 == 1;
                let sig = ECDSA::sign_with_deterministic_k(&key, &msg, hash, rev).unwrap();
                let (r, s) = ref_sign_det(&d, &dg, rev);
                assert_eq!(sig.r(), be32(&r).to_vec(), "case {}", i);
                assert_eq!(sig.s(), be32(&s).to_vec(), "case {}", i);
                assert!(ECDSA::verify_digest(&msg, &pk, &sig, hash).unwrap());
            }
            2 => {
                let k = rng.scalar();
                let sig = ECDSA::sign_with_k(&key, &key_of(&k, true), &msg, hash).unwrap();
                let (r, s) = ref_sign_with_k(&d, &k, &dg);
                assert_eq!(sig.r(), be32(&r).to_vec(), "case {}", i);
                assert_eq!(sig.s(), be32(&s).to_vec(), "case {}", i);
                assert!(ECDSA::verify_digest(&msg, &pk, &sig, hash).unwrap());
            }
            _ => {
                let raw = rng.next32();
                let sig = ECDSA::sign_digest_with_deterministic_k(&key, &raw).unwrap();
                let (r, s) = ref_sign_det(&d, &raw, false);
                assert_eq!(sig.r(), be32(&r).to_vec(), "case {}", i);
                assert_eq!(sig.s(), be32(&s).to_vec(), "case {}", i);
                assert!(ECDSA::verify_hashbuf(&raw, &pk, &sig).unwrap());
                let b = rng.scalar();
                let kb = key_of(&b, !compressed);
                let s1 = ECDH::derive_shared_key(&key, &kb.to_public_key().unwrap()).unwrap();
                let s2 = ECDH::derive_shared_key(&kb, &pk).unwrap();
                let want = to_affine(&jac_mul(&((&d * &b) % n()), &g())).unwrap().0;
                assert_eq!(s1, s2);
                assert_eq!(s1, be32(&want).to_vec(), "ecdh case {}", i);
            }
        }
    });
}
