// Independent hunt for property C05 (ECDSA signing / verification / RFC 6979 / ECDH).
// Everything in `reference` is written here from the specifications (FIPS 180-4, RFC 2104, RFC 6979, SEC1)
// on top of num-bigint only; it shares no code with the library's signing path.
#![allow(dead_code)]

use bsv::*;
use num_bigint::BigUint;

mod reference {
    use num_bigint::BigUint;

    // ---------------------------------------------------------------- SHA-256 (FIPS 180-4)
    const K: [u32; 64] = [
        0x428a2f98, 0x71374491, 0xb5c0fbcf, 0xe9b5dba5, 0x3956c25b, 0x59f111f1, 0x923f82a4, 0xab1c5ed5, 0xd807aa98, 0x12835b01, 0x243185be, 0x550c7dc3, 0x72be5d74, 0x80deb1fe, 0x9bdc06a7, 0xc19bf174,
        0xe49b69c1, 0xefbe4786, 0x0fc19dc6, 0x240ca1cc, 0x2de92c6f, 0x4a7484aa, 0x5cb0a9dc, 0x76f988da, 0x983e5152, 0xa831c66d, 0xb00327c8, 0xbf597fc7, 0xc6e00bf3, 0xd5a79147, 0x06ca6351, 0x14292967,
        0x27b70a85, 0x2e1b2138, 0x4d2c6dfc, 0x53380d13, 0x650a7354, 0x766a0abb, 0x81c2c92e, 0x92722c85, 0xa2bfe8a1, 0xa81a664b, 0xc24b8b70, 0xc76c51a3, 0xd192e819, 0xd6990624, 0xf40e3585, 0x106aa070,
        0x19a4c116, 0x1e376c08, 0x2748774c, 0x34b0bcb5, 0x391c0cb3, 0x4ed8aa4a, 0x5b9cca4f, 0x682e6ff3, 0x748f82ee, 0x78a5636f, 0x84c87814, 0x8cc70208, 0x90befffa, 0xa4506ceb, 0xbef9a3f7, 0xc67178f2,
    ];

    pub fn sha256(data: &[u8]) -> [u8; 32] {
        let mut h: [u32; 8] = [0x6a09e667, 0xbb67ae85, 0x3c6ef372, 0xa54ff53a, 0x510e527f, 0x9b05688c, 0x1f83d9ab, 0x5be0cd19];
        let mut msg = data.to_vec();
        let bit_len = (data.len() as u64).wrapping_mul(8);
        msg.push(0x80);
        while msg.len() % 64 != 56 {
            msg.push(0);
        }
        msg.extend_from_slice(&bit_len.to_be_bytes());
        for chunk in msg.chunks(64) {
            let mut w = [0u32; 64];
            for i in 0..16 {
                w[i] = u32::from_be_bytes([chunk[4 * i], chunk[4 * i + 1], chunk[4 * i + 2], chunk[4 * i + 3]]);
            }
            for i in 16..64 {
                let s0 = w[i - 15].rotate_right(7) ^ w[i - 15].rotate_right(18) ^ (w[i - 15] >> 3);
                let s1 = w[i - 2].rotate_right(17) ^ w[i - 2].rotate_right(19) ^ (w[i - 2] >> 10);
                w[i] = w[i - 16].wrapping_add(s0).wrapping_add(w[i - 7]).wrapping_add(s1);
            }
            let (mut a, mut b, mut c, mut d, mut e, mut f, mut g, mut hh) = (h[0], h[1], h[2], h[3], h[4], h[5], h[6], h[7]);
            for i in 0..64 {
                let s1 = e.rotate_right(6) ^ e.rotate_right(11) ^ e.rotate_right(25);
                let ch = (e & f) ^ (!e & g);
                let t1 = hh.wrapping_add(s1).wrapping_add(ch).wrapping_add(K[i]).wrapping_add(w[i]);
                let s0 = a.rotate_right(2) ^ a.rotate_right(13) ^ a.rotate_right(22);
                let maj = (a & b) ^ (a & c) ^ (b & c);
                let t2 = s0.wrapping_add(maj);
                hh = g;
                g = f;
                f = e;
                e = d.wrapping_add(t1);
                d = c;
                c = b;
                b = a;
                a = t1.wrapping_add(t2);
            }
            h[0] = h[0].wrapping_add(a);
            h[1] = h[1].wrapping_add(b);
            h[2] = h[2].wrapping_add(c);
            h[3] = h[3].wrapping_add(d);
            h[4] = h[4].wrapping_add(e);
            h[5] = h[5].wrapping_add(f);
            h[6] = h[6].wrapping_add(g);
            h[7] = h[7].wrapping_add(hh);
        }
        let mut out = [0u8; 32];
        for i in 0..8 {
            out[4 * i..4 * i + 4].copy_from_slice(&h[i].to_be_bytes());
        }
        out
    }

    pub fn sha256d(data: &[u8]) -> [u8; 32] {
        sha256(&sha256(data))
    }

    // ---------------------------------------------------------------- HMAC-SHA256 (RFC 2104)
    pub fn hmac_sha256(key: &[u8], data: &[u8]) -> [u8; 32] {
        let mut k = [0u8; 64];
        if key.len() > 64 {
            k[..32].copy_from_slice(&sha256(key));
        } else {
            k[..key.len()].copy_from_slice(key);
        }
        let mut inner: Vec<u8> = k.iter().map(|b| b ^ 0x36).collect();
        inner.extend_from_slice(data);
        let ih = sha256(&inner);
        let mut outer: Vec<u8> = k.iter().map(|b| b ^ 0x5c).collect();
        outer.extend_from_slice(&ih);
        sha256(&outer)
    }

    // ---------------------------------------------------------------- secp256k1 (SEC2)
    pub fn hexn(s: &str) -> BigUint {
        BigUint::parse_bytes(s.as_bytes(), 16).unwrap()
    }
    pub fn p() -> BigUint {
        hexn("FFFFFFFFFFFFFFFFFFFFFFFFFFFFFFFFFFFFFFFFFFFFFFFFFFFFFFFEFFFFFC2F")
    }
    pub fn n() -> BigUint {
        hexn("FFFFFFFFFFFFFFFFFFFFFFFFFFFFFFFEBAAEDCE6AF48A03BBFD25E8CD0364141")
    }
    pub fn gx() -> BigUint {
        hexn("79BE667EF9DCBBAC55A06295CE870B07029BFCDB2DCE28D959F2815B16F81798")
    }
    pub fn gy() -> BigUint {
        hexn("483ADA7726A3C4655DA4FBFC0E1108A8FD17B448A68554199C47D08FFB10D4B8")
    }

    pub fn to32(v: &BigUint) -> [u8; 32] {
        let b = v.to_bytes_be();
        assert!(b.len() <= 32);
        let mut out = [0u8; 32];
        out[32 - b.len()..].copy_from_slice(&b);
        out
    }
    pub fn from_be(b: &[u8]) -> BigUint {
        BigUint::from_bytes_be(b)
    }

    fn zero() -> BigUint {
        BigUint::from(0u8)
    }
    fn one() -> BigUint {
        BigUint::from(1u8)
    }

    pub fn inv_mod(a: &BigUint, m: &BigUint) -> BigUint {
        // Fermat (both p and n are prime)
        a.modpow(&(m - BigUint::from(2u8)), m)
    }
    fn sub_mod(a: &BigUint, b: &BigUint, m: &BigUint) -> BigUint {
        ((a + m) - (b % m)) % m
    }

    /// Jacobian point; None = infinity
    #[derive(Clone, Debug)]
    pub struct Jac {
        pub x: BigUint,
        pub y: BigUint,
        pub z: BigUint,
    }

    fn jac_double(a: &Option<Jac>) -> Option<Jac> {
        let a = a.as_ref()?;
        let p = p();
        if a.y == zero() {
            return None;
        }
        let ysq = (&a.y * &a.y) % &p;
        let s = (BigUint::from(4u8) * &a.x * &ysq) % &p;
        let m = (BigUint::from(3u8) * &a.x * &a.x) % &p; // a = 0
        let nx = sub_mod(&((&m * &m) % &p), &((&s + &s) % &p), &p);
        let ny = sub_mod(&((&m * sub_mod(&s, &nx, &p)) % &p), &((BigUint::from(8u8) * &ysq * &ysq) % &p), &p);
        let nz = (BigUint::from(2u8) * &a.y * &a.z) % &p;
        Some(Jac { x: nx, y: ny, z: nz })
    }

    fn jac_add(a: &Option<Jac>, b: &Option<Jac>) -> Option<Jac> {
        let (a, b) = match (a, b) {
            (None, _) => return b.clone(),
            (_, None) => return a.clone(),
            (Some(a), Some(b)) => (a, b),
        };
        let p = p();
        let z1z1 = (&a.z * &a.z) % &p;
        let z2z2 = (&b.z * &b.z) % &p;
        let u1 = (&a.x * &z2z2) % &p;
        let u2 = (&b.x * &z1z1) % &p;
        let s1 = (&a.y * &b.z % &p * &z2z2) % &p;
        let s2 = (&b.y * &a.z % &p * &z1z1) % &p;
        if u1 == u2 {
            if s1 != s2 {
                return None;
            }
            return jac_double(&Some(a.clone()));
        }
        let h = sub_mod(&u2, &u1, &p);
        let r = sub_mod(&s2, &s1, &p);
        let h2 = (&h * &h) % &p;
        let h3 = (&h * &h2) % &p;
        let u1h2 = (&u1 * &h2) % &p;
        let nx = sub_mod(&sub_mod(&((&r * &r) % &p), &h3, &p), &((&u1h2 + &u1h2) % &p), &p);
        let ny = sub_mod(&((&r * sub_mod(&u1h2, &nx, &p)) % &p), &((&s1 * &h3) % &p), &p);
        let nz = (&h * &a.z % &p * &b.z) % &p;
        Some(Jac { x: nx, y: ny, z: nz })
    }

    /// affine point, None = infinity
    pub type Aff = Option<(BigUint, BigUint)>;

    fn to_aff(j: &Option<Jac>) -> Aff {
        let j = j.as_ref()?;
        let p = p();
        let zi = inv_mod(&j.z, &p);
        let zi2 = (&zi * &zi) % &p;
        let zi3 = (&zi2 * &zi) % &p;
        Some(((&j.x * &zi2) % &p, (&j.y * &zi3) % &p))
    }
    fn to_jac(a: &Aff) -> Option<Jac> {
        a.as_ref().map(|(x, y)| Jac { x: x.clone(), y: y.clone(), z: one() })
    }

    pub fn mul(k: &BigUint, pt: &Aff) -> Aff {
        let base = to_jac(pt);
        let mut acc: Option<Jac> = None;
        for i in (0..k.bits()).rev() {
            acc = jac_double(&acc);
            if k.bit(i) {
                acc = jac_add(&acc, &base);
            }
        }
        to_aff(&acc)
    }
    pub fn add(a: &Aff, b: &Aff) -> Aff {
        to_aff(&jac_add(&to_jac(a), &to_jac(b)))
    }
    pub fn g() -> Aff {
        Some((gx(), gy()))
    }
    pub fn on_curve(x: &BigUint, y: &BigUint) -> bool {
        let p = p();
        (y * y) % &p == (x * x * x + BigUint::from(7u8)) % &p
    }
    pub fn pubkey(d: &BigUint) -> (BigUint, BigUint) {
        mul(d, &g()).expect("d in [1,n-1]")
    }
    pub fn sec1(q: &(BigUint, BigUint), compressed: bool) -> Vec<u8> {
        let mut v = Vec::new();
        if compressed {
            v.push(if q.1.bit(0) { 3 } else { 2 });
            v.extend_from_slice(&to32(&q.0));
        } else {
            v.push(4);
            v.extend_from_slice(&to32(&q.0));
            v.extend_from_slice(&to32(&q.1));
        }
        v
    }

    // ---------------------------------------------------------------- RFC 6979 section 3.2, qlen = hlen = 256
    /// `h1` is the 32 byte hash value fed to the generator (H(m) in the RFC).
    pub fn rfc6979_k(x: &BigUint, h1: &[u8; 32]) -> BigUint {
        let n = n();
        let x_oct = to32(x); // int2octets(x)
        let h_oct = to32(&(from_be(h1) % &n)); // bits2octets(h1): bits2int (no shift, qlen = hlen) then mod q
        let mut v = [1u8; 32]; // b
        let mut k = [0u8; 32]; // c
        let cat = |v: &[u8; 32], b: u8, with_data: bool| {
            let mut d = v.to_vec();
            d.push(b);
            if with_data {
                d.extend_from_slice(&x_oct);
                d.extend_from_slice(&h_oct);
            }
            d
        };
        k = hmac_sha256(&k, &cat(&v, 0, true)); // d
        v = hmac_sha256(&k, &v); // e
        k = hmac_sha256(&k, &cat(&v, 1, true)); // f
        v = hmac_sha256(&k, &v); // g
        loop {
            v = hmac_sha256(&k, &v); // h.2 (one block suffices)
            let cand = from_be(&v);
            if cand >= BigUint::from(1u8) && cand < n {
                return cand;
            }
            k = hmac_sha256(&k, &cat(&v, 0, false));
            v = hmac_sha256(&k, &v);
        }
    }

    pub struct RefSig {
        pub r: BigUint,
        pub s: BigUint,
        /// parity of the ordinate of the R that matches the returned (low) s
        pub y_odd: bool,
        pub x_reduced: bool,
        pub s_was_high: bool,
    }

    /// SEC1 4.1.3 with a given nonce, then low-S normalisation; None when r = 0 or s = 0
    pub fn sign_with_nonce(d: &BigUint, k: &BigUint, digest: &[u8; 32]) -> Option<RefSig> {
        let n = n();
        let e = from_be(digest) % &n;
        let (rx, ry) = mul(k, &g())?;
        let r = &rx % &n;
        if r == zero() {
            return None;
        }
        let s = (inv_mod(k, &n) * ((&e + &r * d) % &n)) % &n;
        if s == zero() {
            return None;
        }
        let half = &n >> 1;
        let high = s > half;
        let s_low = if high { &n - &s } else { s };
        Some(RefSig {
            r,
            s: s_low,
            y_odd: ry.bit(0) ^ high,
            x_reduced: rx >= n,
            s_was_high: high,
        })
    }

    /// Deterministic ECDSA: nonce from `nonce_digest`, message scalar from `digest`
    pub fn sign_det(d: &BigUint, digest: &[u8; 32], nonce_digest: &[u8; 32]) -> RefSig {
        let k = rfc6979_k(d, nonce_digest);
        sign_with_nonce(d, &k, digest).expect("r, s non-zero")
    }

    /// SEC1 4.1.4 (no low-S rule)
    pub fn verify(q: &(BigUint, BigUint), digest: &[u8; 32], r: &BigUint, s: &BigUint) -> bool {
        let n = n();
        if *r == zero() || *r >= n || *s == zero() || *s >= n {
            return false;
        }
        let e = from_be(digest) % &n;
        let w = inv_mod(s, &n);
        let u1 = (&e * &w) % &n;
        let u2 = (r * &w) % &n;
        let pt = add(&mul(&u1, &g()), &mul(&u2, &Some(q.clone())));
        match pt {
            None => false,
            Some((x, _)) => &x % &n == *r,
        }
    }

    pub fn reversed(d: &[u8; 32]) -> [u8; 32] {
        let mut r = *d;
        r.reverse();
        r
    }

    // ---------------------------------------------------------------- deterministic test PRNG (splitmix64)
    pub struct Rng(pub u64);
    impl Rng {
        pub fn next(&mut self) -> u64 {
            self.0 = self.0.wrapping_add(0x9E3779B97F4A7C15);
            let mut z = self.0;
            z = (z ^ (z >> 30)).wrapping_mul(0xBF58476D1CE4E5B9);
            z = (z ^ (z >> 27)).wrapping_mul(0x94D049BB133111EB);
            z ^ (z >> 31)
        }
        pub fn bytes(&mut self, len: usize) -> Vec<u8> {
            let mut v = Vec::with_capacity(len + 8);
            while v.len() < len {
                v.extend_from_slice(&self.next().to_le_bytes());
            }
            v.truncate(len);
            v
        }
        /// `min + (0..span)` random bytes
        pub fn vbytes(&mut self, min: u64, span: u64) -> Vec<u8> {
            let len = (self.next() % span + min) as usize;
            self.bytes(len)
        }
        pub fn arr32(&mut self) -> [u8; 32] {
            let mut a = [0u8; 32];
            a.copy_from_slice(&self.bytes(32));
            a
        }
        /// scalar in [1, n-1], with a bias towards odd shapes
        pub fn scalar(&mut self) -> BigUint {
            let n = n();
            let one = BigUint::from(1u8);
            let pick = self.next() % 16;
            let raw = from_be(&self.bytes(32));
            let v = match pick {
                0 => BigUint::from(self.next() % 1000 + 1),       // tiny
                1 => &n - BigUint::from(self.next() % 1000 + 1),  // near n
                2 => raw >> (8 * (self.next() % 31 + 1) as usize), // leading zero bytes
                3 => (&n >> 1) + BigUint::from(self.next() % 5),  // around n/2
                _ => raw,
            };
            (v % (&n - &one)) + one
        }
    }
}

use reference as rf;

// ------------------------------------------------------------------ glue
fn lib_key(d: &BigUint) -> PrivateKey {
    PrivateKey::from_bytes(&rf::to32(d)).unwrap_or_else(|e| panic!("PrivateKey::from_bytes({}) failed: {}", hex::encode(rf::to32(d)), e))
}
fn lib_rs(sig: &Signature) -> (BigUint, BigUint) {
    (rf::from_be(&sig.r()), rf::from_be(&sig.s()))
}
fn hash_of(h: SigningHash, m: &[u8]) -> [u8; 32] {
    match h {
        SigningHash::Sha256 => rf::sha256(m),
        SigningHash::Sha256d => rf::sha256d(m),
    }
}
fn hname(h: SigningHash) -> &'static str {
    match h {
        SigningHash::Sha256 => "Sha256",
        SigningHash::Sha256d => "Sha256d",
    }
}
fn half_n() -> BigUint {
    rf::n() >> 1
}
fn lib_verifies(m: &[u8], pk: &PublicKey, sig: &Signature, h: SigningHash) -> bool {
    matches!(ECDSA::verify_digest(m, pk, sig, h), Ok(true))
}
fn lib_verifies_hashbuf(d: &[u8], pk: &PublicKey, sig: &Signature) -> bool {
    matches!(ECDSA::verify_hashbuf(d, pk, sig), Ok(true))
}
fn der_rs(der: &[u8]) -> (BigUint, BigUint) {
    // strict minimal DER reader: 30 len 02 lr r 02 ls s
    assert_eq!(der[0], 0x30, "DER tag");
    assert_eq!(der[1] as usize, der.len() - 2, "DER length");
    assert_eq!(der[2], 0x02);
    let lr = der[3] as usize;
    let r = &der[4..4 + lr];
    assert_eq!(der[4 + lr], 0x02);
    let ls = der[5 + lr] as usize;
    let s = &der[6 + lr..6 + lr + ls];
    assert_eq!(6 + lr + ls, der.len(), "DER trailing bytes");
    (rf::from_be(r), rf::from_be(s))
}

/// Full check of one deterministic signature against the reference
fn check_det(d: &BigUint, m: &[u8], h: SigningHash, reverse_k: bool, compressed: bool, ctx: &str) {
    let key = lib_key(d).compress_public_key(compressed);
    let sig = ECDSA::sign_with_deterministic_k(&key, m, h, reverse_k).unwrap_or_else(|e| panic!("{}: signing failed: {}", ctx, e));
    let digest = hash_of(h, m);
    let nonce_digest = if reverse_k { rf::reversed(&digest) } else { digest };
    let want = rf::sign_det(d, &digest, &nonce_digest);
    let (r, s) = lib_rs(&sig);
    assert!(
        r == want.r && s == want.s,
        "{}: key={} msg={} hash={} reverse_k={} compressed={}: library (r,s)=({:x},{:x}) expected RFC6979 (r,s)=({:x},{:x})",
        ctx,
        hex::encode(rf::to32(d)),
        if m.len() <= 80 { hex::encode(m) } else { format!("<{} bytes>", m.len()) },
        hname(h),
        reverse_k,
        compressed,
        r,
        s,
        want.r,
        want.s
    );
    assert!(s <= half_n(), "{}: high s {:x}", ctx, s);
    let q = rf::pubkey(d);
    assert!(rf::verify(&q, &digest, &r, &s), "{}: reference verifier rejects library signature", ctx);
    let pk = PublicKey::from_bytes(&rf::sec1(&q, compressed)).unwrap();
    assert!(lib_verifies(m, &pk, &sig, h), "{}: library verifier rejects own signature", ctx);
    // recovery info
    let rec = sig.recover_public_key(m, h).unwrap_or_else(|e| panic!("{}: recovery failed {}", ctx, e));
    assert_eq!(rec.to_bytes().unwrap(), rf::sec1(&q, compressed), "{}: recovered key differs from signer key", ctx);
    let compact = sig.to_compact_bytes(None);
    let want_hdr = 27 + if compressed { 4 } else { 0 } + (want.y_odd as u8) + 2 * (want.x_reduced as u8);
    assert_eq!(compact[0], want_hdr, "{}: compact header", ctx);
}

/// HUNT_SCALE=n multiplies the case counts of the randomised experiments (default 1)
fn scale(cases: usize) -> usize {
    cases * std::env::var("HUNT_SCALE").ok().and_then(|v| v.parse::<usize>().ok()).unwrap_or(1)
}

const HASHES: [SigningHash; 2] = [SigningHash::Sha256, SigningHash::Sha256d];

// ------------------------------------------------------------------ sanity of the reference itself
#[test]
fn ok_00_reference_self_checks() {
    // FIPS 180-4 vectors
    assert_eq!(hex::encode(rf::sha256(b"")), "e3b0c44298fc1c149afbf4c8996fb92427ae41e4649b934ca495991b7852b855");
    assert_eq!(hex::encode(rf::sha256(b"abc")), "ba7816bf8f01cfea414140de5dae2223b00361a396177a9cb410ff61f20015ad");
    assert_eq!(
        hex::encode(rf::sha256(b"abcdbcdecdefdefgefghfghighijhijkijkljklmklmnlmnomnopnopq")),
        "248d6a61d20638b8e5c026930c3e6039a33ce45964ff2167f6ecedd419db06c1"
    );
    // RFC 4231 test case 2
    assert_eq!(
        hex::encode(rf::hmac_sha256(b"Jefe", b"what do ya want for nothing?")),
        "5bdcc146bf60754e6a042426089575c75a003f089d2739839dec58b964ec3843"
    );
    // n * G = infinity, (n-1) G = -G, 2G known
    assert!(rf::mul(&rf::n(), &rf::g()).is_none());
    let m1 = rf::mul(&(rf::n() - 1u8), &rf::g()).unwrap();
    assert_eq!(m1.0, rf::gx());
    assert_eq!(m1.1, rf::p() - rf::gy());
    let g2 = rf::mul(&BigUint::from(2u8), &rf::g()).unwrap();
    assert_eq!(format!("{:x}", g2.0), "c6047f9441ed7d6d3045406e95c07cd85c778e4b8cef3ca7abac09b95c709ee5");
    assert!(rf::on_curve(&g2.0, &g2.1));
}

// ------------------------------------------------------------------ 1. published RFC 6979 / secp256k1 vectors (bitcoinjs / python-ecdsa fixtures)
#[test]
fn ok_01_published_rfc6979_vectors() {
    // (key, message, k, r, s) - SHA-256 message hashing, low-S
    let v: [(&str, &str, &str, &str, &str); 5] = [
        (
            "0000000000000000000000000000000000000000000000000000000000000001",
            "Satoshi Nakamoto",
            "8f8a276c19f4149656b280621e358cce24f5f52542772691ee69063b74f15d15",
            "934b1ea10a4b3c1757e2b0c017d0b6143ce3c9a7e6a4a49860d7a6ab210ee3d8",
            "2442ce9d2b916064108014783e923ec36b49743e2ffa1c4496f01a512aafd9e5",
        ),
        (
            "0000000000000000000000000000000000000000000000000000000000000001",
            "All those moments will be lost in time, like tears in rain. Time to die...",
            "38aa22d72376b4dbc472e06c3ba403ee0a394da63fc58d88686c611aba98d6b3",
            "8600dbd41e348fe5c9465ab92d23e3db8b98b873beecd930736488696438cb6b",
            "547fe64427496db33bf66019dacbf0039c04199abb0122918601db38a72cfc21",
        ),
        (
            "fffffffffffffffffffffffffffffffebaaedce6af48a03bbfd25e8cd0364140",
            "Satoshi Nakamoto",
            "33a19b60e25fb6f4435af53a3d42d493644827367e6453928554f43e49aa6f90",
            "fd567d121db66e382991534ada77a6bd3106f0a1098c231e47993447cd6af2d0",
            "6b39cd0eb1bc8603e159ef5c20a5c8ad685a45b06ce9bebed3f153d10d93bed5",
        ),
        (
            "f8b8af8ce3c7cca5e300d33939540c10d45ce001b8f252bfbc57ba0342904181",
            "Alan Turing",
            "525a82b70e67874398067543fd84c83d30c175fdc45fdeee082fe13b1d7cfdf1",
            "7063ae83e7f62bbb171798131b4a0564b956930092b33b07b395615d9ec7e15c",
            "58dfcc1e00a35e1572f366ffe34ba0fc47db1e7189759b9fb233c5b05ab388ea",
        ),
        (
            "e91671c46231f833a6406ccbea0e3e392c76c167bac1cb013f6f1013980455c2",
            "There is a computer disease that anybody who works with computers knows about. It's a very serious disease and it interferes completely with the work. The trouble with computers is that you 'play' with them!",
            "1f4b84c23a86a221d233f2521be018d9318639d5b8bbd6374a8a59232d16ad3d",
            "b552edd27580141f3b2a5463048cb7cd3e047b97c9f98076c32dbdf85a68718b",
            "279fa72dd19bfae05577e06c7c0c1900c371fcd5893f7e1d56a37d30174671f6",
        ),
    ];
    for (key, msg, k, r, s) in v.iter() {
        let d = rf::hexn(key);
        // the reference reproduces the published nonce
        let kk = rf::rfc6979_k(&d, &rf::sha256(msg.as_bytes()));
        assert_eq!(format!("{:064x}", kk), *k, "reference nonce for {}", msg);
        let sig = lib_key(&d).sign_message(msg.as_bytes()).unwrap();
        assert_eq!(sig.r_hex(), *r, "r for key {} msg {}", key, msg);
        assert_eq!(sig.s_hex(), *s, "s for key {} msg {}", key, msg);
        let sig2 = ECDSA::sign_with_deterministic_k(&lib_key(&d), msg.as_bytes(), SigningHash::Sha256, false).unwrap();
        assert_eq!(sig2.r_hex(), *r);
        assert_eq!(sig2.s_hex(), *s);
        let sig3 = ECDSA::sign_digest_with_deterministic_k(&lib_key(&d), &rf::sha256(msg.as_bytes())).unwrap();
        assert_eq!(sig3.r_hex(), *r);
        assert_eq!(sig3.s_hex(), *s);
    }
}

// ------------------------------------------------------------------ 2-5. randomised deterministic signing, 4 mode combinations
fn det_random(h: SigningHash, reverse_k: bool, seed: u64, cases: usize) {
    let mut rng = rf::Rng(seed);
    for i in 0..scale(cases) {
        let d = rng.scalar();
        let len = match rng.next() % 8 {
            0 => 0,
            1 => (rng.next() % 4) as usize,
            2 => 55 + (rng.next() % 10) as usize,
            3 => 119 + (rng.next() % 10) as usize,
            _ => (rng.next() % 300) as usize,
        };
        let m = rng.bytes(len);
        let compressed = rng.next() % 2 == 0;
        check_det(&d, &m, h, reverse_k, compressed, &format!("det_random[{} {} #{}]", hname(h), reverse_k, i));
    }
}
#[test]
fn ok_02_det_sha256_plain_random() {
    det_random(SigningHash::Sha256, false, 0xC05_0002, 1500);
}
#[test]
fn ok_03_det_sha256d_plain_random() {
    det_random(SigningHash::Sha256d, false, 0xC05_0003, 1500);
}
#[test]
fn ok_04_det_sha256_reversed_random() {
    det_random(SigningHash::Sha256, true, 0xC05_0004, 1500);
}
#[test]
fn ok_05_det_sha256d_reversed_random() {
    det_random(SigningHash::Sha256d, true, 0xC05_0005, 1500);
}

// ------------------------------------------------------------------ 6. edge keys x edge message lengths x all modes
fn edge_keys() -> Vec<BigUint> {
    let n = rf::n();
    vec![
        BigUint::from(1u8),
        BigUint::from(2u8),
        BigUint::from(3u8),
        &n - 1u8,
        &n - 2u8,
        &n - 3u8,
        &n >> 1,
        (&n >> 1) + 1u8,
        BigUint::from(0xffu8),
        BigUint::from(0x100u32),
        rf::hexn("00000000000000000000000000000000ffffffffffffffffffffffffffffffff"),
        rf::hexn("0000000000000000000000000000000100000000000000000000000000000000"),
        rf::hexn("00ffffffffffffffffffffffffffffffffffffffffffffffffffffffffffffff"),
        rf::hexn("8000000000000000000000000000000000000000000000000000000000000000"),
        rf::hexn("fffffffffffffffffffffffffffffffe00000000000000000000000000000000"),
    ]
}
#[test]
fn ok_06_det_edge_keys_and_lengths() {
    let lens = [0usize, 1, 31, 32, 33, 55, 56, 57, 63, 64, 65, 119, 120, 128];
    let mut rng = rf::Rng(6);
    for d in edge_keys() {
        for len in lens.iter() {
            let m = rng.bytes(*len);
            for h in HASHES {
                for rev in [false, true] {
                    check_det(&d, &m, h, rev, (len % 2) == 0, "edge");
                }
            }
        }
    }
}
#[test]
fn ok_07_det_one_mib_message() {
    let mut rng = rf::Rng(7);
    let m = rng.bytes(1 << 20);
    for d in [BigUint::from(1u8), rf::n() - 1u8, rng.scalar()] {
        for h in HASHES {
            for rev in [false, true] {
                check_det(&d, &m, h, rev, true, "1MiB");
            }
        }
    }
    // all-zero and all-ff MiB
    check_det(&BigUint::from(2u8), &vec![0u8; 1 << 20], SigningHash::Sha256, false, false, "1MiB zero");
    check_det(&BigUint::from(2u8), &vec![0xffu8; (1 << 20) + 1], SigningHash::Sha256d, true, false, "1MiB ff");
}
#[test]
fn ok_08_det_every_length_0_to_260() {
    let d = rf::hexn("00000000000000000000000000000000000000000000000000000000deadbeef");
    for len in 0..=260usize {
        let m: Vec<u8> = (0..len).map(|i| (i * 7 + len) as u8).collect();
        check_det(&d, &m, if len % 2 == 0 { SigningHash::Sha256 } else { SigningHash::Sha256d }, len % 3 == 0, true, "len sweep");
    }
}

// ------------------------------------------------------------------ 9. reproducibility
#[test]
fn ok_09_det_reproducible() {
    let mut rng = rf::Rng(9);
    for _ in 0..100 {
        let d = rng.scalar();
        let m = rng.bytes(40);
        for h in HASHES {
            for rev in [false, true] {
                let a = ECDSA::sign_with_deterministic_k(&lib_key(&d), &m, h, rev).unwrap();
                let b = ECDSA::sign_with_deterministic_k(&lib_key(&d).compress_public_key(false), &m, h, rev).unwrap();
                let c = ECDSA::sign_with_deterministic_k(&lib_key(&d), &m, h, rev).unwrap();
                assert_eq!(a.to_der_bytes(), b.to_der_bytes());
                assert_eq!(a.to_der_bytes(), c.to_der_bytes());
                assert_eq!(a.to_compact_bytes(None), c.to_compact_bytes(None));
                // DER carries the same numbers
                let (r, s) = der_rs(&a.to_der_bytes());
                assert_eq!((r, s), lib_rs(&a));
            }
        }
    }
}

// ------------------------------------------------------------------ 10-12. pre-hashed digest entry point
fn check_digest_entry(d: &BigUint, digest: &[u8; 32], compressed: bool, ctx: &str) {
    let key = lib_key(d).compress_public_key(compressed);
    let sig = ECDSA::sign_digest_with_deterministic_k(&key, digest).unwrap_or_else(|e| panic!("{}: sign_digest failed for digest {}: {}", ctx, hex::encode(digest), e));
    let want = rf::sign_det(d, digest, digest);
    let (r, s) = lib_rs(&sig);
    assert!(
        r == want.r && s == want.s,
        "{}: key={} digest={}: library ({:x},{:x}) expected ({:x},{:x})",
        ctx,
        hex::encode(rf::to32(d)),
        hex::encode(digest),
        r,
        s,
        want.r,
        want.s
    );
    assert!(s <= half_n());
    let q = rf::pubkey(d);
    assert!(rf::verify(&q, digest, &r, &s), "{}: reference verifier rejects", ctx);
    let pk = PublicKey::from_bytes(&rf::sec1(&q, compressed)).unwrap();
    assert!(lib_verifies_hashbuf(digest, &pk, &sig), "{}: verify_hashbuf rejects for digest {}", ctx, hex::encode(digest));
    let rec = sig.recover_public_key_from_digest(digest).unwrap();
    assert_eq!(rec.to_bytes().unwrap(), rf::sec1(&q, compressed), "{}: recovery", ctx);
}
#[test]
fn ok_10_digest_entry_random() {
    let mut rng = rf::Rng(10);
    for i in 0..scale(1500) {
        let d = rng.scalar();
        let digest = rng.arr32();
        check_digest_entry(&d, &digest, i % 2 == 0, "digest random");
    }
}
#[test]
fn ok_11_digest_entry_edge_digests() {
    let n = rf::n();
    let two256m1 = rf::hexn("ffffffffffffffffffffffffffffffffffffffffffffffffffffffffffffffff");
    let digests = vec![
        BigUint::from(0u8),
        BigUint::from(1u8),
        &n - 1u8,
        n.clone(),
        &n + 1u8,
        &n + 2u8,
        two256m1.clone(),
        &two256m1 - 1u8,
        &n >> 1,
        rf::p(),
        rf::p() - 1u8,
        rf::hexn("8000000000000000000000000000000000000000000000000000000000000000"),
        rf::hexn("0000000000000000000000000000000000000000000000000000000000000100"),
    ];
    for d in edge_keys() {
        for dg in digests.iter() {
            check_digest_entry(&d, &rf::to32(dg), true, "digest edge");
        }
    }
}
#[test]
fn ok_12_digest_entry_wrong_lengths_rejected() {
    let key = lib_key(&BigUint::from(5u8));
    let pk = key.to_public_key().unwrap();
    let sig = ECDSA::sign_digest_with_deterministic_k(&key, &[7u8; 32]).unwrap();
    for len in [0usize, 1, 20, 31, 33, 64] {
        assert!(ECDSA::sign_digest_with_deterministic_k(&key, &vec![7u8; len]).is_err(), "len {}", len);
        assert!(ECDSA::verify_hashbuf(&vec![7u8; len], &pk, &sig).is_err(), "len {}", len);
        assert!(sig.recover_public_key_from_digest(&vec![7u8; len]).is_err(), "len {}", len);
    }
}
#[test]
fn ok_13_digest_entry_equals_preimage_entry() {
    let mut rng = rf::Rng(13);
    for _ in 0..300 {
        let d = rng.scalar();
        let m = rng.bytes(50);
        for h in HASHES {
            let a = ECDSA::sign_with_deterministic_k(&lib_key(&d), &m, h, false).unwrap();
            let b = ECDSA::sign_digest_with_deterministic_k(&lib_key(&d), &hash_of(h, &m)).unwrap();
            assert_eq!(a.to_compact_bytes(None), b.to_compact_bytes(None));
            // and the hashbuf verifier agrees with the message verifier
            let pk = lib_key(&d).to_public_key().unwrap();
            assert!(lib_verifies_hashbuf(&hash_of(h, &m), &pk, &a));
            let other = if h == SigningHash::Sha256 { SigningHash::Sha256d } else { SigningHash::Sha256 };
            assert!(!lib_verifies_hashbuf(&hash_of(other, &m), &pk, &a));
        }
    }
}

// ------------------------------------------------------------------ 14-17. caller supplied nonce
fn check_with_k(d: &BigUint, k: &BigUint, m: &[u8], h: SigningHash, compressed: bool, ctx: &str) -> Option<bool> {
    let key = lib_key(d).compress_public_key(compressed);
    let eph = lib_key(k).compress_public_key(!compressed);
    let digest = hash_of(h, m);
    let want = rf::sign_with_nonce(d, k, &digest);
    let got = ECDSA::sign_with_k(&key, &eph, m, h);
    let want = match want {
        None => {
            assert!(got.is_err(), "{}: r or s is zero, the library returned a signature", ctx);
            return None;
        }
        Some(w) => w,
    };
    let sig = got.unwrap_or_else(|e| panic!("{}: sign_with_k failed: {}", ctx, e));
    let (r, s) = lib_rs(&sig);
    assert!(
        r == want.r && s == want.s,
        "{}: key={:x} k={:x} msg={} hash={}: library ({:x},{:x}) expected ({:x},{:x})",
        ctx,
        d,
        k,
        hex::encode(m),
        hname(h),
        r,
        s,
        want.r,
        want.s
    );
    assert!(s <= half_n(), "{}: high s", ctx);
    let q = rf::pubkey(d);
    assert!(rf::verify(&q, &digest, &r, &s));
    let pk = PublicKey::from_bytes(&rf::sec1(&q, compressed)).unwrap();
    assert!(lib_verifies(m, &pk, &sig, h), "{}: library rejects", ctx);
    let rec = sig.recover_public_key(m, h).unwrap();
    assert_eq!(rec.to_bytes().unwrap(), rf::sec1(&q, compressed), "{}: recovery (s_was_high={})", ctx, want.s_was_high);
    Some(want.s_was_high)
}
#[test]
fn ok_14_sign_with_k_random() {
    let mut rng = rf::Rng(14);
    let (mut high, mut low) = (0, 0);
    for i in 0..scale(1500) {
        let d = rng.scalar();
        let k = rng.scalar();
        let m = rng.vbytes(0, 100);
        match check_with_k(&d, &k, &m, HASHES[i % 2], i % 3 == 0, "with_k random") {
            Some(true) => high += 1,
            Some(false) => low += 1,
            None => {}
        }
    }
    assert!(high > 400 && low > 400, "both branches of the low-S normalisation were exercised: {} {}", high, low);
}
#[test]
fn ok_15_sign_with_k_edge_nonces_and_keys() {
    let n = rf::n();
    let nonces = vec![BigUint::from(1u8), BigUint::from(2u8), &n - 1u8, &n - 2u8, &n >> 1, (&n >> 1) + 1u8];
    for d in edge_keys() {
        for k in nonces.iter() {
            for h in HASHES {
                check_with_k(&d, k, b"edge nonce", h, true, "with_k edge");
                check_with_k(&d, k, b"", h, false, "with_k edge empty");
            }
        }
        // nonce equal to the key
        check_with_k(&d, &d, b"k == d", SigningHash::Sha256, true, "k==d");
    }
}
#[test]
fn ok_16_sign_with_k_s_zero_is_an_error() {
    // choose d = -z / r so that z + r d = 0 (mod n): no signature exists for this nonce
    let n = rf::n();
    let mut rng = rf::Rng(16);
    for _ in 0..20 {
        let k = rng.scalar();
        let m = rng.bytes(10);
        let z = rf::from_be(&rf::sha256(&m)) % &n;
        let r = rf::mul(&k, &rf::g()).unwrap().0 % &n;
        let d = ((&n - &z) * rf::inv_mod(&r, &n)) % &n;
        assert!(rf::sign_with_nonce(&d, &k, &rf::sha256(&m)).is_none());
        let res = ECDSA::sign_with_k(&lib_key(&d), &lib_key(&k), &m, SigningHash::Sha256);
        assert!(res.is_err(), "s = 0 must not yield a signature");
    }
}
#[test]
fn ok_17_sign_with_k_matches_deterministic_when_given_rfc_nonce() {
    let mut rng = rf::Rng(17);
    for _ in 0..200 {
        let d = rng.scalar();
        let m = rng.bytes(33);
        for h in HASHES {
            let digest = hash_of(h, &m);
            let k = rf::rfc6979_k(&d, &digest);
            let a = ECDSA::sign_with_k(&lib_key(&d), &lib_key(&k), &m, h).unwrap();
            let b = ECDSA::sign_with_deterministic_k(&lib_key(&d), &m, h, false).unwrap();
            assert_eq!(a.to_compact_bytes(None), b.to_compact_bytes(None));
            let kr = rf::rfc6979_k(&d, &rf::reversed(&digest));
            let a = ECDSA::sign_with_k(&lib_key(&d), &lib_key(&kr), &m, h).unwrap();
            let b = ECDSA::sign_with_deterministic_k(&lib_key(&d), &m, h, true).unwrap();
            assert_eq!(a.to_compact_bytes(None), b.to_compact_bytes(None));
        }
    }
}

// ------------------------------------------------------------------ 18. randomised nonce
#[test]
fn ok_18_sign_with_random_k() {
    let mut rng = rf::Rng(18);
    for i in 0..1200 {
        let d = if i < 30 { edge_keys()[i % edge_keys().len()].clone() } else { rng.scalar() };
        let m = rng.vbytes(0, 80);
        let h = HASHES[i % 2];
        let rev = (i / 2) % 2 == 0;
        let compressed = (i / 4) % 2 == 0;
        let key = lib_key(&d).compress_public_key(compressed);
        let a = ECDSA::sign_with_random_k(&key, &m, h, rev).unwrap();
        let b = ECDSA::sign_with_random_k(&key, &m, h, rev).unwrap();
        assert_ne!(a.to_der_bytes(), b.to_der_bytes(), "two randomised signatures are equal");
        let q = rf::pubkey(&d);
        let digest = hash_of(h, &m);
        let pk = PublicKey::from_bytes(&rf::sec1(&q, compressed)).unwrap();
        for sig in [&a, &b] {
            let (r, s) = lib_rs(sig);
            assert!(s <= half_n(), "random k: high s {:x} key {:x} msg {}", s, d, hex::encode(&m));
            assert!(rf::verify(&q, &digest, &r, &s), "random k: reference verifier rejects: key {:x} msg {} hash {} rev {}", d, hex::encode(&m), hname(h), rev);
            assert!(lib_verifies(&m, &pk, sig, h));
            let other = if h == SigningHash::Sha256 { SigningHash::Sha256d } else { SigningHash::Sha256 };
            assert!(!lib_verifies(&m, &pk, sig, other));
            let rec = sig.recover_public_key(&m, h).unwrap();
            assert_eq!(rec.to_bytes().unwrap(), rf::sec1(&q, compressed), "random k recovery");
            // the random nonce is not the deterministic one
            let det = rf::sign_det(&d, &digest, &digest);
            assert_ne!(r, det.r);
        }
    }
}

// ------------------------------------------------------------------ 19-22. verification, positive and negative
#[test]
fn ok_19_verify_fails_for_other_message_hash_key() {
    let mut rng = rf::Rng(19);
    for i in 0..600 {
        let d = rng.scalar();
        let mut m = rng.vbytes(1, 60);
        let h = HASHES[i % 2];
        let other = HASHES[(i + 1) % 2];
        let key = lib_key(&d);
        let pk = key.to_public_key().unwrap();
        let sig = match i % 3 {
            0 => ECDSA::sign_with_deterministic_k(&key, &m, h, i % 4 < 2).unwrap(),
            1 => ECDSA::sign_with_random_k(&key, &m, h, i % 4 < 2).unwrap(),
            _ => ECDSA::sign_with_k(&key, &lib_key(&rng.scalar()), &m, h).unwrap(),
        };
        assert!(lib_verifies(&m, &pk, &sig, h));
        assert!(lib_verifies(&m, &pk.to_decompressed().unwrap(), &sig, h), "uncompressed form of the key");
        assert!(!lib_verifies(&m, &pk, &sig, other), "other hash choice verified");
        // other key: random, negated, d+1
        let d2 = rng.scalar();
        if d2 != d {
            assert!(!lib_verifies(&m, &lib_key(&d2).to_public_key().unwrap(), &sig, h));
        }
        let neg = rf::n() - &d;
        assert!(!lib_verifies(&m, &lib_key(&neg).to_public_key().unwrap(), &sig, h), "negated key verified");
        // other message: one bit flipped, truncated, extended
        let bit = (rng.next() as usize) % (m.len() * 8);
        m[bit / 8] ^= 1 << (bit % 8);
        assert!(!lib_verifies(&m, &pk, &sig, h), "flipped message verified");
        m[bit / 8] ^= 1 << (bit % 8);
        let mut longer = m.clone();
        longer.push(0);
        assert!(!lib_verifies(&longer, &pk, &sig, h));
        assert!(!lib_verifies(&m[..m.len() - 1], &pk, &sig, h));
        // Signature::verify_message / PublicKey::verify_message are the Sha256 verifiers
        assert_eq!(sig.verify_message(&m, &pk), h == SigningHash::Sha256);
        assert_eq!(pk.is_valid_message(&m, &sig), h == SigningHash::Sha256);
        assert_eq!(matches!(pk.verify_message(&m, &sig), Ok(true)), h == SigningHash::Sha256);
    }
}
#[test]
fn ok_20_verify_agrees_with_reference_on_arbitrary_rs() {
    // arbitrary (r, s) pairs and forged-but-valid ones: library verdict = SEC1 verdict AND s low
    let mut rng = rf::Rng(20);
    let n = rf::n();
    for i in 0..400 {
        let d = rng.scalar();
        let q = rf::pubkey(&d);
        let pk = PublicKey::from_bytes(&rf::sec1(&q, i % 2 == 0)).unwrap();
        let m = rng.bytes(20);
        let digest = rf::sha256(&m);
        // a valid signature built by the reference with a random nonce, then perturbed
        let k = rng.scalar();
        let w = rf::sign_with_nonce(&d, &k, &digest).unwrap();
        let variants: Vec<(BigUint, BigUint)> = vec![
            (w.r.clone(), w.s.clone()),
            (w.r.clone(), &n - &w.s),
            (w.r.clone(), (&w.s + 1u8) % &n),
            ((&w.r + 1u8) % &n, w.s.clone()),
            (w.s.clone(), w.r.clone()),
            (rng.scalar(), rng.scalar()),
        ];
        for (r, s) in variants {
            let mut compact = vec![31u8];
            compact.extend_from_slice(&rf::to32(&r));
            compact.extend_from_slice(&rf::to32(&s));
            let sig = match Signature::from_compact_bytes(&compact) {
                Ok(s) => s,
                Err(_) => continue,
            };
            let expect = rf::verify(&q, &digest, &r, &s) && s <= half_n();
            assert_eq!(lib_verifies(&m, &pk, &sig, SigningHash::Sha256), expect, "verify_digest r={:x} s={:x}", r, s);
            assert_eq!(lib_verifies_hashbuf(&digest, &pk, &sig), expect, "verify_hashbuf r={:x} s={:x}", r, s);
        }
    }
}
#[test]
fn ok_21_uncompressed_signer_same_signature_both_key_forms_verify() {
    let mut rng = rf::Rng(21);
    for i in 0..200 {
        let d = rng.scalar();
        let m = rng.bytes(30);
        let h = HASHES[i % 2];
        let kc = lib_key(&d);
        let ku = lib_key(&d).compress_public_key(false);
        let pc = kc.to_public_key().unwrap();
        let pu = ku.to_public_key().unwrap();
        let q = rf::pubkey(&d);
        assert_eq!(pc.to_bytes().unwrap(), rf::sec1(&q, true));
        assert_eq!(pu.to_bytes().unwrap(), rf::sec1(&q, false));
        assert_eq!(PublicKey::from_private_key(&ku).to_bytes().unwrap(), rf::sec1(&q, false));
        let sc = ECDSA::sign_with_deterministic_k(&kc, &m, h, false).unwrap();
        let su = ECDSA::sign_with_deterministic_k(&ku, &m, h, false).unwrap();
        assert_eq!(sc.to_der_bytes(), su.to_der_bytes());
        for s in [&sc, &su] {
            for p in [&pc, &pu] {
                assert!(lib_verifies(&m, p, s, h));
            }
        }
        assert_eq!(sc.to_compact_bytes(None)[0], su.to_compact_bytes(None)[0] + 4);
    }
}

// ------------------------------------------------------------------ 22-24. higher level signing entry points
fn bsm_magic(msg: &[u8]) -> Vec<u8> {
    fn varint(n: usize) -> Vec<u8> {
        match n {
            0..=0xfc => vec![n as u8],
            0xfd..=0xffff => {
                let mut v = vec![0xfd];
                v.extend_from_slice(&(n as u16).to_le_bytes());
                v
            }
            _ => {
                let mut v = vec![0xfe];
                v.extend_from_slice(&(n as u32).to_le_bytes());
                v
            }
        }
    }
    let magic = b"Bitcoin Signed Message:\n";
    let mut v = varint(magic.len());
    v.extend_from_slice(magic);
    v.extend_from_slice(&varint(msg.len()));
    v.extend_from_slice(msg);
    v
}
#[test]
fn ok_22_bsm_sign_is_rfc6979_over_sha256d_of_magic_message() {
    let mut rng = rf::Rng(22);
    for i in 0..300 {
        let d = if i < 15 { edge_keys()[i].clone() } else { rng.scalar() };
        let len = match i % 6 {
            0 => 0,
            1 => 252,
            2 => 253,
            3 => 70000,
            _ => (rng.next() % 300) as usize,
        };
        let m = rng.bytes(len);
        let compressed = i % 2 == 0;
        let key = lib_key(&d).compress_public_key(compressed);
        let sig = BSM::sign_message(&key, &m).unwrap();
        let digest = rf::sha256d(&bsm_magic(&m));
        let want = rf::sign_det(&d, &digest, &digest);
        assert_eq!(lib_rs(&sig), (want.r.clone(), want.s.clone()), "BSM key {:x} len {}", d, len);
        let compact = sig.to_compact_bytes(None);
        assert_eq!(compact[0], 27 + if compressed { 4 } else { 0 } + want.y_odd as u8, "BSM header byte");
        let addr = key.to_public_key().unwrap().to_p2pkh_address().unwrap();
        assert!(matches!(BSM::verify_message(&m, &sig, &addr), Ok(true)));
        assert!(BSM::is_valid_message(&m, &Signature::from_compact_bytes(&compact).unwrap(), &addr));
        assert!(addr.is_valid_bitcoin_message(&m, &sig));
        // another message / another key's address fail
        let mut m2 = m.clone();
        m2.push(1);
        assert!(!BSM::is_valid_message(&m2, &sig, &addr));
        let addr2 = lib_key(&rng.scalar()).to_public_key().unwrap().to_p2pkh_address().unwrap();
        assert!(!BSM::is_valid_message(&m, &sig, &addr2));
        // the other compression of the same key is another address
        let addr3 = lib_key(&d).compress_public_key(!compressed).to_public_key().unwrap().to_p2pkh_address().unwrap();
        assert!(!BSM::is_valid_message(&m, &sig, &addr3));
        // with caller nonce
        let k = rng.scalar();
        let sk = BSM::sign_message_with_k(&key, &lib_key(&k), &m).unwrap();
        let wk = rf::sign_with_nonce(&d, &k, &digest).unwrap();
        assert_eq!(lib_rs(&sk), (wk.r, wk.s));
        assert!(BSM::is_valid_message(&m, &sk, &addr));
    }
}

fn sample_tx() -> Transaction {
    Transaction::from_hex("01000000029e8d016a7b0dc49a325922d05da1f916d1e4d4f0cb840c9727f3d22ce8d1363f000000008c493046022100e9318720bee5425378b4763b0427158b1051eec8b08442ce3fbfbf7b30202a44022100d4172239ebd701dae2fbaaccd9f038e7ca166707333427e3fb2a2865b19a7f27014104510c67f46d2cbb29476d1f0b794be4cb549ea59ab9cc1e731969a7bf5be95f7ad5e7f904e5ccf50a9dc1714df00fbeb794aa27aaff33260c1032d931a75c56f2ffffffffa3195e7a1ab665473ff717814f6881485dc8759bebe97e31c301ffe7933a656f020000008b48304502201c282f35f3e02a1f32d2089265ad4b561f07ea3c288169dedcf2f785e6065efa022100e8db18aadacb382eed13ee04708f00ba0a9c40e3b21cf91da8859d0f7d99e0c50141042b409e1ebbb43875be5edde9c452c82c01e3903d38fa4fd89f3887a52cb8aea9dc8aec7e2c9d5b3609c03eb16259a2537135a1bf0f9c5fbbcbdbaf83ba402442ffffffff02206b1000000000001976a91420bb5c3bfaef0231dc05190e7f1c8e22e098991e88acf0ca0100000000001976a9149e3e2d23973a04ec1b02be97c30ab9f2f27c3b2c88ac00000000").unwrap()
}
#[test]
fn ok_23_transaction_sign_is_rfc6979_reversed_nonce_over_sha256d_of_preimage() {
    let mut rng = rf::Rng(23);
    let flags = [SigHash::InputsOutputs, SigHash::Inputs, SigHash::InputsOutput, SigHash::InputOutputs, SigHash::ALL, SigHash::NONE, SigHash::SINGLE];
    for i in 0..210 {
        let d = if i < 15 { edge_keys()[i].clone() } else { rng.scalar() };
        let compressed = i % 2 == 0;
        let key = lib_key(&d).compress_public_key(compressed);
        let mut tx = sample_tx();
        let script = Script::from_asm_string("OP_DUP OP_HASH160 20bb5c3bfaef0231dc05190e7f1c8e22e098991e OP_EQUALVERIFY OP_CHECKSIG").unwrap();
        let flag = flags[i % flags.len()];
        let n_in = i % 2;
        let value = rng.next() % 100_000_000;
        let preimage = tx.sighash_preimage(flag, n_in, &script, value).unwrap();
        let ssig = tx.sign(&key, flag, n_in, &script, value).unwrap();
        let bytes = ssig.to_bytes().unwrap();
        let (r, s) = der_rs(&bytes[..bytes.len() - 1]);
        let digest = rf::sha256d(&preimage);
        let want = rf::sign_det(&d, &digest, &rf::reversed(&digest));
        assert!(r == want.r && s == want.s, "Transaction::sign key {:x} flag {:?}: got ({:x},{:x}) want ({:x},{:x})", d, flag, r, s, want.r, want.s);
        assert!(s <= half_n());
        let q = rf::pubkey(&d);
        assert!(rf::verify(&q, &digest, &r, &s));
        let pk = key.to_public_key().unwrap();
        assert!(tx.verify(&pk, &ssig));
        assert!(tx._verify(&pk, &ssig, false));
        assert!(tx.verify(&PublicKey::from_bytes(&rf::sec1(&q, !compressed)).unwrap(), &ssig));
        let d_other = rng.scalar();
        assert!(d_other == d || !tx.verify(&lib_key(&d_other).to_public_key().unwrap(), &ssig), "Transaction::verify: signature of key {:x} verified under key {:x} (i={})", d, d_other, i);
        // signature over another preimage does not verify
        let other = SighashSignature::new(&Signature::from_der(&bytes[..bytes.len() - 1]).unwrap(), flag, &preimage[..preimage.len() - 1]);
        assert!(!tx.verify(&pk, &other));
        // caller nonce
        let k = rng.scalar();
        let sk = tx.sign_with_k(&key, &lib_key(&k), flag, n_in, &script, value).unwrap();
        let kb = sk.to_bytes().unwrap();
        let wk = rf::sign_with_nonce(&d, &k, &digest).unwrap();
        assert_eq!(der_rs(&kb[..kb.len() - 1]), (wk.r, wk.s));
        assert!(tx.verify(&pk, &sk));
    }
}

// ------------------------------------------------------------------ 24-27. ECDH
#[test]
fn ok_24_ecdh_symmetric_and_equals_abscissa_of_shared_point() {
    let mut rng = rf::Rng(24);
    for i in 0..scale(600) {
        let a = rng.scalar();
        let b = rng.scalar();
        let qa = rf::pubkey(&a);
        let qb = rf::pubkey(&b);
        let ca = i % 2 == 0;
        let cb = (i / 2) % 2 == 0;
        let ka = lib_key(&a).compress_public_key(ca);
        let kb = lib_key(&b).compress_public_key(cb);
        let pa = PublicKey::from_bytes(&rf::sec1(&qa, ca)).unwrap();
        let pb = PublicKey::from_bytes(&rf::sec1(&qb, cb)).unwrap();
        let s1 = ECDH::derive_shared_key(&ka, &pb).unwrap();
        let s2 = ECDH::derive_shared_key(&kb, &pa).unwrap();
        let shared = rf::mul(&a, &Some(qb.clone())).unwrap();
        assert_eq!(s1, s2, "ECDH not symmetric a={:x} b={:x}", a, b);
        assert_eq!(s1, rf::to32(&shared.0).to_vec(), "ECDH a={:x} b={:x}: got {} want x={:x}", a, b, hex::encode(&s1), shared.0);
        // also via the library's own public key objects, in the other compression
        let s3 = ECDH::derive_shared_key(&ka, &kb.compress_public_key(!cb).to_public_key().unwrap()).unwrap();
        assert_eq!(s1, s3);
    }
}
#[test]
fn ok_25_ecdh_edge_keys() {
    let keys = edge_keys();
    for a in keys.iter() {
        for b in keys.iter() {
            let qa = rf::pubkey(a);
            let qb = rf::pubkey(b);
            for (ca, cb) in [(true, true), (true, false), (false, true), (false, false)] {
                let s1 = ECDH::derive_shared_key(&lib_key(a), &PublicKey::from_bytes(&rf::sec1(&qb, cb)).unwrap()).unwrap();
                let s2 = ECDH::derive_shared_key(&lib_key(b), &PublicKey::from_bytes(&rf::sec1(&qa, ca)).unwrap()).unwrap();
                let shared = rf::mul(&((a * b) % rf::n()), &rf::g()).expect("a*b != 0 mod n");
                assert_eq!(s1, s2);
                assert_eq!(s1, rf::to32(&shared.0).to_vec(), "a={:x} b={:x}", a, b);
                assert_eq!(s1.len(), 32);
            }
        }
    }
    // own key: d * (dG)
    let d = BigUint::from(1u8);
    let s = ECDH::derive_shared_key(&lib_key(&d), &lib_key(&d).to_public_key().unwrap()).unwrap();
    assert_eq!(s, rf::to32(&rf::gx()).to_vec());
}
#[test]
fn ok_26_ecdh_and_verify_cannot_be_fed_invalid_points() {
    let p = rf::p();
    // x = 5 has no point on secp256k1? find an x without a square root, and an off-curve (x, y)
    let mut bad_x = None;
    for x in 1u32..50 {
        let xb = BigUint::from(x);
        let rhs = (&xb * &xb * &xb + 7u8) % &p;
        let euler = rhs.modpow(&((&p - 1u8) >> 1), &p);
        if euler != BigUint::from(1u8) {
            bad_x = Some(xb);
            break;
        }
    }
    let bad_x = bad_x.unwrap();
    let mut enc = vec![2u8];
    enc.extend_from_slice(&rf::to32(&bad_x));
    assert!(PublicKey::from_bytes(&enc).is_err(), "compressed x without ordinate accepted");
    let mut unc = vec![4u8];
    unc.extend_from_slice(&rf::to32(&rf::gx()));
    unc.extend_from_slice(&rf::to32(&(rf::gy() + 1u8)));
    assert!(PublicKey::from_bytes(&unc).is_err(), "off-curve point accepted");
    assert!(PublicKey::from_bytes(&[0u8]).is_err(), "identity accepted");
    assert!(PublicKey::from_bytes(&[]).is_err());
    // x >= p
    let mut big = vec![2u8];
    big.extend_from_slice(&rf::to32(&p));
    assert!(PublicKey::from_bytes(&big).is_err());
    let mut big = vec![3u8];
    big.extend_from_slice(&[0xff; 32]);
    assert!(PublicKey::from_bytes(&big).is_err());
    // hybrid encodings are not SEC1 keys for this library
    let mut hy = vec![6u8];
    hy.extend_from_slice(&rf::to32(&rf::gx()));
    hy.extend_from_slice(&rf::to32(&rf::gy()));
    assert!(PublicKey::from_bytes(&hy).is_err());
    assert!(PublicKey::from_hex(&hex::encode(&unc)).is_err());
    assert!(serde_json::from_str::<PublicKey>(&format!("\"{}\"", hex::encode(&unc))).is_err());
}
#[test]
fn ok_27_ecies_cipher_keys_use_the_same_shared_point() {
    use sha2::{Digest, Sha512};
    let mut rng = rf::Rng(27);
    for i in 0..200 {
        let a = rng.scalar();
        let b = rng.scalar();
        let qb = rf::pubkey(&b);
        let qa = rf::pubkey(&a);
        let shared = rf::mul(&a, &Some(qb.clone())).unwrap();
        let h = Sha512::digest(&rf::sec1(&shared, true));
        let k1 = ECIES::derive_cipher_keys(&lib_key(&a), &PublicKey::from_bytes(&rf::sec1(&qb, i % 2 == 0)).unwrap()).unwrap();
        let k2 = ECIES::derive_cipher_keys(&lib_key(&b).compress_public_key(false), &PublicKey::from_bytes(&rf::sec1(&qa, i % 3 == 0)).unwrap()).unwrap();
        assert_eq!(k1.get_iv(), h[0..16].to_vec());
        assert_eq!(k1.get_ke(), h[16..32].to_vec());
        assert_eq!(k1.get_km(), h[32..64].to_vec());
        assert_eq!((k1.get_iv(), k1.get_ke(), k1.get_km()), (k2.get_iv(), k2.get_ke(), k2.get_km()));
    }
}

// ------------------------------------------------------------------ 28. key range
#[test]
fn ok_28_private_key_range() {
    let n = rf::n();
    assert!(PrivateKey::from_bytes(&[0u8; 32]).is_err(), "0 accepted");
    assert!(PrivateKey::from_bytes(&rf::to32(&n)).is_err(), "n accepted");
    assert!(PrivateKey::from_bytes(&rf::to32(&(&n + 1u8))).is_err(), "n+1 accepted");
    assert!(PrivateKey::from_bytes(&[0xff; 32]).is_err(), "2^256-1 accepted");
    for d in edge_keys() {
        let k = lib_key(&d);
        assert_eq!(k.to_bytes(), rf::to32(&d).to_vec());
        assert_eq!(PrivateKey::from_hex(&k.to_hex()).unwrap().to_bytes(), k.to_bytes());
        let q = rf::pubkey(&d);
        assert_eq!(k.to_public_key().unwrap().to_bytes().unwrap(), rf::sec1(&q, true));
        // WIF round trip keeps key and compression, and signs the same
        for c in [true, false] {
            let w = PrivateKey::from_wif(&k.compress_public_key(c).to_wif().unwrap()).unwrap();
            assert_eq!(w.to_bytes(), k.to_bytes());
            assert_eq!(w.to_public_key().unwrap().to_bytes().unwrap(), rf::sec1(&q, c));
        }
    }
}

// ------------------------------------------------------------------ 29. produced transaction signatures pass OP_CHECKSIG, and only under the signer's key
fn ripemd_free_hash160(pk: &PublicKey) -> String {
    // the address hash is not under test here: taken from the library
    Hash::hash_160(&pk.to_bytes().unwrap()).to_hex()
}
#[test]
fn ok_29_interpreter_checksig_accepts_produced_signatures_only_for_signer() {
    let mut rng = rf::Rng(29);
    let flags = [SigHash::InputsOutputs, SigHash::Inputs, SigHash::InputsOutput, SigHash::InputOutputs, SigHash::ALL, SigHash::NONE];
    for i in 0..120 {
        let d = if i < 15 { edge_keys()[i].clone() } else { rng.scalar() };
        let compressed = i % 2 == 0;
        let key = lib_key(&d).compress_public_key(compressed);
        let pubkey = key.to_public_key().unwrap();
        let flag = flags[i % flags.len()];
        let sats = rng.next() % 1_000_000;
        let run = |signer: &PrivateKey, shown: &PublicKey, use_k: Option<BigUint>| -> bool {
            let mut tx = Transaction::new(2, 0);
            let locking_script = Script::from_asm_string("OP_CHECKSIG").unwrap();
            let mut txin = TxIn::default();
            txin.set_satoshis(sats);
            txin.set_locking_script(&locking_script);
            tx.add_input(&txin);
            tx.add_output(&TxOut::new(1, &Script::from_asm_string("OP_1").unwrap()));
            let signature = match use_k {
                None => tx.sign(signer, flag, 0, &locking_script, sats).unwrap(),
                Some(k) => tx.sign_with_k(signer, &lib_key(&k), flag, 0, &locking_script, sats).unwrap(),
            };
            let script = Script::from_asm_string(&format!("{} {}", signature.to_hex().unwrap(), shown.to_hex().unwrap())).unwrap();
            txin.set_unlocking_script(&script);
            tx.set_input(0, &txin);
            let mut interpreter = Interpreter::from_transaction(&tx, 0).unwrap();
            match interpreter.run() {
                Ok(()) => interpreter.state().stack().last() == Some(&vec![1u8]),
                Err(_) => false,
            }
        };
        assert!(run(&key, &pubkey, None), "OP_CHECKSIG rejects Transaction::sign output, key {:x} flag {:?}", d, flag);
        assert!(run(&key, &pubkey, Some(rng.scalar())), "OP_CHECKSIG rejects Transaction::sign_with_k output");
        let other = if compressed { pubkey.to_decompressed().unwrap() } else { pubkey.to_compressed().unwrap() };
        assert!(run(&key, &other, None), "other encoding of the same key");
        let mut d2 = rng.scalar();
        if d2 == d {
            d2 = (&d2 % (rf::n() - 2u8)) + 1u8;
        }
        assert!(!run(&key, &lib_key(&d2).to_public_key().unwrap(), None), "OP_CHECKSIG accepted under another key");
    }
}

// ------------------------------------------------------------------ 30. short r / short s: encodings of produced signatures
fn der_encode(r: &BigUint, s: &BigUint) -> Vec<u8> {
    fn int(v: &BigUint) -> Vec<u8> {
        let mut b = v.to_bytes_be();
        if b[0] & 0x80 != 0 {
            b.insert(0, 0);
        }
        let mut out = vec![0x02, b.len() as u8];
        out.extend_from_slice(&b);
        out
    }
    let mut body = int(r);
    body.extend_from_slice(&int(s));
    let mut out = vec![0x30, body.len() as u8];
    out.extend_from_slice(&body);
    out
}
#[test]
fn ok_30_short_r_and_tiny_s_signatures() {
    let n = rf::n();
    // k = 1/2 mod n gives the famous 166 bit r
    let k = rf::inv_mod(&BigUint::from(2u8), &n);
    let r_short = rf::mul(&k, &rf::g()).unwrap().0;
    assert_eq!(format!("{:x}", r_short), "3b78ce563f89a0ed9414f5aa28ad0d96d6795f9c63");
    let mut rng = rf::Rng(30);
    for i in 0..100 {
        let d = rng.scalar();
        let m = rng.bytes(12);
        let h = HASHES[i % 2];
        check_with_k(&d, &k, &m, h, i % 2 == 0, "short r");
        let sig = ECDSA::sign_with_k(&lib_key(&d), &lib_key(&k), &m, h).unwrap();
        let (r, s) = lib_rs(&sig);
        assert_eq!(r, r_short);
        assert_eq!(sig.to_der_bytes(), der_encode(&r, &s), "DER of short r");
        assert_eq!(sig.r().len(), 32);
        let back = Signature::from_der(&sig.to_der_bytes()).unwrap();
        assert!(lib_verifies(&m, &lib_key(&d).to_public_key().unwrap(), &back, h));
        let back = Signature::from_compact_bytes(&sig.to_compact_bytes(None)).unwrap();
        assert_eq!(back.recover_public_key(&m, h).unwrap().to_bytes().unwrap(), rf::sec1(&rf::pubkey(&d), true));
    }
    // choose d so that s = t for tiny t: d = (t k - z) / r
    for t in 1u32..40 {
        let k = rng.scalar();
        let m = rng.bytes(9);
        let z = rf::from_be(&rf::sha256(&m)) % &n;
        let r = rf::mul(&k, &rf::g()).unwrap().0 % &n;
        let d = (((BigUint::from(t) * &k) % &n + &n - &z) * rf::inv_mod(&r, &n)) % &n;
        if d == BigUint::from(0u8) {
            continue;
        }
        check_with_k(&d, &k, &m, SigningHash::Sha256, true, "tiny s");
        let sig = ECDSA::sign_with_k(&lib_key(&d), &lib_key(&k), &m, SigningHash::Sha256).unwrap();
        assert_eq!(lib_rs(&sig).1, BigUint::from(t), "s = {}", t);
        assert_eq!(sig.to_der_bytes(), der_encode(&r, &BigUint::from(t)));
        // and the mirrored case: raw s = n - t is high, normalised to t
        let d = (((((&n - t) * &k) % &n) + &n - &z) * rf::inv_mod(&r, &n)) % &n;
        check_with_k(&d, &k, &m, SigningHash::Sha256, false, "s = n - tiny");
        let sig = ECDSA::sign_with_k(&lib_key(&d), &lib_key(&k), &m, SigningHash::Sha256).unwrap();
        assert_eq!(lib_rs(&sig).1, BigUint::from(t));
    }
    // raw s exactly (n-1)/2 (the largest low value) stays, (n+1)/2 is flipped
    for (raw, expect) in [(half_n(), half_n()), (half_n() + 1u8, half_n())] {
        let k = rng.scalar();
        let m = b"boundary".to_vec();
        let z = rf::from_be(&rf::sha256d(&m)) % &n;
        let r = rf::mul(&k, &rf::g()).unwrap().0 % &n;
        let d = (((&raw * &k) % &n + &n - &z) * rf::inv_mod(&r, &n)) % &n;
        check_with_k(&d, &k, &m, SigningHash::Sha256d, true, "s at the half order boundary");
        let sig = ECDSA::sign_with_k(&lib_key(&d), &lib_key(&k), &m, SigningHash::Sha256d).unwrap();
        assert_eq!(lib_rs(&sig).1, expect);
    }
}

// ------------------------------------------------------------------ 31. reproducible across threads
#[test]
fn ok_31_deterministic_across_threads() {
    let d = rf::hexn("c05c05c05c05c05c05c05c05c05c05c05c05c05c05c05c05c05c05c05c05c05c");
    let msgs: Vec<Vec<u8>> = (0..64u8).map(|i| vec![i; i as usize]).collect();
    let expect: Vec<Vec<u8>> = msgs
        .iter()
        .map(|m| {
            let dg = rf::sha256d(m);
            let w = rf::sign_det(&d, &dg, &rf::reversed(&dg));
            der_encode(&w.r, &w.s)
        })
        .collect();
    let handles: Vec<_> = (0..4)
        .map(|_| {
            let msgs = msgs.clone();
            let d = d.clone();
            std::thread::spawn(move || {
                let key = lib_key(&d);
                msgs.iter().map(|m| ECDSA::sign_with_deterministic_k(&key, m, SigningHash::Sha256d, true).unwrap().to_der_bytes()).collect::<Vec<_>>()
            })
        })
        .collect();
    for h in handles {
        assert_eq!(h.join().unwrap(), expect);
    }
}

// ------------------------------------------------------------------ 32. key encodings used by the verifiers
#[test]
fn ok_32_public_key_forms_match_reference() {
    let mut rng = rf::Rng(32);
    let (mut odd, mut even) = (0, 0);
    for _ in 0..500 {
        let d = rng.scalar();
        let q = rf::pubkey(&d);
        if q.1.bit(0) {
            odd += 1
        } else {
            even += 1
        }
        let pc = PublicKey::from_bytes(&rf::sec1(&q, true)).unwrap();
        let pu = PublicKey::from_bytes(&rf::sec1(&q, false)).unwrap();
        assert_eq!(pc.to_decompressed().unwrap().to_bytes().unwrap(), rf::sec1(&q, false));
        assert_eq!(pu.to_compressed().unwrap().to_bytes().unwrap(), rf::sec1(&q, true));
        assert_eq!(pu.to_decompressed().unwrap().to_bytes().unwrap(), rf::sec1(&q, false));
        assert_eq!(pc.to_compressed().unwrap().to_bytes().unwrap(), rf::sec1(&q, true));
        assert_eq!(lib_key(&d).get_point(), rf::sec1(&q, true));
        assert_eq!(lib_key(&d).compress_public_key(false).get_point(), rf::sec1(&q, false));
        assert!(pc.is_compressed() && !pu.is_compressed());
    }
    assert!(odd > 100 && even > 100);
}

// ------------------------------------------------------------------ 33. shared secret with leading zero bytes
#[test]
fn ok_33_ecdh_shared_abscissa_with_leading_zero_bytes() {
    let n = rf::n();
    let mut rng = rf::Rng(33);
    let half = rf::inv_mod(&BigUint::from(2u8), &n);
    for i in 0..50 {
        let b = rng.scalar();
        let a = (&half * rf::inv_mod(&b, &n)) % &n;
        let qa = rf::pubkey(&a);
        let qb = rf::pubkey(&b);
        let s1 = ECDH::derive_shared_key(&lib_key(&a), &PublicKey::from_bytes(&rf::sec1(&qb, i % 2 == 0)).unwrap()).unwrap();
        let s2 = ECDH::derive_shared_key(&lib_key(&b), &PublicKey::from_bytes(&rf::sec1(&qa, i % 3 == 0)).unwrap()).unwrap();
        assert_eq!(hex::encode(&s1), "00000000000000000000003b78ce563f89a0ed9414f5aa28ad0d96d6795f9c63");
        assert_eq!(s1, s2);
    }
}

// ------------------------------------------------------------------ 34. borderline observations (inherent to ECDSA, kept as passing tests)
#[test]
fn ok_34_borderline_digests_congruent_mod_n_and_alternative_keys() {
    // (a) pre-hashed entry points: the 32 byte digests D and D + n (both < 2^256) are different digests with the same
    //     message scalar, so a signature for one verifies for the other. SEC1 4.1.3/4.1.4 define e from the digest and
    //     use it only modulo n, so this is ECDSA, not a defect of the library.
    let n = rf::n();
    let d = BigUint::from(0xC05u32);
    let key = lib_key(&d);
    let pk = key.to_public_key().unwrap();
    let small = BigUint::from(5u8);
    let dg_a = rf::to32(&small);
    let dg_b = rf::to32(&(&small + &n));
    let sig_a = ECDSA::sign_digest_with_deterministic_k(&key, &dg_a).unwrap();
    let sig_b = ECDSA::sign_digest_with_deterministic_k(&key, &dg_b).unwrap();
    assert_eq!(sig_a.to_der_bytes(), sig_b.to_der_bytes(), "RFC 6979 bits2octets reduces mod n as well");
    assert!(lib_verifies_hashbuf(&dg_b, &pk, &sig_a));
    assert!(rf::verify(&rf::pubkey(&d), &dg_b, &lib_rs(&sig_a).0, &lib_rs(&sig_a).1), "the SEC1 reference verifier agrees");
    // (b) for a signature there are other public keys under which it verifies (the keys recovered with the other
    //     recovery id); again a property of ECDSA
    let m = b"alternative key";
    let sig = key.sign_message(m).unwrap();
    let mut compact = sig.to_compact_bytes(None);
    compact[0] ^= 1; // other ordinate parity (27+4+id)
    compact[0] = 31 + ((compact[0] - 31) & 1) ;
    let alt = Signature::from_compact_bytes(&compact).unwrap().recover_public_key(m, SigningHash::Sha256).unwrap();
    assert_ne!(alt.to_bytes().unwrap(), pk.to_bytes().unwrap());
    assert!(lib_verifies(m, &alt, &sig, SigningHash::Sha256));
    // the reference verifier says the same about that key
    let ab = alt.to_decompressed().unwrap().to_bytes().unwrap();
    let q_alt = (rf::from_be(&ab[1..33]), rf::from_be(&ab[33..65]));
    let (r, s) = lib_rs(&sig);
    assert!(rf::verify(&q_alt, &rf::sha256(m), &r, &s));
}

// ------------------------------------------------------------------ 35. BSM verification with addresses on other networks / address strings
#[test]
fn ok_35_bsm_verifies_under_signer_address_on_any_network() {
    let mut rng = rf::Rng(35);
    for i in 0..60 {
        let d = rng.scalar();
        let compressed = i % 2 == 0;
        let key = lib_key(&d).compress_public_key(compressed);
        let m = rng.vbytes(0, 50);
        let sig = BSM::sign_message(&key, &m).unwrap();
        let pk = PublicKey::from_bytes(&rf::sec1(&rf::pubkey(&d), compressed)).unwrap();
        let addr = pk.to_p2pkh_address().unwrap();
        for params in [ChainParams::mainnet(), ChainParams::testnet(), ChainParams::regtest(), ChainParams::stn()] {
            let a = addr.set_chain_params(&params).unwrap();
            assert!(matches!(a.verify_bitcoin_message(&m, &sig), Ok(true)));
            let again = P2PKHAddress::from_string(&a.to_string().unwrap()).unwrap();
            assert!(matches!(BSM::verify_message(&m, &sig, &again), Ok(true)));
            let mut d2 = rng.scalar();
            if d2 == d {
                d2 = (&d2 % (rf::n() - 2u8)) + 1u8;
            }
            let wrong = lib_key(&d2).to_public_key().unwrap().to_p2pkh_address().unwrap().set_chain_params(&params).unwrap();
            assert!(!wrong.is_valid_bitcoin_message(&m, &sig));
        }
    }
}

// ------------------------------------------------------------------ 36. (outside the statement, new code of 786e6fd) recovery ids 2/3 on forged signatures whose R has abscissa >= n
#[test]
fn ok_36_extra_recovery_with_reduced_abscissa() {
    let (n, p) = (rf::n(), rf::p());
    let mut rng = rf::Rng(36);
    let mut found = 0;
    let mut j = BigUint::from(1u8);
    while found < 12 {
        j += 1u8;
        let x = &n + &j;
        assert!(x < p);
        let rhs = (&x * &x * &x + 7u8) % &p;
        let y = rhs.modpow(&((&p + 1u8) >> 2), &p);
        if (&y * &y) % &p != rhs {
            continue;
        }
        found += 1;
        for y in [y.clone(), &p - &y] {
            let m = rng.bytes(16);
            let digest = rf::sha256(&m);
            let z = rf::from_be(&digest) % &n;
            let s = rng.scalar() % half_n() + 1u8;
            let r = j.clone();
            // Q = r^-1 (s R - z G)
            let sr = rf::mul(&s, &Some((x.clone(), y.clone())));
            let mzg = rf::mul(&((&n - &z) % &n), &rf::g());
            let q = rf::mul(&rf::inv_mod(&r, &n), &rf::add(&sr, &mzg)).unwrap();
            assert!(rf::verify(&q, &digest, &r, &s), "forged signature is valid for Q under the reference");
            let mut compact = vec![27 + 4 + 2 + y.bit(0) as u8];
            compact.extend_from_slice(&rf::to32(&r));
            compact.extend_from_slice(&rf::to32(&s));
            let sig = Signature::from_compact_bytes(&compact).unwrap();
            let rec = sig.recover_public_key(&m, SigningHash::Sha256).unwrap();
            assert_eq!(rec.to_bytes().unwrap(), rf::sec1(&q, true), "recovery with id {} for r = {:x}", compact[0] - 31, r);
            assert!(lib_verifies(&m, &rec, &sig, SigningHash::Sha256));
            assert_eq!(sig.to_compact_bytes(None), compact);
        }
    }
}

// ------------------------------------------------------------------ 37. (outside the statement) key recovery from a known nonce, companion of sign_with_k
fn key_from_k_cases(small_k: bool, seed: u64, cases: usize) -> Vec<String> {
    let mut rng = rf::Rng(seed);
    let mut failures = vec![];
    for i in 0..cases {
        let d = rng.scalar();
        let k = if small_k { BigUint::from(rng.next() % 3 + 1) } else { rf::from_be(&rng.bytes(32)) % (rf::n() - 1u8) + 1u8 };
        let m = rng.bytes(8);
        let h = HASHES[i % 2];
        let key = lib_key(&d);
        let sig = ECDSA::sign_with_k(&key, &lib_key(&k), &m, h).unwrap();
        match ECDSA::private_key_from_signature_k(&sig, &key.to_public_key().unwrap(), &lib_key(&k), &m, h) {
            Ok(p) if p.to_bytes() == key.to_bytes() => {}
            Ok(p) => failures.push(format!("d={:x} k={:x} m={} -> wrong key {}", d, k, hex::encode(&m), p.to_hex())),
            Err(e) => failures.push(format!("d={:x} k={:x} m={} hash={} -> {}", d, k, hex::encode(&m), hname(h), e)),
        }
    }
    failures
}
#[test]
fn ok_37_extra_private_key_from_signature_k_random_nonces() {
    let f = key_from_k_cases(false, 37, 300);
    assert!(f.is_empty(), "{} failures, first: {}", f.len(), f[0]);
}
/// NOT a C05 violation (the statement does not speak about recovering a key from a nonce): kept, ignored, as an
/// out-of-scope observation. Fails on the current code: src/ecdsa/recover.rs:442 computes k*s - z in unsigned 1024 bit
/// arithmetic before reducing mod n, which wraps when k*s < z, i.e. for tiny nonces.
#[test]
#[ignore]
fn extra_outofscope_38_private_key_from_signature_k_small_nonces() {
    let f = key_from_k_cases(true, 38, 300);
    assert!(f.is_empty(), "{} of 300 failures, first: {}", f.len(), f[0]);
}

// ------------------------------------------------------------------ 39. library hash helpers = reference; reversed-digest verification
#[test]
fn ok_39_hash_helpers_and_reversed_hashbuf_verification() {
    let mut rng = rf::Rng(39);
    for len in [0usize, 1, 55, 56, 63, 64, 65, 1000, 100_000] {
        let m = rng.bytes(len);
        assert_eq!(Hash::sha_256(&m).to_bytes(), rf::sha256(&m).to_vec());
        assert_eq!(Hash::sha_256d(&m).to_bytes(), rf::sha256d(&m).to_vec());
    }
    for i in 0..100 {
        let d = rng.scalar();
        let key = lib_key(&d);
        let pk = key.to_public_key().unwrap();
        let mut tx = sample_tx();
        let script = Script::from_asm_string("OP_CHECKSIG").unwrap();
        let preimage = tx.sighash_preimage(SigHash::InputsOutputs, i % 2, &script, 5000).unwrap();
        let digest = rf::sha256d(&preimage);
        let rdigest = rf::reversed(&digest);
        // a signature over the reversed digest, produced by the pre-hashed entry point
        let sig = ECDSA::sign_digest_with_deterministic_k(&key, &rdigest).unwrap();
        let want = rf::sign_det(&d, &rdigest, &rdigest);
        assert_eq!(lib_rs(&sig), (want.r, want.s));
        let ss = SighashSignature::new(&sig, SigHash::InputsOutputs, &preimage);
        assert!(tx._verify(&pk, &ss, true), "reversed hashbuf verification");
        assert!(!tx._verify(&pk, &ss, false), "verifies for another digest");
        assert!(!tx.verify(&pk, &ss));
        assert!(lib_verifies_hashbuf(&rdigest, &pk, &sig));
        assert!(!lib_verifies_hashbuf(&digest, &pk, &sig));
    }
}
