// Hunt for C03: FORKID sighash preimage equals the replay-protected sighash specification.
// Oracle: a reference implementation of the specification that works on raw bytes only (RefTx below),
// plus an independent ECDSA verification through k256 directly.
use bsv::*;
use k256::ecdsa::signature::Verifier;
use sha2::{Digest, Sha256};

// ---------------------------------------------------------------------------------------------
// Reference implementation (raw bytes only, nothing of the library is used here)
// ---------------------------------------------------------------------------------------------
fn sha256d(data: &[u8]) -> Vec<u8> {
    Sha256::digest(&Sha256::digest(data)).to_vec()
}

fn compact_size(n: u64) -> Vec<u8> {
    if n < 0xfd {
        vec![n as u8]
    } else if n <= 0xffff {
        let mut v = vec![0xfd];
        v.extend_from_slice(&(n as u16).to_le_bytes());
        v
    } else if n <= 0xffff_ffff {
        let mut v = vec![0xfe];
        v.extend_from_slice(&(n as u32).to_le_bytes());
        v
    } else {
        let mut v = vec![0xff];
        v.extend_from_slice(&n.to_le_bytes());
        v
    }
}

#[derive(Clone, Debug)]
struct RefIn {
    txid_wire: [u8; 32],
    vout: u32,
    script: Vec<u8>,
    sequence: u32,
}

#[derive(Clone, Debug)]
struct RefOut {
    value: u64,
    script: Vec<u8>,
}

#[derive(Clone, Debug)]
struct RefTx {
    version: u32,
    ins: Vec<RefIn>,
    outs: Vec<RefOut>,
    locktime: u32,
}

impl RefOut {
    fn ser(&self) -> Vec<u8> {
        let mut v = self.value.to_le_bytes().to_vec();
        v.extend(compact_size(self.script.len() as u64));
        v.extend_from_slice(&self.script);
        v
    }
}

impl RefTx {
    fn raw(&self) -> Vec<u8> {
        let mut v = self.version.to_le_bytes().to_vec();
        v.extend(compact_size(self.ins.len() as u64));
        for i in &self.ins {
            v.extend_from_slice(&i.txid_wire);
            v.extend_from_slice(&i.vout.to_le_bytes());
            v.extend(compact_size(i.script.len() as u64));
            v.extend_from_slice(&i.script);
            v.extend_from_slice(&i.sequence.to_le_bytes());
        }
        v.extend(compact_size(self.outs.len() as u64));
        for o in &self.outs {
            v.extend(o.ser());
        }
        v.extend_from_slice(&self.locktime.to_le_bytes());
        v
    }

    /// The replay-protected digest algorithm. None: SINGLE without an output at the index (the library refuses; the
    /// specification itself would use a zero hash) or an input index out of range.
    fn preimage(&self, idx: usize, flag: u8, subscript: &[u8], value: u64) -> Option<Vec<u8>> {
        let input = self.ins.get(idx)?;
        let acp = flag & 0x80 != 0;
        let base = flag & 0x1f;
        let zero = vec![0u8; 32];

        let hash_prevouts = if !acp {
            let mut b = vec![];
            for i in &self.ins {
                b.extend_from_slice(&i.txid_wire);
                b.extend_from_slice(&i.vout.to_le_bytes());
            }
            sha256d(&b)
        } else {
            zero.clone()
        };
        let hash_sequence = if !acp && base != 2 && base != 3 {
            let mut b = vec![];
            for i in &self.ins {
                b.extend_from_slice(&i.sequence.to_le_bytes());
            }
            sha256d(&b)
        } else {
            zero.clone()
        };
        let hash_outputs = if base != 2 && base != 3 {
            let mut b = vec![];
            for o in &self.outs {
                b.extend(o.ser());
            }
            sha256d(&b)
        } else if base == 3 {
            if idx < self.outs.len() {
                sha256d(&self.outs[idx].ser())
            } else {
                return None;
            }
        } else {
            zero.clone()
        };

        let mut p = self.version.to_le_bytes().to_vec();
        p.extend(hash_prevouts);
        p.extend(hash_sequence);
        p.extend_from_slice(&input.txid_wire);
        p.extend_from_slice(&input.vout.to_le_bytes());
        p.extend(compact_size(subscript.len() as u64));
        p.extend_from_slice(subscript);
        p.extend_from_slice(&value.to_le_bytes());
        p.extend_from_slice(&input.sequence.to_le_bytes());
        p.extend(hash_outputs);
        p.extend_from_slice(&self.locktime.to_le_bytes());
        p.extend_from_slice(&(flag as u32).to_le_bytes());
        Some(p)
    }
}

const FLAGS: [(u8, SigHash); 6] = [
    (0x41, SigHash::InputsOutputs),
    (0x42, SigHash::Inputs),
    (0x43, SigHash::InputsOutput),
    (0xc1, SigHash::InputOutputs),
    (0xc2, SigHash::Input),
    (0xc3, SigHash::InputOutput),
];

// ---------------------------------------------------------------------------------------------
// Generators
// ---------------------------------------------------------------------------------------------
struct Rng(u64);
impl Rng {
    fn next(&mut self) -> u64 {
        // splitmix64
        self.0 = self.0.wrapping_add(0x9E3779B97F4A7C15);
        let mut z = self.0;
        z = (z ^ (z >> 30)).wrapping_mul(0xBF58476D1CE4E5B9);
        z = (z ^ (z >> 27)).wrapping_mul(0x94D049BB133111EB);
        z ^ (z >> 31)
    }
    fn below(&mut self, n: u64) -> u64 {
        self.next() % n
    }
    fn bytes(&mut self, n: usize) -> Vec<u8> {
        (0..n).map(|_| self.next() as u8).collect()
    }
    fn pick<T: Copy>(&mut self, xs: &[T]) -> T {
        xs[self.below(xs.len() as u64) as usize]
    }
}

/// Well-formed script bytes: plain opcodes, pushes of every form (also non-minimal ones), balanced conditionals.
fn gen_script(r: &mut Rng, items: usize, depth: usize) -> Vec<u8> {
    let plain: [u8; 14] = [0x00, 0x4f, 0x51, 0x60, 0x61, 0x76, 0xa9, 0x88, 0xac, 0xab, 0x87, 0x93, 0x7c, 0xae];
    let mut out = vec![];
    for _ in 0..items {
        match r.below(10) {
            0..=3 => out.push(r.pick(&plain)),
            4 | 5 => {
                let n = 1 + r.below(75) as usize;
                out.push(n as u8);
                out.extend(r.bytes(n));
            }
            6 => {
                let n = r.below(256) as usize;
                out.push(0x4c);
                out.push(n as u8);
                out.extend(r.bytes(n));
            }
            7 => {
                let n = r.pick(&[0usize, 1, 75, 76, 255, 256, 300, 520, 521]);
                out.push(0x4d);
                out.extend_from_slice(&(n as u16).to_le_bytes());
                out.extend(r.bytes(n));
            }
            8 => {
                let n = r.pick(&[0usize, 3, 80, 256]);
                out.push(0x4e);
                out.extend_from_slice(&(n as u32).to_le_bytes());
                out.extend(r.bytes(n));
            }
            _ => {
                if depth < 3 {
                    out.push(r.pick(&[0x63u8, 0x64]));
                    let n = r.below(3) as usize;
                    out.extend(gen_script(r, n, depth + 1));
                    if r.below(2) == 0 {
                        out.push(0x67);
                        let n = r.below(3) as usize;
                        out.extend(gen_script(r, n, depth + 1));
                    }
                    out.push(0x68);
                } else {
                    out.push(0x61);
                }
            }
        }
    }
    out
}

fn gen_tx(r: &mut Rng, n_in: usize, n_out: usize) -> RefTx {
    let seqs = [0u32, 1, 2, 0xff, 0x100, 0xfffffffe, 0xffffffff, 0x80000000, 0x01020304];
    let vals = [0u64, 1, 546, 0xff, 0x1_0000_0000, u64::MAX, 1 << 63, 21_000_000 * 100_000_000, 0x0102030405060708];
    let ins = (0..n_in)
        .map(|_| {
            let mut txid = [0u8; 32];
            txid.copy_from_slice(&r.bytes(32));
            let n = r.below(4) as usize;
            RefIn {
                txid_wire: txid,
                vout: if r.below(3) == 0 { r.next() as u32 } else { r.below(4) as u32 },
                script: gen_script(r, n, 0),
                sequence: if r.below(2) == 0 { r.pick(&seqs) } else { r.next() as u32 },
            }
        })
        .collect();
    let outs = (0..n_out)
        .map(|_| {
            let n = r.below(6) as usize;
            RefOut {
                value: if r.below(2) == 0 { r.pick(&vals) } else { r.next() },
                script: gen_script(r, n, 0),
            }
        })
        .collect();
    RefTx {
        version: r.pick(&[0u32, 1, 2, 0x7fffffff, 0x80000000, 0xffffffff, 0x01020304]),
        ins,
        outs,
        locktime: r.pick(&[0u32, 1, 499_999_999, 500_000_000, 0xffffffff, 0x04030201]),
    }
}

/// The same transaction assembled through the constructors and adders
fn build_via_api(t: &RefTx) -> Transaction {
    let mut tx = Transaction::new(t.version, t.locktime);
    for i in &t.ins {
        let mut display = i.txid_wire.to_vec();
        display.reverse();
        tx.add_input(&TxIn::new(&display, i.vout, &Script::from_bytes(&i.script).unwrap(), Some(i.sequence)));
    }
    for o in &t.outs {
        tx.add_output(&TxOut::new(o.value, &Script::from_bytes(&o.script).unwrap()));
    }
    tx
}

fn check_all(label: &str, tx: &mut Transaction, t: &RefTx, subscripts: &[Vec<u8>], values: &[u64], order_seed: u64) {
    // The flags are visited in an order that depends on the seed, so that the cache is filled through different routes
    let mut r = Rng(order_seed);
    for idx in 0..t.ins.len() + 1 {
        for sub in subscripts {
            let script = Script::from_bytes(sub).unwrap();
            assert_eq!(script.to_bytes(), *sub, "{}: subscript does not round trip", label);
            for &value in values {
                let mut flags = FLAGS.to_vec();
                for i in (1..flags.len()).rev() {
                    flags.swap(i, r.below(i as u64 + 1) as usize);
                }
                for (byte, flag) in flags {
                    let expected = t.preimage(idx, byte, sub, value);
                    let got = tx.sighash_preimage(flag, idx, &script, value);
                    match (expected, got) {
                        (Some(e), Ok(g)) => assert_eq!(hex::encode(g), hex::encode(e), "{}: idx {} flag {:#x} value {}", label, idx, byte, value),
                        (None, Err(_)) => {}
                        (e, g) => panic!("{}: idx {} flag {:#x}: expected {:?} got {:?}", label, idx, byte, e.map(hex::encode), g.map(hex::encode)),
                    }
                }
            }
        }
    }
}

// ---------------------------------------------------------------------------------------------
// E01: anchor of the reference implementation itself: the preimage of the repository's own known vector
// ---------------------------------------------------------------------------------------------
#[test]
fn e01_reference_matches_published_vector() {
    let raw = hex::decode("01000000029e8d016a7b0dc49a325922d05da1f916d1e4d4f0cb840c9727f3d22ce8d1363f000000008c493046022100e9318720bee5425378b4763b0427158b1051eec8b08442ce3fbfbf7b30202a44022100d4172239ebd701dae2fbaaccd9f038e7ca166707333427e3fb2a2865b19a7f27014104510c67f46d2cbb29476d1f0b794be4cb549ea59ab9cc1e731969a7bf5be95f7ad5e7f904e5ccf50a9dc1714df00fbeb794aa27aaff33260c1032d931a75c56f2ffffffffa3195e7a1ab665473ff717814f6881485dc8759bebe97e31c301ffe7933a656f020000008b48304502201c282f35f3e02a1f32d2089265ad4b561f07ea3c288169dedcf2f785e6065efa022100e8db18aadacb382eed13ee04708f00ba0a9c40e3b21cf91da8859d0f7d99e0c50141042b409e1ebbb43875be5edde9c452c82c01e3903d38fa4fd89f3887a52cb8aea9dc8aec7e2c9d5b3609c03eb16259a2537135a1bf0f9c5fbbcbdbaf83ba402442ffffffff02206b1000000000001976a91420bb5c3bfaef0231dc05190e7f1c8e22e098991e88acf0ca0100000000001976a9149e3e2d23973a04ec1b02be97c30ab9f2f27c3b2c88ac00000000").unwrap();
    // hand-parsed
    let t = RefTx {
        version: 1,
        ins: vec![
            RefIn {
                txid_wire: {
                    let mut a = [0u8; 32];
                    a.copy_from_slice(&raw[5..37]);
                    a
                },
                vout: 0,
                script: raw[42..42 + 0x8c].to_vec(),
                sequence: 0xffffffff,
            },
            RefIn {
                txid_wire: {
                    let mut a = [0u8; 32];
                    a.copy_from_slice(&raw[186..218]);
                    a
                },
                vout: 2,
                script: raw[223..223 + 0x8b].to_vec(),
                sequence: 0xffffffff,
            },
        ],
        outs: vec![
            RefOut {
                value: 0x106b20,
                script: hex::decode("76a91420bb5c3bfaef0231dc05190e7f1c8e22e098991e88ac").unwrap(),
            },
            RefOut {
                value: 0x01caf0,
                script: hex::decode("76a9149e3e2d23973a04ec1b02be97c30ab9f2f27c3b2c88ac").unwrap(),
            },
        ],
        locktime: 0,
    };
    assert_eq!(t.raw(), raw);
    let p = t.preimage(0, 0x43, &[0x00, 0x6a], 0).unwrap();
    assert_eq!(hex::encode(p), "010000008bf38a2d3f477a28aba2fe171260ffb0315c7371617ba6e39aea4ed97558c35800000000000000000000000000000000000000000000000000000000000000009e8d016a7b0dc49a325922d05da1f916d1e4d4f0cb840c9727f3d22ce8d1363f0000000002006a0000000000000000ffffffffc7732d98e887792b43e5dae92a159010d22e47d60ed48b88ba7b6c12a3c9e7560000000043000000");
}

// ---------------------------------------------------------------------------------------------
// E02: random transactions read from their bytes
// E03: the same transactions assembled through the API
// E04: and sent through JSON, E05: through CBOR
// ---------------------------------------------------------------------------------------------
#[test]
fn e02_e05_random_transactions_all_routes() {
    let mut r = Rng(0xC03);
    for round in 0..120 {
        let n_in = 1 + r.below(5) as usize;
        let n_out = r.below(6) as usize;
        let t = gen_tx(&mut r, n_in, n_out);
        let raw = t.raw();
        let n = r.below(5) as usize;
        let subs = vec![vec![], gen_script(&mut r, n, 0), vec![0xab, 0x76, 0xab, 0xac]];
        let values = [r.next(), r.pick(&[0u64, u64::MAX, 1 << 63, 1])];

        let mut parsed = Transaction::from_bytes(&raw).unwrap();
        assert_eq!(parsed.to_bytes().unwrap(), raw, "round {}: transaction does not round trip", round);
        check_all(&format!("parsed {}", round), &mut parsed, &t, &subs, &values, round);

        let mut built = build_via_api(&t);
        assert_eq!(built.to_bytes().unwrap(), raw);
        check_all(&format!("built {}", round), &mut built, &t, &subs, &values, round + 1000);

        // a transaction that already carries a filled cache is encoded and decoded
        let mut json = Transaction::from_json_string(&parsed.to_json_string().unwrap()).unwrap();
        assert_eq!(json.to_bytes().unwrap(), raw, "round {}: JSON changes the transaction", round);
        check_all(&format!("json {}", round), &mut json, &t, &subs, &values, round + 2000);

        let mut cbor = Transaction::from_compact_bytes(&built.to_compact_bytes().unwrap()).unwrap();
        assert_eq!(cbor.to_bytes().unwrap(), raw, "round {}: CBOR changes the transaction", round);
        check_all(&format!("cbor {}", round), &mut cbor, &t, &subs, &values, round + 3000);
    }
}

// ---------------------------------------------------------------------------------------------
// E06: subscript lengths around the compact-size class boundaries
// ---------------------------------------------------------------------------------------------
#[test]
fn e06_subscript_length_boundaries() {
    let mut r = Rng(6);
    let t = gen_tx(&mut r, 3, 3);
    let mut tx = Transaction::from_bytes(&t.raw()).unwrap();
    let mut subs = vec![];
    for len in [0usize, 1, 75, 76, 77, 251, 252, 253, 254, 255, 256, 257, 0xfffe, 0xffff, 0x10000, 0x10001, 0x10003, 70000] {
        // OP_NOP filling
        subs.push(vec![0x61u8; len]);
        // one single push that fills the length exactly, where one exists
        if len >= 2 && len <= 76 {
            let mut s = vec![(len - 1) as u8];
            s.extend(r.bytes(len - 1));
            subs.push(s);
        }
        if len >= 2 + 76 && len <= 2 + 255 {
            let mut s = vec![0x4c, (len - 2) as u8];
            s.extend(r.bytes(len - 2));
            subs.push(s);
        }
        if len >= 3 + 256 && len <= 3 + 0xffff {
            let mut s = vec![0x4d];
            s.extend_from_slice(&((len - 3) as u16).to_le_bytes());
            s.extend(r.bytes(len - 3));
            subs.push(s);
        }
        if len >= 5 + 0x10000 {
            let mut s = vec![0x4e];
            s.extend_from_slice(&((len - 5) as u32).to_le_bytes());
            s.extend(r.bytes(len - 5));
            subs.push(s);
        }
    }
    for s in &subs {
        assert!(t.preimage(0, 0x41, s, 0).unwrap().len() >= 156 + s.len());
    }
    check_all("lengths", &mut tx, &t, &subs, &[0x1122334455667788], 6);
}

// ---------------------------------------------------------------------------------------------
// E07: 64-bit values and 32-bit fields at their extremes, hand-laid bytes of a one-input transaction
// ---------------------------------------------------------------------------------------------
#[test]
fn e07_value_and_field_extremes() {
    let mut r = Rng(7);
    for version in [0u32, 1, 0x7fffffff, 0x80000000, 0xffffffff] {
        for locktime in [0u32, 0xffffffff, 0x80000000] {
            for sequence in [0u32, 1, 0x80000000, 0xffffffff] {
                let mut t = gen_tx(&mut r, 2, 2);
                t.version = version;
                t.locktime = locktime;
                t.ins[1].sequence = sequence;
                t.ins[1].vout = 0xffffffff; // not a coinbase outpoint as long as the id is not zero
                let mut tx = Transaction::from_bytes(&t.raw()).unwrap();
                check_all("extremes", &mut tx, &t, &[vec![0xac]], &[0, 1, 0xff, 0x100, u64::MAX, u64::MAX - 1, 1 << 63, (1 << 63) - 1, 1 << 32, 1 << 53], version as u64);
            }
        }
    }
}

// ---------------------------------------------------------------------------------------------
// E08: the cache across every mutator, in every order: after each change the preimages are those of the new transaction
// ---------------------------------------------------------------------------------------------
#[test]
fn e08_cache_follows_every_mutator() {
    let mut r = Rng(8);
    for round in 0..60 {
        let mut t = gen_tx(&mut r, 2, 2);
        let mut tx = if round % 2 == 0 { Transaction::from_bytes(&t.raw()).unwrap() } else { build_via_api(&t) };
        let sub = vec![vec![0x76, 0xa9, 0xac]];
        for step in 0..14 {
            // fill (part of) the cache first, through a flag chosen at random
            let (b, f) = r.pick(&FLAGS);
            let _ = tx.sighash_preimage(f, 0, &Script::from_bytes(&sub[0]).unwrap(), 5).map(|p| assert_eq!(Some(p), t.preimage(0, b, &sub[0], 5)));

            let fresh_in = gen_tx(&mut r, 1, 1);
            let ri = fresh_in.ins[0].clone();
            let ro = fresh_in.outs[0].clone();
            let mut display = ri.txid_wire.to_vec();
            display.reverse();
            let lin = TxIn::new(&display, ri.vout, &Script::from_bytes(&ri.script).unwrap(), Some(ri.sequence));
            let lout = TxOut::new(ro.value, &Script::from_bytes(&ro.script).unwrap());
            match r.below(14) {
                0 => {
                    tx.add_input(&lin);
                    t.ins.push(ri);
                }
                1 => {
                    tx.prepend_input(&lin);
                    t.ins.insert(0, ri);
                }
                2 => {
                    let at = r.below(t.ins.len() as u64 + 1) as usize;
                    tx.insert_input(at, &lin);
                    t.ins.insert(at, ri);
                }
                3 => {
                    let at = r.below(t.ins.len() as u64) as usize;
                    tx.set_input(at, &lin);
                    t.ins[at] = ri;
                }
                4 => {
                    tx.add_output(&lout);
                    t.outs.push(ro);
                }
                5 => {
                    tx.prepend_output(&lout);
                    t.outs.insert(0, ro);
                }
                6 => {
                    let at = r.below(t.outs.len() as u64 + 1) as usize;
                    tx.insert_output(at, &lout);
                    t.outs.insert(at, ro);
                }
                7 => {
                    let at = r.below(t.outs.len() as u64) as usize;
                    tx.set_output(at, &lout);
                    t.outs[at] = ro;
                }
                8 => {
                    let v = r.next() as u32;
                    let returned = tx.set_version(v);
                    t.version = v;
                    assert_eq!(returned.to_bytes().unwrap(), t.raw());
                }
                9 => {
                    let v = r.next() as u32;
                    let mut returned = tx.set_nlocktime(v);
                    t.locktime = v;
                    // the returned copy carries the cache with it
                    check_all("returned copy", &mut returned, &t, &sub, &[9], step);
                }
                10 => {
                    tx.add_inputs(vec![lin.clone(), lin]);
                    t.ins.push(ri.clone());
                    t.ins.push(ri);
                }
                11 => {
                    tx.add_outputs(vec![lout.clone(), lout]);
                    t.outs.push(ro.clone());
                    t.outs.push(ro);
                }
                12 => {
                    // change only the sequence of an input through get / set
                    let at = r.below(t.ins.len() as u64) as usize;
                    let mut i = tx.get_input(at).unwrap();
                    let s = r.next() as u32;
                    i.set_sequence(s);
                    tx.set_input(at, &i);
                    t.ins[at].sequence = s;
                }
                _ => {
                    // change only the outpoint of an input through get / set
                    let at = r.below(t.ins.len() as u64) as usize;
                    let mut i = tx.get_input(at).unwrap();
                    let v = r.next() as u32;
                    i.set_vout(v);
                    i.set_prev_tx_id(&display);
                    tx.set_input(at, &i);
                    t.ins[at].vout = v;
                    t.ins[at].txid_wire = ri.txid_wire;
                }
            }
            assert_eq!(tx.to_bytes().unwrap(), t.raw());
            let mut clone = tx.clone();
            check_all(&format!("mutated {} {}", round, step), &mut tx, &t, &sub, &[7], step);
            check_all(&format!("clone {} {}", round, step), &mut clone, &t, &sub, &[7], step + 50);
        }
    }
}

// ---------------------------------------------------------------------------------------------
// E09: other entry points in between do not disturb the cache: legacy preimages, signing, hash_inputs with every flag,
// get_outpoints, match helpers, serialisations
// ---------------------------------------------------------------------------------------------
#[test]
fn e09_interleaved_entry_points() {
    let mut r = Rng(9);
    let key = PrivateKey::from_hex("0000000000000000000000000000000000000000000000000000000000000001").unwrap();
    for round in 0..30 {
        let t = gen_tx(&mut r, 3, 3);
        let mut tx = Transaction::from_bytes(&t.raw()).unwrap();
        let sub = vec![vec![0x51, 0xab, 0xac]];
        let script = Script::from_bytes(&sub[0]).unwrap();
        for step in 0..8 {
            match r.below(8) {
                0 => {
                    for f in [SigHash::ALL, SigHash::NONE, SigHash::SINGLE, SigHash::Legacy_Input, SigHash::Legacy_InputOutput, SigHash::Legacy_InputOutputs] {
                        let _ = tx.sighash_preimage(f, r.below(3) as usize, &script, 1);
                    }
                }
                1 => {
                    let _ = tx.sign(&key, r.pick(&FLAGS).1, r.below(4) as usize, &script, 3);
                }
                2 => {
                    for f in [SigHash::FORKID, SigHash::ANYONECANPAY, SigHash::ALL, SigHash::NONE, SigHash::SINGLE, SigHash::Legacy_Input] {
                        let _ = tx.hash_inputs(f);
                    }
                }
                3 => {
                    let _ = tx.get_outpoints();
                    let _ = tx.get_id_hex();
                    let _ = tx.to_json_string();
                }
                4 => {
                    // an index out of range first
                    for (_, f) in FLAGS {
                        assert!(tx.sighash_preimage(f, 3, &script, 0).is_err());
                        assert!(tx.sighash_preimage(f, usize::MAX, &script, 0).is_err());
                    }
                }
                5 => {
                    let _ = tx.sign_with_k(&key, &PrivateKey::from_hex("0000000000000000000000000000000000000000000000000000000000000002").unwrap(), SigHash::InputsOutputs, 1, &script, 3);
                }
                6 => {
                    let _ = tx.sighash_preimage(SigHash::FORKID, 0, &script, 1);
                    let _ = tx.sighash_preimage(SigHash::ANYONECANPAY, 0, &script, 1);
                }
                _ => {}
            }
            check_all(&format!("interleaved {} {}", round, step), &mut tx, &t, &sub, &[11], step);
        }
    }
}

// ---------------------------------------------------------------------------------------------
// E10: SINGLE at and around the number of outputs; transactions without outputs; many inputs / outputs
// ---------------------------------------------------------------------------------------------
#[test]
fn e10_single_edges_and_counts() {
    let mut r = Rng(10);
    for (n_in, n_out) in [(1usize, 0usize), (1, 1), (2, 1), (3, 2), (5, 4), (4, 5), (1, 3), (253, 2), (2, 253), (300, 300)] {
        let t = gen_tx(&mut r, n_in, n_out);
        let raw = t.raw();
        let mut tx = Transaction::from_bytes(&raw).unwrap();
        assert_eq!(tx.to_bytes().unwrap(), raw);
        let script = Script::from_bytes(&[0xac]).unwrap();
        let mut indices: Vec<usize> = vec![0, n_in - 1, n_in / 2];
        if n_out > 0 {
            indices.push((n_out - 1).min(n_in - 1));
        }
        indices.push(n_out.min(n_in - 1));
        for idx in indices {
            for (b, f) in FLAGS {
                let expected = t.preimage(idx, b, &[0xac], 77);
                let got = tx.sighash_preimage(f, idx, &script, 77);
                match (expected, got) {
                    (Some(e), Ok(g)) => assert_eq!(hex::encode(g), hex::encode(e), "counts {} {} idx {} flag {:#x}", n_in, n_out, idx, b),
                    (None, Err(_)) => assert!(b & 3 == 3 && idx >= n_out),
                    (e, g) => panic!("counts {} {} idx {} flag {:#x}: {:?} / {:?}", n_in, n_out, idx, b, e.is_some(), g.is_ok()),
                }
            }
        }
    }
}

// ---------------------------------------------------------------------------------------------
// E11: signatures verify, by an independent verifier, against the double SHA-256 of the specified preimage
// ---------------------------------------------------------------------------------------------
fn independent_verify(pubkey_sec1: &[u8], preimage: &[u8], der: &[u8]) -> bool {
    let vk = match k256::ecdsa::VerifyingKey::from_sec1_bytes(pubkey_sec1) {
        Ok(v) => v,
        Err(_) => return false,
    };
    let sig = match k256::ecdsa::Signature::from_der(der) {
        Ok(v) => v,
        Err(_) => return false,
    };
    // Verifier hashes its message once with SHA-256: handing it SHA-256(preimage) verifies against SHA-256d(preimage)
    vk.verify(&Sha256::digest(preimage), &sig).is_ok()
}

#[test]
fn e11_signatures_verify_against_the_specified_digest() {
    let mut r = Rng(11);
    let keys = [
        PrivateKey::from_hex("0000000000000000000000000000000000000000000000000000000000000001").unwrap(),
        PrivateKey::from_hex("fffffffffffffffffffffffffffffffebaaedce6af48a03bbfd25e8cd0364140").unwrap(),
        PrivateKey::from_wif("L31JUXCGspUREe9Gya8F2WWjeoRz3bb8AQzJjAP8ntGYp37oYdSx").unwrap(),
        PrivateKey::from_wif("L31JUXCGspUREe9Gya8F2WWjeoRz3bb8AQzJjAP8ntGYp37oYdSx").unwrap().compress_public_key(false),
        PrivateKey::from_bytes(&Rng(1234).bytes(32)).unwrap(),
    ];
    for round in 0..25 {
        let t = gen_tx(&mut r, 3, 2);
        let mut tx = if round % 2 == 0 { Transaction::from_bytes(&t.raw()).unwrap() } else { build_via_api(&t) };
        let n = r.below(6) as usize;
        let sub = if round == 3 { vec![0x61; 70000] } else { gen_script(&mut r, n, 0) };
        let script = Script::from_bytes(&sub).unwrap();
        for key in &keys {
            let public = PublicKey::from_private_key(key);
            let public_bytes = public.to_bytes().unwrap();
            for idx in 0..3 {
                for (b, f) in FLAGS {
                    let value = r.next();
                    let expected = t.preimage(idx, b, &sub, value);
                    let k = PrivateKey::from_bytes(&r.bytes(32)).unwrap();
                    let results = [tx.sign(key, f, idx, &script, value), tx.sign_with_k(key, &k, f, idx, &script, value)];
                    for got in results {
                        match (&expected, got) {
                            (Some(e), Ok(sig)) => {
                                let bytes = sig.to_bytes().unwrap();
                                assert_eq!(*bytes.last().unwrap(), b, "flag byte of the signature");
                                assert_eq!(hex::decode(sig.to_hex().unwrap()).unwrap(), bytes);
                                let der = &bytes[..bytes.len() - 1];
                                assert!(independent_verify(&public_bytes, e, der), "round {} idx {} flag {:#x}: signature does not verify", round, idx, b);
                                // and not against another preimage
                                let other = t.preimage(idx, b, &sub, value.wrapping_add(1)).unwrap();
                                assert!(!independent_verify(&public_bytes, &other, der));
                                // the library's own verification agrees, also for the signature read back with the specified preimage
                                assert!(tx.verify(&public, &sig));
                                let back = SighashSignature::from_bytes(&bytes, e).unwrap();
                                assert!(tx.verify(&public, &back));
                                assert!(!tx.verify(&public, &SighashSignature::from_bytes(&bytes, &other).unwrap()));
                                // low S, strict DER as the network demands? (observation only)
                            }
                            (None, Err(_)) => {}
                            (e, g) => panic!("sign: expected {:?} got ok={:?}", e.is_some(), g.is_ok()),
                        }
                    }
                }
            }
        }
    }
}

// ---------------------------------------------------------------------------------------------
// E12: unlocking scripts of the inputs, locking scripts and satoshis recorded on the inputs never enter the preimage
// ---------------------------------------------------------------------------------------------
#[test]
fn e12_extended_fields_do_not_enter() {
    let mut r = Rng(12);
    let t = gen_tx(&mut r, 3, 3);
    let mut tx = Transaction::new(t.version, t.locktime);
    for (n, i) in t.ins.iter().enumerate() {
        let mut display = i.txid_wire.to_vec();
        display.reverse();
        let mut txin = TxIn::new(&display, i.vout, &Script::from_bytes(&i.script).unwrap(), Some(i.sequence));
        txin.set_satoshis(1000 + n as u64);
        txin.set_locking_script(&Script::from_bytes(&[0x76, 0xa9, 0x01, 0x07, 0x88, 0xac]).unwrap());
        tx.add_input(&txin);
    }
    for o in &t.outs {
        tx.add_output(&TxOut::new(o.value, &Script::from_bytes(&o.script).unwrap()));
    }
    check_all("extended", &mut tx, &t, &[vec![0xac], vec![]], &[3, 1001], 12);
    // through the extended encodings
    let mut j = Transaction::from_json_string(&tx.to_json_string().unwrap()).unwrap();
    assert_eq!(j.get_input(1).unwrap().get_satoshis(), Some(1001));
    check_all("extended json", &mut j, &t, &[vec![0xac], vec![]], &[3, 1001], 13);
    let mut c = Transaction::from_compact_hex(&tx.to_compact_hex().unwrap()).unwrap();
    check_all("extended cbor", &mut c, &t, &[vec![0xac], vec![]], &[3, 1001], 14);
}

// ---------------------------------------------------------------------------------------------
// E13: subscripts and output scripts assembled from elements, from ASM, with conditionals held flat or nested
// ---------------------------------------------------------------------------------------------
#[test]
fn e13_scripts_from_other_routes() {
    let mut r = Rng(13);
    let mut t = gen_tx(&mut r, 2, 2);
    let data80 = r.bytes(80);
    let data300 = r.bytes(300);
    // (script, bytes it stands for)
    let mut cases: Vec<(Script, Vec<u8>)> = vec![];
    // flat conditional opcodes
    cases.push((
        Script::from_script_bits(vec![
            ScriptBit::OpCode(OpCodes::OP_IF),
            ScriptBit::OpCode(OpCodes::OP_1),
            ScriptBit::OpCode(OpCodes::OP_ELSE),
            ScriptBit::OpCode(OpCodes::OP_CODESEPARATOR),
            ScriptBit::OpCode(OpCodes::OP_ENDIF),
            ScriptBit::OpCode(OpCodes::OP_CHECKSIG),
        ]),
        vec![0x63, 0x51, 0x67, 0xab, 0x68, 0xac],
    ));
    // nested block
    cases.push((
        Script::from_script_bits(vec![
            ScriptBit::If {
                code: OpCodes::OP_NOTIF,
                pass: vec![ScriptBit::Push(vec![1, 2, 3])],
                fail: Some(vec![]),
            },
            ScriptBit::PushData(OpCodes::OP_PUSHDATA1, data80.clone()),
        ]),
        {
            let mut v = vec![0x64, 0x03, 1, 2, 3, 0x67, 0x68, 0x4c, 80];
            v.extend_from_slice(&data80);
            v
        },
    ));
    // unbalanced element list (an ENDIF alone, an IF left open)
    cases.push((Script::from_script_bits(vec![ScriptBit::OpCode(OpCodes::OP_ENDIF), ScriptBit::OpCode(OpCodes::OP_IF)]), vec![0x68, 0x63]));
    // empty push element, non-minimal PUSHDATA2
    cases.push((
        Script::from_script_bits(vec![ScriptBit::Push(vec![]), ScriptBit::PushData(OpCodes::OP_PUSHDATA2, vec![9]), ScriptBit::PushData(OpCodes::OP_PUSHDATA4, vec![])]),
        vec![0x00, 0x4d, 1, 0, 9, 0x4e, 0, 0, 0, 0],
    ));
    // ASM
    cases.push((Script::from_asm_string(&format!("OP_DUP OP_HASH160 {} OP_EQUALVERIFY OP_CODESEPARATOR OP_CHECKSIG", hex::encode(&data300))).unwrap(), {
        let mut v = vec![0x76, 0xa9, 0x4d, 0x2c, 0x01];
        v.extend_from_slice(&data300);
        v.extend_from_slice(&[0x88, 0xab, 0xac]);
        v
    }));
    // push / push_array
    {
        let mut s = Script::default();
        s.push(ScriptBit::OpCode(OpCodes::OP_RETURN));
        s.push_array(&[ScriptBit::Push(vec![0xaa; 75]), ScriptBit::OpCode(OpCodes::OP_0)]);
        let mut v = vec![0x6a, 75];
        v.extend_from_slice(&[0xaa; 75]);
        v.push(0);
        cases.push((s, v));
    }
    // P2PKH helper
    {
        let key = PrivateKey::from_hex("0000000000000000000000000000000000000000000000000000000000000001").unwrap();
        let addr = PublicKey::from_private_key(&key).to_p2pkh_address().unwrap();
        let s = addr.get_locking_script().unwrap();
        let v = hex::decode("76a914751e76e8199196d454941c45d1b3a323f1433bd688ac").unwrap();
        cases.push((s, v));
    }

    let base = t.clone();
    for (n, (script, bytes)) in cases.iter().enumerate() {
        // as output script 1 as well
        // (the element-built script is put in place with set_output: Transaction::from_bytes refuses the bytes of the
        // unbalanced case, see the observations)
        let mut tx = Transaction::from_bytes(&base.raw()).unwrap();
        t.outs[1].script = bytes.clone();
        tx.set_output(1, &TxOut::new(t.outs[1].value, script));
        assert_eq!(tx.to_bytes().unwrap(), t.raw());
        for idx in 0..2 {
            for (b, f) in FLAGS {
                let e = t.preimage(idx, b, bytes, 1 << 40).unwrap();
                let g = tx.sighash_preimage(f, idx, script, 1 << 40).unwrap();
                assert_eq!(hex::encode(g), hex::encode(e), "case {} idx {} flag {:#x}", n, idx, b);
            }
        }
    }
}

// ---------------------------------------------------------------------------------------------
// E14: coinbase-shaped input among the inputs (its script is kept as opaque bytes)
// ---------------------------------------------------------------------------------------------
#[test]
fn e14_coinbase_shaped_input() {
    let mut r = Rng(14);
    for raw_script in [vec![], vec![0x03, 0x01], vec![0x4c], vec![0x63, 0x63], vec![0xff; 100], vec![0x4e, 0xff, 0xff, 0xff, 0xff]] {
        let mut t = gen_tx(&mut r, 2, 2);
        t.ins[0].txid_wire = [0u8; 32];
        t.ins[0].vout = 0xffffffff;
        t.ins[0].script = raw_script.clone();
        let raw = t.raw();
        let mut tx = Transaction::from_bytes(&raw).unwrap();
        assert_eq!(tx.to_bytes().unwrap(), raw);
        check_all("coinbase-shaped", &mut tx, &t, &[vec![0xac]], &[50_0000_0000], 14);
        let mut j = Transaction::from_json_string(&tx.to_json_string().unwrap()).unwrap();
        assert_eq!(j.to_bytes().unwrap(), raw);
        check_all("coinbase-shaped json", &mut j, &t, &[vec![0xac]], &[50_0000_0000], 15);
        // alone
        t.ins.truncate(1);
        let mut tx = Transaction::from_bytes(&t.raw()).unwrap();
        assert!(tx.is_coinbase());
        check_all("coinbase alone", &mut tx, &t, &[vec![0xac]], &[0], 16);
    }
}

// ---------------------------------------------------------------------------------------------
// E15: inputs made by TxIn::from_outpoint_bytes / default; txid orientation
// ---------------------------------------------------------------------------------------------
#[test]
fn e15_outpoint_constructors() {
    let mut r = Rng(15);
    let mut t = gen_tx(&mut r, 2, 1);
    t.ins[0].script = vec![];
    t.ins[1].script = vec![];
    t.ins[0].sequence = 0xffffffff;
    t.ins[1].sequence = 0xffffffff;
    let mut tx = Transaction::new(t.version, t.locktime);
    for i in &t.ins {
        let mut outpoint = i.txid_wire.to_vec();
        outpoint.extend_from_slice(&i.vout.to_le_bytes());
        let txin = TxIn::from_outpoint_bytes(&outpoint).unwrap();
        assert_eq!(txin.get_outpoint_bytes(Some(true)), outpoint);
        tx.add_input(&txin);
    }
    tx.add_output(&TxOut::new(t.outs[0].value, &Script::from_bytes(&t.outs[0].script).unwrap()));
    assert_eq!(tx.to_bytes().unwrap(), t.raw());
    check_all("outpoint constructors", &mut tx, &t, &[vec![0xac]], &[1], 15);
    assert_eq!(tx.get_outpoints().concat(), t.ins.iter().flat_map(|i| [i.txid_wire.to_vec(), i.vout.to_le_bytes().to_vec()].concat()).collect::<Vec<u8>>());
}

// ---------------------------------------------------------------------------------------------
// E16: the flag given as a byte: TryFrom<u8>, the | operator, FromStr; and the flag byte read back from a signature
// ---------------------------------------------------------------------------------------------
#[test]
fn e16_flag_conversions() {
    use std::convert::TryFrom;
    use std::str::FromStr;
    let mut r = Rng(16);
    let t = gen_tx(&mut r, 2, 2);
    let mut tx = Transaction::from_bytes(&t.raw()).unwrap();
    let script = Script::from_bytes(&[0xac]).unwrap();
    for (b, f) in FLAGS {
        assert_eq!(SigHash::try_from(b).unwrap(), f);
        let e = t.preimage(1, b, &[0xac], 2).unwrap();
        assert_eq!(tx.sighash_preimage(SigHash::try_from(b).unwrap(), 1, &script, 2).unwrap(), e);
    }
    assert_eq!(SigHash::try_from(SigHash::ALL | SigHash::FORKID).unwrap(), SigHash::InputsOutputs);
    assert_eq!(SigHash::try_from(SigHash::SINGLE | SigHash::FORKID).unwrap(), SigHash::InputsOutput);
    assert_eq!(SigHash::try_from((SigHash::NONE | SigHash::FORKID) | 0x80).unwrap(), SigHash::Input);
    assert_eq!(SigHash::from_str("InputOutputs").unwrap(), SigHash::InputOutputs);
}

// ---------------------------------------------------------------------------------------------
// E17: the interpreter's OP_CHECKSIG accepts exactly a signature over the specified digest (made outside the library)
// ---------------------------------------------------------------------------------------------
#[test]
fn e17_interpreter_checksig_uses_the_specified_preimage() {
    use k256::ecdsa::signature::Signer;
    let mut r = Rng(17);
    let secret = [7u8; 32];
    let sk = k256::ecdsa::SigningKey::from_bytes(&secret).unwrap();
    let pubkey = PublicKey::from_private_key(&PrivateKey::from_bytes(&secret).unwrap()).to_bytes().unwrap();
    let mut locking = vec![pubkey.len() as u8];
    locking.extend_from_slice(&pubkey);
    locking.push(0xac);

    for round in 0..12 {
        let mut t = gen_tx(&mut r, 3, 3);
        let idx = (round % 3) as usize;
        let value = r.next();
        for (b, _) in FLAGS {
            for wrong in [false, true] {
                let signed_value = if wrong { value ^ 1 } else { value };
                let preimage = t.preimage(idx, b, &locking, signed_value).unwrap();
                // Signer hashes once with SHA-256
                let sig: k256::ecdsa::Signature = sk.sign(&Sha256::digest(&preimage));
                let mut sig_bytes = sig.to_der().as_bytes().to_vec();
                sig_bytes.push(b);
                let mut unlocking = vec![sig_bytes.len() as u8];
                unlocking.extend_from_slice(&sig_bytes);
                t.ins[idx].script = unlocking;

                let mut tx = Transaction::from_bytes(&t.raw()).unwrap();
                let mut txin = tx.get_input(idx).unwrap();
                txin.set_locking_script(&Script::from_bytes(&locking).unwrap());
                txin.set_satoshis(value);
                tx.set_input(idx, &txin);
                let mut interp = Interpreter::from_transaction(&tx, idx).unwrap();
                let outcome = interp.run();
                let top_true = outcome.is_ok() && interp.state().stack().last().map(|x| !x.is_empty() && x.iter().any(|b| *b != 0)).unwrap_or(false);
                assert_eq!(top_true, !wrong, "round {} flag {:#x} wrong {}: {:?}", round, b, wrong, outcome);
            }
        }
    }
}

// ---------------------------------------------------------------------------------------------
// E18: output scripts / subscripts made of arbitrary bytes: whenever the library reads the transaction, hashOutputs is the
// hash of the outputs as they stand in the transaction's bytes
// ---------------------------------------------------------------------------------------------
#[test]
fn e18_arbitrary_script_bytes() {
    let mut r = Rng(18);
    let mut read = 0;
    let mut lenient = 0;
    for round in 0..40000u64 {
        let len = r.below(12) as usize;
        let mut bytes = r.bytes(len);
        // bias towards small pushes, conditionals, OP_RETURN, pushdata forms
        for b in bytes.iter_mut() {
            if r.below(3) == 0 {
                *b = r.pick(&[0x00u8, 0x01, 0x02, 0x4c, 0x4d, 0x4e, 0x63, 0x64, 0x65, 0x66, 0x67, 0x68, 0x6a, 0xab, 0xac, 0x00, 0x01]);
            }
        }
        let script = match Script::from_bytes(&bytes) {
            Ok(s) => s,
            Err(_) => continue,
        };
        if script.to_bytes() != bytes {
            // only the accepted lenient reading after an OP_RETURN may change bytes
            assert!(bytes.contains(&0x6a), "script {} changes to {} without an OP_RETURN", hex::encode(&bytes), script.to_hex());
            lenient += 1;
            continue;
        }
        read += 1;
        if round % 8 != 0 {
            continue;
        }
        let mut t = gen_tx(&mut r, 2, 2);
        t.outs[0].script = bytes.clone();
        t.ins[1].script = bytes.clone();
        let raw = t.raw();
        let mut tx = Transaction::from_bytes(&raw).unwrap();
        assert_eq!(tx.to_bytes().unwrap(), raw);
        check_all("arbitrary bytes", &mut tx, &t, &[bytes.clone()], &[1], round);
        let mut j = Transaction::from_json_string(&tx.to_json_string().unwrap()).unwrap();
        assert_eq!(j.to_bytes().unwrap(), raw, "JSON changes {}", hex::encode(&bytes));
        check_all("arbitrary bytes json", &mut j, &t, &[bytes.clone()], &[1], round);
        let mut c = Transaction::from_compact_bytes(&tx.to_compact_bytes().unwrap()).unwrap();
        assert_eq!(c.to_bytes().unwrap(), raw, "CBOR changes {}", hex::encode(&bytes));
        check_all("arbitrary bytes cbor", &mut c, &t, &[bytes], &[1], round);
    }
    println!("e18: {} scripts read unchanged, {} lenient after OP_RETURN", read, lenient);
    assert!(read > 1000);
}

// ---------------------------------------------------------------------------------------------
// E19: duplicate outpoints, identical inputs, identical outputs
// ---------------------------------------------------------------------------------------------
#[test]
fn e19_duplicates() {
    let mut r = Rng(19);
    let mut t = gen_tx(&mut r, 1, 1);
    t.ins.push(t.ins[0].clone());
    t.ins.push(t.ins[0].clone());
    t.ins[2].sequence ^= 1;
    t.outs.push(t.outs[0].clone());
    let mut tx = Transaction::from_bytes(&t.raw()).unwrap();
    check_all("duplicates", &mut tx, &t, &[vec![0xac]], &[1], 19);
}

// ---------------------------------------------------------------------------------------------
// E20: counts and script lengths written non-canonically in the transaction's bytes: the digest is defined over the
// transaction's fields (a node hashes its own re-serialisation), so the canonical reference applies
// ---------------------------------------------------------------------------------------------
#[test]
fn e20_non_canonical_compact_sizes() {
    let mut r = Rng(20);
    let t = gen_tx(&mut r, 2, 2);
    let wide = |n: usize, w: u8| -> Vec<u8> {
        match w {
            0 => vec![0xfd, n as u8, (n >> 8) as u8],
            1 => {
                let mut v = vec![0xfe];
                v.extend_from_slice(&(n as u32).to_le_bytes());
                v
            }
            _ => {
                let mut v = vec![0xff];
                v.extend_from_slice(&(n as u64).to_le_bytes());
                v
            }
        }
    };
    for w in 0..3u8 {
        let mut v = t.version.to_le_bytes().to_vec();
        v.extend(wide(t.ins.len(), w));
        for i in &t.ins {
            v.extend_from_slice(&i.txid_wire);
            v.extend_from_slice(&i.vout.to_le_bytes());
            v.extend(wide(i.script.len(), w));
            v.extend_from_slice(&i.script);
            v.extend_from_slice(&i.sequence.to_le_bytes());
        }
        v.extend(wide(t.outs.len(), (w + 1) % 3));
        for o in &t.outs {
            v.extend_from_slice(&o.value.to_le_bytes());
            v.extend(wide(o.script.len(), (w + 2) % 3));
            v.extend_from_slice(&o.script);
        }
        v.extend_from_slice(&t.locktime.to_le_bytes());
        let mut tx = Transaction::from_bytes(&v).unwrap();
        assert_eq!(tx.to_bytes().unwrap(), t.raw());
        check_all("non canonical", &mut tx, &t, &[vec![0xac]], &[1], 20);
    }
}

// ---------------------------------------------------------------------------------------------
// E21: the public hash_inputs helper for the six flags
// ---------------------------------------------------------------------------------------------
#[test]
fn e21_hash_inputs_helper() {
    let mut r = Rng(21);
    let t = gen_tx(&mut r, 4, 1);
    let mut tx = Transaction::from_bytes(&t.raw()).unwrap();
    for _ in 0..3 {
        for (b, f) in FLAGS {
            let e = t.preimage(0, b, &[], 0).unwrap()[4..36].to_vec();
            assert_eq!(tx.hash_inputs(f), e, "flag {:#x}", b);
        }
    }
}

// ---------------------------------------------------------------------------------------------
// E22: a transaction handed to several threads as clones, each filling its own cache in another order
// ---------------------------------------------------------------------------------------------
#[test]
fn e22_clones_in_threads() {
    let mut r = Rng(22);
    let t = gen_tx(&mut r, 4, 4);
    let mut tx = Transaction::from_bytes(&t.raw()).unwrap();
    let _ = tx.sighash_preimage(SigHash::InputsOutputs, 0, &Script::default(), 0).unwrap();
    let handles: Vec<_> = (0..8u64)
        .map(|n| {
            let mut tx = tx.clone();
            let t = t.clone();
            std::thread::spawn(move || check_all("thread", &mut tx, &t, &[vec![0xac], vec![]], &[n], n))
        })
        .collect();
    for h in handles {
        h.join().unwrap();
    }
}

// ---------------------------------------------------------------------------------------------
// E23: interpreter, OP_CODESEPARATOR / P2PKH / conditionals in the locking script: the signature that is accepted is the
// one over the specified preimage whose subscript is the locking script from the last executed OP_CODESEPARATOR on
// ---------------------------------------------------------------------------------------------
#[test]
fn e23_interpreter_subscripts() {
    use k256::ecdsa::signature::Signer;
    let mut r = Rng(23);
    let secret = [9u8; 32];
    let sk = k256::ecdsa::SigningKey::from_bytes(&secret).unwrap();
    let pubkey = PublicKey::from_private_key(&PrivateKey::from_bytes(&secret).unwrap()).to_bytes().unwrap();
    let pkh = {
        use ripemd160::Ripemd160;
        Ripemd160::digest(&Sha256::digest(&pubkey)).to_vec()
    };
    let mut push_pk = vec![33u8];
    push_pk.extend_from_slice(&pubkey);

    // (locking script, offset of the subscript in it, bytes pushed after the signature in the unlocking script)
    let mut cases: Vec<(Vec<u8>, usize, Vec<u8>)> = vec![];
    // P2PKH
    {
        let mut l = vec![0x76, 0xa9, 0x14];
        l.extend_from_slice(&pkh);
        l.extend_from_slice(&[0x88, 0xac]);
        cases.push((l, 0, push_pk.clone()));
    }
    // OP_1 OP_DROP OP_CODESEPARATOR <pk> OP_CHECKSIG
    {
        let mut l = vec![0x51, 0x75, 0xab];
        l.extend_from_slice(&push_pk);
        l.push(0xac);
        cases.push((l, 3, vec![]));
    }
    // two separators, one before a data push of 80 bytes (PUSHDATA1)
    {
        let mut l = vec![0xab, 0x4c, 80];
        l.extend_from_slice(&[0x11; 80]);
        l.extend_from_slice(&[0x75, 0xab]);
        let off = l.len();
        l.extend_from_slice(&push_pk);
        l.push(0xac);
        cases.push((l, off, vec![]));
    }
    // separator inside the executed branch of a conditional: the subscript begins inside the conditional
    {
        let mut l = vec![0x51, 0x63, 0xab];
        let off = l.len();
        l.extend_from_slice(&push_pk);
        l.extend_from_slice(&[0xac, 0x67, 0x00, 0x68]);
        cases.push((l, off, vec![]));
    }
    // separator in the branch that is not executed does not count
    {
        let mut l = vec![0x00, 0x63, 0xab, 0x67];
        l.extend_from_slice(&push_pk);
        l.extend_from_slice(&[0xac, 0x68]);
        cases.push((l, 0, vec![]));
    }

    for (n, (locking, off, after_sig)) in cases.iter().enumerate() {
        for (b, _) in FLAGS {
            for wrong in [false, true] {
                let mut t = gen_tx(&mut r, 2, 2);
                let idx = r.below(2) as usize;
                let value = r.next();
                let sub = if wrong && *off > 0 { &locking[..] } else { &locking[*off..] };
                let signed_value = if wrong && *off == 0 { value ^ 1 } else { value };
                let preimage = t.preimage(idx, b, sub, signed_value).unwrap();
                let sig: k256::ecdsa::Signature = sk.sign(&Sha256::digest(&preimage));
                let mut sig_bytes = sig.to_der().as_bytes().to_vec();
                sig_bytes.push(b);
                let mut unlocking = vec![sig_bytes.len() as u8];
                unlocking.extend_from_slice(&sig_bytes);
                unlocking.extend_from_slice(after_sig);
                t.ins[idx].script = unlocking;

                let mut tx = Transaction::from_bytes(&t.raw()).unwrap();
                let mut txin = tx.get_input(idx).unwrap();
                txin.set_locking_script(&Script::from_bytes(locking).unwrap());
                txin.set_satoshis(value);
                tx.set_input(idx, &txin);
                let mut interp = Interpreter::from_transaction(&tx, idx).unwrap();
                let outcome = interp.run();
                let top_true = outcome.is_ok() && interp.state().stack().last().map(|x| x.iter().any(|b| *b != 0)).unwrap_or(false);
                assert_eq!(top_true, !wrong, "case {} flag {:#x} wrong {}: {:?}", n, b, wrong, outcome);
            }
        }
    }
}

// ---------------------------------------------------------------------------------------------
// E24: degenerate objects: no inputs at all, default transaction: an error, never a panic
// ---------------------------------------------------------------------------------------------
#[test]
fn e24_no_inputs() {
    let key = PrivateKey::from_hex("0000000000000000000000000000000000000000000000000000000000000001").unwrap();
    for mut tx in [Transaction::default(), Transaction::new(1, 0), Transaction::from_hex("01000000000000000000").unwrap()] {
        tx.add_output(&TxOut::new(1, &Script::default()));
        for (_, f) in FLAGS {
            assert!(tx.sighash_preimage(f, 0, &Script::default(), 0).is_err());
            assert!(tx.sign(&key, f, 0, &Script::default(), 0).is_err());
            assert!(tx.sign_with_k(&key, &key, f, 0, &Script::default(), 0).is_err());
        }
    }
}

// ---------------------------------------------------------------------------------------------
// E25: every way of obtaining the signer's public key object verifies the signature
// ---------------------------------------------------------------------------------------------
#[test]
fn e25_public_key_forms() {
    let mut r = Rng(25);
    let t = gen_tx(&mut r, 2, 2);
    let mut tx = Transaction::from_bytes(&t.raw()).unwrap();
    let script = Script::from_bytes(&[0x76, 0xac]).unwrap();
    for compressed in [true, false] {
        let key = PrivateKey::from_bytes(&r.bytes(32)).unwrap().compress_public_key(compressed);
        let wif_key = PrivateKey::from_wif(&key.to_wif().unwrap()).unwrap();
        for (b, f) in FLAGS {
            let e = t.preimage(1, b, &[0x76, 0xac], 12345).unwrap();
            for signer in [&key, &wif_key] {
                let sig = signer.clone();
                let sig = tx.sign(&sig, f, 1, &script, 12345).unwrap();
                let der = sig.to_bytes().unwrap();
                let der = &der[..der.len() - 1];
                let p0 = PublicKey::from_private_key(&key);
                assert_eq!(p0.is_compressed(), compressed);
                let forms = [
                    p0.clone(),
                    key.to_public_key().unwrap(),
                    p0.to_compressed().unwrap(),
                    p0.to_decompressed().unwrap(),
                    PublicKey::from_hex(&p0.to_hex().unwrap()).unwrap(),
                    PublicKey::from_bytes(&p0.to_decompressed().unwrap().to_bytes().unwrap()).unwrap(),
                ];
                for p in forms {
                    assert!(tx.verify(&p, &sig));
                    assert!(tx._verify(&p, &sig, false));
                    assert!(independent_verify(&p.to_bytes().unwrap(), &e, der));
                    assert!(ECDSA::verify_digest(&e, &p, &Signature::from_der(der).unwrap(), SigningHash::Sha256d).unwrap());
                    assert!(ECDSA::verify_hashbuf(&sha256d(&e), &p, &Signature::from_der(der).unwrap()).unwrap());
                }
                let other = PublicKey::from_private_key(&PrivateKey::from_bytes(&[3u8; 32]).unwrap());
                assert!(!tx.verify(&other, &sig));
            }
        }
    }
}

// ---------------------------------------------------------------------------------------------
// E26: interpreter, 2-of-3 OP_CHECKMULTISIG whose two signatures carry different FORKID flags (the cache is shared between them)
// ---------------------------------------------------------------------------------------------
#[test]
fn e26_interpreter_multisig_mixed_flags() {
    use k256::ecdsa::signature::Signer;
    let mut r = Rng(26);
    let secrets = [[1u8; 32], [2u8; 32], [3u8; 32]];
    let sks: Vec<_> = secrets.iter().map(|s| k256::ecdsa::SigningKey::from_bytes(s).unwrap()).collect();
    let pks: Vec<Vec<u8>> = secrets.iter().map(|s| PublicKey::from_private_key(&PrivateKey::from_bytes(s).unwrap()).to_bytes().unwrap()).collect();
    let mut locking = vec![0x52];
    for pk in &pks {
        locking.push(33);
        locking.extend_from_slice(pk);
    }
    locking.extend_from_slice(&[0x53, 0xae]);

    for (b1, _) in FLAGS {
        for (b2, _) in FLAGS {
            for wrong in [false, true] {
                let mut t = gen_tx(&mut r, 3, 3);
                let idx = r.below(3) as usize;
                let value = r.next();
                let mut unlocking = vec![0x00];
                for (signer, b) in [(0usize, b1), (2usize, b2)] {
                    let v = if wrong && signer == 2 { value.wrapping_add(1) } else { value };
                    let preimage = t.preimage(idx, b, &locking, v).unwrap();
                    let sig: k256::ecdsa::Signature = sks[signer].sign(&Sha256::digest(&preimage));
                    let mut sig_bytes = sig.to_der().as_bytes().to_vec();
                    sig_bytes.push(b);
                    unlocking.push(sig_bytes.len() as u8);
                    unlocking.extend_from_slice(&sig_bytes);
                }
                t.ins[idx].script = unlocking;
                let mut tx = Transaction::from_bytes(&t.raw()).unwrap();
                let mut txin = tx.get_input(idx).unwrap();
                txin.set_locking_script(&Script::from_bytes(&locking).unwrap());
                txin.set_satoshis(value);
                tx.set_input(idx, &txin);
                let mut interp = Interpreter::from_transaction(&tx, idx).unwrap();
                let outcome = interp.run();
                let top_true = outcome.is_ok() && interp.state().stack().last().map(|x| x.iter().any(|b| *b != 0)).unwrap_or(false);
                assert_eq!(top_true, !wrong, "flags {:#x} {:#x} wrong {}: {:?}", b1, b2, wrong, outcome);
            }
        }
    }
}

// ---------------------------------------------------------------------------------------------
// E27: the serde_json::Value route
// ---------------------------------------------------------------------------------------------
#[test]
fn e27_json_value_route() {
    let mut r = Rng(27);
    for round in 0..20 {
        let mut t = gen_tx(&mut r, 2, 3);
        t.outs[0].value = u64::MAX;
        t.outs[1].value = (1 << 53) + 1;
        let mut tx = Transaction::from_bytes(&t.raw()).unwrap();
        let _ = tx.sighash_preimage(SigHash::InputsOutputs, 0, &Script::default(), 0);
        let value = tx.to_json().unwrap();
        let mut back = Transaction::from_json_string(&value.to_string()).unwrap();
        assert_eq!(back.to_bytes().unwrap(), t.raw());
        check_all("json value", &mut back, &t, &[vec![0xac]], &[u64::MAX], round);
    }
}

// ---------------------------------------------------------------------------------------------
// Observations (outside the property's wording; these tests pin the behaviour seen, they are not violations)
// ---------------------------------------------------------------------------------------------
#[test]
fn obs_behaviour_outside_the_property() {
    let mut r = Rng(99);
    // O1: an input whose previous transaction id is not 32 bytes long (TxIn::default(), TxIn::new with a short id) is not
    // refused: the "outpoint" in the preimage is then shorter than 36 bytes
    let mut tx = Transaction::new(1, 0);
    tx.add_input(&TxIn::default());
    let p = tx.sighash_preimage(SigHash::InputsOutputs, 0, &Script::default(), 0).unwrap();
    assert_eq!(p.len(), 157 - 32);

    // O2: a transaction with an output script holding an unbalanced OP_IF cannot be read at all (so no preimage exists)
    let mut t = gen_tx(&mut r, 1, 1);
    t.outs[0].script = vec![0x63];
    assert!(Transaction::from_bytes(&t.raw()).is_err());

    // O3: equality of transactions takes the memoised hashes into account
    let t = gen_tx(&mut r, 1, 1);
    let a = Transaction::from_bytes(&t.raw()).unwrap();
    let mut b = a.clone();
    let _ = b.sighash_preimage(SigHash::InputsOutputs, 0, &Script::default(), 0).unwrap();
    assert!(a != b);
    assert_eq!(a.to_bytes().unwrap(), b.to_bytes().unwrap());

    // O4: a hand-built Push element of more than 75 bytes serialises with a truncated length byte; the preimage carries
    // those bytes with their true length prefix (consistent with Script::to_bytes, which is what the property hands in)
    let odd = Script::from_script_bits(vec![ScriptBit::Push(vec![7u8; 300])]);
    let mut tx = Transaction::from_bytes(&t.raw()).unwrap();
    let p = tx.sighash_preimage(SigHash::InputsOutputs, 0, &odd, 0).unwrap();
    assert_eq!(p, t.preimage(0, 0x41, &odd.to_bytes(), 0).unwrap());
}
