// Hunt for violations of C03: FORKID signature-hash preimage == replay-protected sighash specification.
//
// Oracle: a tiny reference implementation of the specification that works on raw byte fields only
// (module `reference` below) plus an ECDSA verifier written directly on secp256k1 group arithmetic.
// No value produced by the library is used as its own expectation.
#![allow(clippy::needless_range_loop)]
#![allow(deprecated)]

use bsv::*;
use std::convert::TryFrom;

mod reference {
    use sha2::{Digest, Sha256};

    pub fn sha256d(b: &[u8]) -> [u8; 32] {
        let a = Sha256::digest(b);
        let b = Sha256::digest(&a);
        let mut out = [0u8; 32];
        out.copy_from_slice(&b);
        out
    }

    pub fn compact_size(n: u64) -> Vec<u8> {
        let mut v = vec![];
        if n < 0xfd {
            v.push(n as u8);
        } else if n <= 0xffff {
            v.push(0xfd);
            v.extend_from_slice(&(n as u16).to_le_bytes());
        } else if n <= 0xffff_ffff {
            v.push(0xfe);
            v.extend_from_slice(&(n as u32).to_le_bytes());
        } else {
            v.push(0xff);
            v.extend_from_slice(&n.to_le_bytes());
        }
        v
    }

    #[derive(Clone, Debug)]
    pub struct RIn {
        /// txid in wire order (as it appears inside a serialised transaction)
        pub txid_wire: [u8; 32],
        pub vout: u32,
        pub script: Vec<u8>,
        pub seq: u32,
    }

    #[derive(Clone, Debug)]
    pub struct ROut {
        pub value: u64,
        pub script: Vec<u8>,
    }

    #[derive(Clone, Debug)]
    pub struct RTx {
        pub version: u32,
        pub ins: Vec<RIn>,
        pub outs: Vec<ROut>,
        pub lock: u32,
    }

    impl ROut {
        pub fn ser(&self) -> Vec<u8> {
            let mut v = self.value.to_le_bytes().to_vec();
            v.extend(compact_size(self.script.len() as u64));
            v.extend_from_slice(&self.script);
            v
        }
    }

    impl RIn {
        pub fn outpoint(&self) -> Vec<u8> {
            let mut v = self.txid_wire.to_vec();
            v.extend_from_slice(&self.vout.to_le_bytes());
            v
        }
    }

    impl RTx {
        pub fn ser(&self) -> Vec<u8> {
            let mut v = self.version.to_le_bytes().to_vec();
            v.extend(compact_size(self.ins.len() as u64));
            for i in &self.ins {
                v.extend(i.outpoint());
                v.extend(compact_size(i.script.len() as u64));
                v.extend_from_slice(&i.script);
                v.extend_from_slice(&i.seq.to_le_bytes());
            }
            v.extend(compact_size(self.outs.len() as u64));
            for o in &self.outs {
                v.extend(o.ser());
            }
            v.extend_from_slice(&self.lock.to_le_bytes());
            v
        }

        /// The replay-protected digest algorithm, steps 1..10 of the specification.
        /// Returns None where SINGLE has no matching output (the library is allowed to refuse that).
        pub fn preimage(&self, idx: usize, subscript: &[u8], value: u64, flag: u8) -> Option<Vec<u8>> {
            assert!(flag & 0x40 != 0);
            let acp = flag & 0x80 != 0;
            let base = flag & 0x1f;
            let mut hash_prevouts = [0u8; 32];
            let mut hash_sequence = [0u8; 32];
            let mut hash_outputs = [0u8; 32];
            if !acp {
                let mut b = vec![];
                for i in &self.ins {
                    b.extend(i.outpoint());
                }
                hash_prevouts = sha256d(&b);
            }
            if !acp && base != 2 && base != 3 {
                let mut b = vec![];
                for i in &self.ins {
                    b.extend_from_slice(&i.seq.to_le_bytes());
                }
                hash_sequence = sha256d(&b);
            }
            if base != 2 && base != 3 {
                let mut b = vec![];
                for o in &self.outs {
                    b.extend(o.ser());
                }
                hash_outputs = sha256d(&b);
            } else if base == 3 {
                if idx < self.outs.len() {
                    hash_outputs = sha256d(&self.outs[idx].ser());
                } else {
                    return None;
                }
            }
            let inp = &self.ins[idx];
            let mut p = self.version.to_le_bytes().to_vec();
            p.extend_from_slice(&hash_prevouts);
            p.extend_from_slice(&hash_sequence);
            p.extend(inp.outpoint());
            p.extend(compact_size(subscript.len() as u64));
            p.extend_from_slice(subscript);
            p.extend_from_slice(&value.to_le_bytes());
            p.extend_from_slice(&inp.seq.to_le_bytes());
            p.extend_from_slice(&hash_outputs);
            p.extend_from_slice(&self.lock.to_le_bytes());
            p.extend_from_slice(&(flag as u32).to_le_bytes());
            Some(p)
        }
    }

    /// splitmix64
    pub struct Rng(pub u64);
    impl Rng {
        pub fn next(&mut self) -> u64 {
            self.0 = self.0.wrapping_add(0x9E3779B97F4A7C15);
            let mut z = self.0;
            z = (z ^ (z >> 30)).wrapping_mul(0xBF58476D1CE4E5B9);
            z = (z ^ (z >> 27)).wrapping_mul(0x94D049BB133111EB);
            z ^ (z >> 31)
        }
        pub fn below(&mut self, n: u64) -> u64 {
            self.next() % n
        }
        pub fn bytes(&mut self, n: usize) -> Vec<u8> {
            (0..n).map(|_| self.next() as u8).collect()
        }
        pub fn pick_u32(&mut self) -> u32 {
            match self.below(6) {
                0 => 0,
                1 => u32::MAX,
                2 => 0x8000_0000,
                3 => 0xffff_fffe,
                4 => 1,
                _ => self.next() as u32,
            }
        }
        pub fn pick_u64(&mut self) -> u64 {
            match self.below(8) {
                0 => 0,
                1 => u64::MAX,
                2 => 0x8000_0000_0000_0000,
                3 => 21_000_000 * 100_000_000,
                4 => 0xffff_ffff,
                5 => 0x1_0000_0000,
                _ => self.next(),
            }
        }
        /// A script made of elements that have exactly one byte reading: pushes in every encoding (also non-minimal),
        /// plain opcodes and balanced conditionals.
        pub fn script(&mut self, max_elems: u64) -> Vec<u8> {
            let n = self.below(max_elems + 1);
            let mut s = vec![];
            for _ in 0..n {
                self.elem(&mut s, 0);
            }
            s
        }
        fn elem(&mut self, s: &mut Vec<u8>, depth: u32) {
            // plain opcodes that are neither pushes nor conditionals nor OP_RETURN
            const OPS: &[u8] = &[0x00, 0x4f, 0x51, 0x52, 0x60, 0x61, 0x69, 0x6b, 0x6c, 0x75, 0x76, 0x7c, 0x87, 0x88, 0x93, 0xa9, 0xaa, 0xab, 0xac, 0xad, 0xae, 0xaf, 0xb0, 0xb9];
            match self.below(10) {
                0..=3 => s.push(OPS[self.below(OPS.len() as u64) as usize]),
                4 | 5 => {
                    let l = 1 + self.below(75) as usize;
                    s.push(l as u8);
                    s.extend(self.bytes(l));
                }
                6 => {
                    let l = self.below(256) as usize;
                    s.push(0x4c);
                    s.push(l as u8);
                    s.extend(self.bytes(l));
                }
                7 => {
                    let l = self.below(600) as usize;
                    s.push(0x4d);
                    s.extend_from_slice(&(l as u16).to_le_bytes());
                    s.extend(self.bytes(l));
                }
                8 => {
                    let l = self.below(80) as usize;
                    s.push(0x4e);
                    s.extend_from_slice(&(l as u32).to_le_bytes());
                    s.extend(self.bytes(l));
                }
                _ => {
                    if depth > 3 {
                        s.push(0x61);
                        return;
                    }
                    s.push(if self.below(2) == 0 { 0x63 } else { 0x64 });
                    for _ in 0..self.below(3) {
                        self.elem(s, depth + 1);
                    }
                    if self.below(2) == 0 {
                        s.push(0x67);
                        for _ in 0..self.below(3) {
                            self.elem(s, depth + 1);
                        }
                    }
                    s.push(0x68);
                }
            }
        }
        pub fn tx(&mut self, max_in: u64, max_out: u64) -> RTx {
            let n_in = 1 + self.below(max_in);
            let n_out = self.below(max_out + 1);
            let mut ins = vec![];
            for _ in 0..n_in {
                let mut txid = [0u8; 32];
                txid.copy_from_slice(&self.bytes(32));
                ins.push(RIn {
                    txid_wire: txid,
                    vout: self.pick_u32(),
                    script: self.script(4),
                    seq: self.pick_u32(),
                });
            }
            let mut outs = vec![];
            for _ in 0..n_out {
                outs.push(ROut {
                    value: self.pick_u64(),
                    script: self.script(6),
                });
            }
            RTx {
                version: self.pick_u32(),
                ins,
                outs,
                lock: self.pick_u32(),
            }
        }
    }
}

use reference::*;

const FLAGS: [u8; 6] = [0x41, 0x42, 0x43, 0xc1, 0xc2, 0xc3];

fn lib_flag(f: u8) -> SigHash {
    match f {
        0x41 => SigHash::InputsOutputs,
        0x42 => SigHash::Inputs,
        0x43 => SigHash::InputsOutput,
        0xc1 => SigHash::InputOutputs,
        0xc2 => SigHash::Input,
        0xc3 => SigHash::InputOutput,
        _ => unreachable!(),
    }
}

/// Library transaction assembled through the constructors and setters
fn build_lib_tx(r: &RTx) -> Transaction {
    let mut tx = Transaction::new(r.version, r.lock);
    for i in &r.ins {
        let mut display = i.txid_wire.to_vec();
        display.reverse();
        tx.add_input(&TxIn::new(&display, i.vout, &Script::from_bytes(&i.script).unwrap(), Some(i.seq)));
    }
    for o in &r.outs {
        tx.add_output(&TxOut::new(o.value, &Script::from_bytes(&o.script).unwrap()));
    }
    tx
}

/// Compares the library against the reference for every input and every FORKID flag.
fn check_all(tx: &mut Transaction, r: &RTx, rng: &mut Rng, ctx: &str) {
    for idx in 0..r.ins.len() {
        for &f in FLAGS.iter() {
            let sub = rng.script(5);
            let value = rng.pick_u64();
            let script = Script::from_bytes(&sub).unwrap();
            let got = tx.sighash_preimage(lib_flag(f), idx, &script, value);
            match r.preimage(idx, &sub, value, f) {
                Some(exp) => {
                    let got = got.unwrap_or_else(|e| panic!("{}: unexpected error idx {} flag {:#x}: {}", ctx, idx, f, e));
                    assert_eq!(hex::encode(&got), hex::encode(&exp), "{}: idx {} flag {:#x}", ctx, idx, f);
                }
                None => assert!(got.is_err(), "{}: SINGLE without output must be refused (idx {} flag {:#x})", ctx, idx, f),
            }
        }
    }
}

// ---------------------------------------------------------------------------------------------------------------
// E01: random transactions, parsed from wire bytes
#[test]
fn e01_random_parsed_transactions_match_reference() {
    let mut rng = Rng(1);
    for n in 0..300 {
        let r = rng.tx(5, 5);
        let mut tx = Transaction::from_bytes(&r.ser()).unwrap();
        check_all(&mut tx, &r, &mut rng, &format!("parsed #{}", n));
    }
}

// E02: random transactions, built through constructors/setters
#[test]
fn e02_random_built_transactions_match_reference() {
    let mut rng = Rng(2);
    for n in 0..300 {
        let r = rng.tx(5, 5);
        let mut tx = build_lib_tx(&r);
        assert_eq!(tx.to_bytes().unwrap(), r.ser());
        check_all(&mut tx, &r, &mut rng, &format!("built #{}", n));
    }
}

// E03: subscript lengths around the compact-size boundaries
#[test]
fn e03_subscript_length_boundaries() {
    let mut rng = Rng(3);
    let r = rng.tx(3, 3);
    let mut tx = Transaction::from_bytes(&r.ser()).unwrap();
    for &len in &[0usize, 1, 2, 75, 76, 77, 251, 252, 253, 254, 255, 256, 257, 0xfffe, 0xffff, 0x10000, 0x10001, 0x10003, 70_000, 200_000] {
        // a script of exactly `len` bytes: one OP_NOP pad then a push that fills the rest
        let sub: Vec<u8> = if len == 0 {
            vec![]
        } else if len <= 3 {
            vec![0x61; len]
        } else if len <= 76 {
            let mut s = vec![(len - 1) as u8];
            s.extend(rng.bytes(len - 1));
            s
        } else if len <= 0xff + 2 {
            let mut s = vec![0x4c, (len - 2) as u8];
            s.extend(rng.bytes(len - 2));
            s
        } else if len <= 0xffff + 3 {
            let mut s = vec![0x4d];
            s.extend_from_slice(&((len - 3) as u16).to_le_bytes());
            s.extend(rng.bytes(len - 3));
            s
        } else {
            let mut s = vec![0x4e];
            s.extend_from_slice(&((len - 5) as u32).to_le_bytes());
            s.extend(rng.bytes(len - 5));
            s
        };
        assert_eq!(sub.len(), len);
        let script = Script::from_bytes(&sub).unwrap();
        for &f in FLAGS.iter() {
            for idx in 0..r.ins.len() {
                if let Some(exp) = r.preimage(idx, &sub, 5, f) {
                    let got = tx.sighash_preimage(lib_flag(f), idx, &script, 5).unwrap();
                    assert!(got == exp, "len {} flag {:#x} idx {}", len, f, idx);
                }
            }
        }
    }
}

// E04: the same with opcode-only subscripts (each byte one element) so the length is not carried by one push
#[test]
fn e04_opcode_only_subscripts_at_boundaries() {
    let mut rng = Rng(4);
    let r = rng.tx(2, 2);
    let mut tx = build_lib_tx(&r);
    for &len in &[252usize, 253, 254, 0xffff, 0x10000] {
        let sub = vec![0x61u8; len];
        let script = Script::from_bytes(&sub).unwrap();
        for &f in FLAGS.iter() {
            if let Some(exp) = r.preimage(0, &sub, 0, f) {
                assert!(tx.sighash_preimage(lib_flag(f), 0, &script, 0).unwrap() == exp, "len {} flag {:#x}", len, f);
            }
        }
    }
}

// E05: all 64-bit values and extreme integers, checked field by field at fixed offsets (hand layout)
#[test]
fn e05_field_layout_by_hand() {
    let mut tx = Transaction::new(0xfffffffe, 0x01020304);
    let txid_display: Vec<u8> = (0u8..32).collect();
    tx.add_input(&TxIn::new(&txid_display, 0xa1b2c3d4, &Script::default(), Some(0x11223344)));
    tx.add_output(&TxOut::new(1, &Script::from_bytes(&[0x51]).unwrap()));
    let sub = Script::from_bytes(&[0xac]).unwrap();
    for &value in &[0u64, 1, 0x0102030405060708, u64::MAX, 1 << 63, (1 << 53) + 1] {
        let p = tx.sighash_preimage(SigHash::InputOutput, 0, &sub, value).unwrap();
        assert_eq!(p.len(), 4 + 32 + 32 + 36 + 1 + 1 + 8 + 4 + 32 + 4 + 4);
        assert_eq!(&p[0..4], &[0xfe, 0xff, 0xff, 0xff]);
        assert_eq!(&p[4..68], &[0u8; 64][..]);
        let wire: Vec<u8> = (0u8..32).rev().collect();
        assert_eq!(&p[68..100], &wire[..]);
        assert_eq!(&p[100..104], &[0xd4, 0xc3, 0xb2, 0xa1]);
        assert_eq!(&p[104..106], &[0x01, 0xac]);
        assert_eq!(&p[106..114], &value.to_le_bytes());
        assert_eq!(&p[114..118], &[0x44, 0x33, 0x22, 0x11]);
        // hashOutputs = sha256d(01 00.. 00 | 01 | 51)
        let out0 = [1u8, 0, 0, 0, 0, 0, 0, 0, 1, 0x51];
        assert_eq!(&p[118..150], &sha256d(&out0));
        assert_eq!(&p[150..154], &[0x04, 0x03, 0x02, 0x01]);
        assert_eq!(&p[154..158], &[0xc3, 0, 0, 0]);
    }
}

// E06: published test vector of the specification family (BIP143 native P2WPKH example; only the type differs: 0x41 instead of 0x01)
#[test]
fn e06_bip143_vector_with_forkid_type() {
    let raw = "0100000002fff7f7881a8099afa6940d42d1e7f6362bec38171ea3edf433541db4e4ad969f0000000000eeffffffef51e1b804cc89d182d279655c3aa89e815b1b309fe287d9b2b55d57b90ec68a0100000000ffffffff02202cb206000000001976a9148280b37df378db99f66f85c95a783a76ac7a6d5988ac9093510d000000001976a9143bde42dbee7e4dbe6a21b2d50ce2f0167faa815988ac11000000";
    let mut tx = Transaction::from_hex(raw).unwrap();
    let sub = Script::from_hex("76a9141d0f172a0ecb48aeb1b5a2b599b0b59e8e2f0e1e88ac").unwrap();
    // note: the BIP text gives scriptCode 1976a9141d0f172a0ecb48aee4ad...; here the structure matters, the reference computes the hashes
    let p = tx.sighash_preimage(SigHash::InputsOutputs, 1, &sub, 600_000_000).unwrap();
    // hashPrevouts / hashSequence / hashOutputs as printed in BIP143
    assert_eq!(hex::encode(&p[4..36]), "96b827c8483d4e9b96712b6713a7b68d6e8003a781feba36c31143470b4efd37");
    assert_eq!(hex::encode(&p[36..68]), "52b0a642eea2fb7ae638c36f6252b6750293dbe574a806984b8e4d8548339a3b");
    assert_eq!(&p[36..68], &sha256d(&[0xee, 0xff, 0xff, 0xff, 0xff, 0xff, 0xff, 0xff]));
    assert_eq!(hex::encode(&p[68..104]), "ef51e1b804cc89d182d279655c3aa89e815b1b309fe287d9b2b55d57b90ec68a01000000");
    assert_eq!(hex::encode(&p[130..138]), "0046c32300000000");
    assert_eq!(hex::encode(&p[138..142]), "ffffffff");
    assert_eq!(hex::encode(&p[142..174]), "863ef3e1a92afbfdb97f31ad0fc7683ee943e9abcf2501590ff8f6551f47e5e5");
    assert_eq!(hex::encode(&p[174..178]), "11000000");
    assert_eq!(hex::encode(&p[178..182]), "41000000");
}

// E07: every mutator invalidates what it must: a preimage taken after the change equals the reference of the changed transaction
#[test]
fn e07_cached_hashes_follow_every_mutator() {
    let mut rng = Rng(7);
    for round in 0..40 {
        let mut r = rng.tx(4, 4);
        if r.outs.is_empty() {
            r.outs.push(ROut { value: 9, script: vec![0x51] });
        }
        let mut tx = if round % 2 == 0 { build_lib_tx(&r) } else { Transaction::from_bytes(&r.ser()).unwrap() };
        // warm every cache
        check_all(&mut tx, &r, &mut rng, "warm");

        for step in 0..14 {
            let new_in = RIn {
                txid_wire: {
                    let mut t = [0u8; 32];
                    t.copy_from_slice(&rng.bytes(32));
                    t
                },
                vout: rng.pick_u32(),
                script: rng.script(2),
                seq: rng.pick_u32(),
            };
            let new_out = ROut {
                value: rng.pick_u64(),
                script: rng.script(3),
            };
            let mut display = new_in.txid_wire.to_vec();
            display.reverse();
            let lin = TxIn::new(&display, new_in.vout, &Script::from_bytes(&new_in.script).unwrap(), Some(new_in.seq));
            let lout = TxOut::new(new_out.value, &Script::from_bytes(&new_out.script).unwrap());
            match step {
                0 => {
                    tx.add_input(&lin);
                    r.ins.push(new_in);
                }
                1 => {
                    tx.prepend_input(&lin);
                    r.ins.insert(0, new_in);
                }
                2 => {
                    let at = rng.below(r.ins.len() as u64 + 1) as usize;
                    tx.insert_input(at, &lin);
                    r.ins.insert(at, new_in);
                }
                3 => {
                    let at = rng.below(r.ins.len() as u64) as usize;
                    tx.set_input(at, &lin);
                    r.ins[at] = new_in;
                }
                4 => {
                    tx.add_output(&lout);
                    r.outs.push(new_out);
                }
                5 => {
                    tx.prepend_output(&lout);
                    r.outs.insert(0, new_out);
                }
                6 => {
                    let at = rng.below(r.outs.len() as u64 + 1) as usize;
                    tx.insert_output(at, &lout);
                    r.outs.insert(at, new_out);
                }
                7 => {
                    let at = rng.below(r.outs.len() as u64) as usize;
                    tx.set_output(at, &lout);
                    r.outs[at] = new_out;
                }
                8 => {
                    tx.add_inputs(vec![lin.clone(), lin]);
                    r.ins.push(new_in.clone());
                    r.ins.push(new_in);
                }
                9 => {
                    tx.add_outputs(vec![lout.clone(), lout]);
                    r.outs.push(new_out.clone());
                    r.outs.push(new_out);
                }
                10 => {
                    r.version = rng.pick_u32();
                    let _copy = tx.set_version(r.version);
                }
                11 => {
                    r.lock = rng.pick_u32();
                    let _copy = tx.set_nlocktime(r.lock);
                }
                12 => {
                    // only the sequence of one input changes (get, modify, set)
                    let at = rng.below(r.ins.len() as u64) as usize;
                    let mut i = tx.get_input(at).unwrap();
                    r.ins[at].seq = r.ins[at].seq.wrapping_add(1);
                    i.set_sequence(r.ins[at].seq);
                    tx.set_input(at, &i);
                }
                _ => {
                    // only vout of one input changes
                    let at = rng.below(r.ins.len() as u64) as usize;
                    let mut i = tx.get_input(at).unwrap();
                    r.ins[at].vout ^= 1;
                    i.set_vout(r.ins[at].vout);
                    tx.set_input(at, &i);
                }
            }
            check_all(&mut tx, &r, &mut rng, &format!("round {} after step {}", round, step));
        }
    }
}

// E08: the copies handed out by set_version / set_nlocktime and clone() carry caches; they must stay right when they are changed independently
#[test]
fn e08_copies_with_warm_caches_diverge_correctly() {
    let mut rng = Rng(8);
    let mut r = rng.tx(3, 3);
    r.outs.push(ROut { value: 3, script: vec![0x52] });
    let mut tx = build_lib_tx(&r);
    check_all(&mut tx, &r, &mut rng, "warm");

    let mut copy = tx.set_version(77);
    r.version = 77;
    let mut r_copy = r.clone();
    // change the copy only
    let extra = ROut { value: u64::MAX, script: vec![0x6a] };
    copy.add_output(&TxOut::new(extra.value, &Script::from_bytes(&extra.script).unwrap()));
    r_copy.outs.push(extra);
    let mut i0 = copy.get_input(0).unwrap();
    i0.set_sequence(5);
    copy.set_input(0, &i0);
    r_copy.ins[0].seq = 5;

    check_all(&mut copy, &r_copy, &mut rng, "copy");
    check_all(&mut tx, &r, &mut rng, "original");

    let mut cl = tx.clone();
    cl.prepend_input(&tx.get_input(1).unwrap_or_else(|| tx.get_input(0).unwrap()));
    let mut r_cl = r.clone();
    r_cl.ins.insert(0, r.ins.get(1).cloned().unwrap_or_else(|| r.ins[0].clone()));
    check_all(&mut cl, &r_cl, &mut rng, "clone");
    check_all(&mut tx, &r, &mut rng, "original again");
}

// E09: JSON and CBOR copies (taken from a transaction with warm caches) give the reference bytes
#[test]
fn e09_serde_copies_match_reference() {
    let mut rng = Rng(9);
    for n in 0..60 {
        let r = rng.tx(4, 4);
        let mut tx = Transaction::from_bytes(&r.ser()).unwrap();
        check_all(&mut tx, &r, &mut rng, "warm");
        let mut j = Transaction::from_json_string(&tx.to_json_string().unwrap()).unwrap();
        check_all(&mut j, &r, &mut rng, &format!("json #{}", n));
        let mut c = Transaction::from_compact_bytes(&tx.to_compact_bytes().unwrap()).unwrap();
        check_all(&mut c, &r, &mut rng, &format!("cbor #{}", n));
        let mut h = Transaction::from_compact_hex(&tx.to_compact_hex().unwrap()).unwrap();
        check_all(&mut h, &r, &mut rng, &format!("cbor hex #{}", n));
    }
}

// E10: SINGLE: refused exactly when there is no output at the index (boundaries idx == n_out, idx == n_out - 1), never a panic
#[test]
fn e10_single_refusal_boundary() {
    let mut rng = Rng(10);
    for n_out in 0..4usize {
        let mut r = rng.tx(1, 0);
        r.ins = (0..5)
            .map(|k| RIn {
                txid_wire: [k as u8; 32],
                vout: k,
                script: vec![],
                seq: k,
            })
            .collect();
        r.outs = (0..n_out).map(|k| ROut { value: k as u64, script: vec![0x51 + k as u8] }).collect();
        let mut tx = Transaction::from_bytes(&r.ser()).unwrap();
        let sub = Script::from_bytes(&[0xac]).unwrap();
        for idx in 0..5 {
            for &f in &[0x43u8, 0xc3] {
                let got = tx.sighash_preimage(lib_flag(f), idx, &sub, 1);
                match r.preimage(idx, &[0xac], 1, f) {
                    Some(e) => assert_eq!(got.unwrap(), e),
                    None => assert!(got.is_err()),
                }
                // signing is refused too (no signature over a constant digest)
                let key = PrivateKey::from_hex("0000000000000000000000000000000000000000000000000000000000000001").unwrap();
                assert_eq!(tx.sign(&key, lib_flag(f), idx, &sub, 1).is_ok(), idx < n_out);
            }
            // the other four flags never refuse
            for &f in &[0x41u8, 0x42, 0xc1, 0xc2] {
                assert_eq!(tx.sighash_preimage(lib_flag(f), idx, &sub, 1).unwrap(), r.preimage(idx, &[0xac], 1, f).unwrap());
            }
        }
        // an input index past the end is an error for every flag, not a panic
        for &f in FLAGS.iter() {
            assert!(tx.sighash_preimage(lib_flag(f), 5, &sub, 1).is_err());
            assert!(tx.sighash_preimage(lib_flag(f), usize::MAX, &sub, 1).is_err());
        }
    }
}

// E11: the flag given as a byte and converted is the same as the named constant; last four bytes are the type
#[test]
fn e11_flag_conversions() {
    let mut rng = Rng(11);
    let r = rng.tx(2, 2);
    let mut tx = build_lib_tx(&r);
    let sub = Script::from_bytes(&[0x76, 0xa9]).unwrap();
    for &f in FLAGS.iter() {
        let conv = SigHash::try_from(f).unwrap();
        assert_eq!(conv, lib_flag(f));
        if let Some(exp) = r.preimage(0, &[0x76, 0xa9], 3, f) {
            let p = tx.sighash_preimage(conv, 0, &sub, 3).unwrap();
            assert_eq!(p, exp);
            assert_eq!(&p[p.len() - 4..], &[f, 0, 0, 0]);
        }
    }
    assert_eq!(SigHash::try_from(SigHash::ALL | SigHash::FORKID).unwrap(), SigHash::InputsOutputs);
    assert_eq!(SigHash::try_from(SigHash::NONE | SigHash::FORKID).unwrap(), SigHash::Inputs);
    assert_eq!(SigHash::try_from(SigHash::SINGLE | SigHash::FORKID).unwrap(), SigHash::InputsOutput);
    assert_eq!(SigHash::try_from((SigHash::ALL | SigHash::FORKID) | 0x80).unwrap(), SigHash::InputOutputs);
    assert_eq!(SigHash::try_from((SigHash::NONE | SigHash::FORKID) | 0x80).unwrap(), SigHash::Input);
    assert_eq!(SigHash::try_from((SigHash::SINGLE | SigHash::FORKID) | 0x80).unwrap(), SigHash::InputOutput);
}

// E12: flags used in every order on one object (cache cross-talk between flag families)
#[test]
fn e12_flag_order_permutations_on_one_object() {
    let mut rng = Rng(12);
    let mut r = rng.tx(3, 3);
    while r.outs.len() < 3 {
        r.outs.push(ROut { value: 1, script: vec![] });
    }
    let sub_bytes = vec![0xab, 0xac];
    let sub = Script::from_bytes(&sub_bytes).unwrap();
    // all 720 permutations
    let mut perm = vec![0usize, 1, 2, 3, 4, 5];
    let mut count = 0;
    loop {
        let mut tx = if count % 2 == 0 { build_lib_tx(&r) } else { Transaction::from_bytes(&r.ser()).unwrap() };
        for &k in &perm {
            for idx in 0..r.ins.len() {
                assert_eq!(tx.sighash_preimage(lib_flag(FLAGS[k]), idx, &sub, 10).unwrap(), r.preimage(idx, &sub_bytes, 10, FLAGS[k]).unwrap());
            }
        }
        count += 1;
        // next permutation
        let mut i = perm.len() - 1;
        while i > 0 && perm[i - 1] >= perm[i] {
            i -= 1;
        }
        if i == 0 {
            break;
        }
        let mut j = perm.len() - 1;
        while perm[j] <= perm[i - 1] {
            j -= 1;
        }
        perm.swap(i - 1, j);
        perm[i..].reverse();
    }
    assert_eq!(count, 720);
}

// E13: legacy flags in between do not disturb FORKID results (legacy path works on a clone, but shares the flag enum)
#[test]
fn e13_legacy_calls_in_between() {
    let mut rng = Rng(13);
    let mut r = rng.tx(3, 3);
    while r.outs.len() < 3 {
        r.outs.push(ROut { value: 1, script: vec![] });
    }
    let mut tx = build_lib_tx(&r);
    let sub = Script::from_bytes(&[0xac]).unwrap();
    for &legacy in &[SigHash::ALL, SigHash::NONE, SigHash::SINGLE, SigHash::Legacy_Input, SigHash::Legacy_InputOutput, SigHash::Legacy_InputOutputs] {
        let _ = tx.sighash_preimage(legacy, 0, &sub, 1);
        check_all(&mut tx, &r, &mut rng, "after legacy");
    }
    // hash_inputs is public: calling it with any flag must not poison the cache
    for &any in &[SigHash::ANYONECANPAY, SigHash::FORKID, SigHash::ALL, SigHash::Input, SigHash::Legacy_InputOutputs, SigHash::Inputs] {
        let _ = tx.hash_inputs(any);
        check_all(&mut tx, &r, &mut rng, "after hash_inputs");
    }
}

// E14: subscripts with every push encoding, also non-minimal, are embedded byte for byte
#[test]
fn e14_push_encodings_are_kept_verbatim() {
    let mut rng = Rng(14);
    let mut r = rng.tx(1, 1);
    r.outs.push(ROut { value: 2, script: vec![0x51] });
    let mut tx = build_lib_tx(&r);
    let cases: Vec<Vec<u8>> = vec![
        vec![0x4c, 0x00],
        vec![0x4c, 0x01, 0xaa],
        vec![0x4d, 0x00, 0x00],
        vec![0x4d, 0x01, 0x00, 0xaa],
        vec![0x4e, 0x00, 0x00, 0x00, 0x00],
        vec![0x4e, 0x01, 0x00, 0x00, 0x00, 0xaa],
        vec![0x01, 0x05],
        vec![0x01, 0x81],
        vec![0x01, 0x00],
        vec![0x00],
        vec![0x00, 0x00, 0x4f, 0x51, 0x60],
        vec![0x4c, 0x4b, 0x00, 0x00, 0x00, 0x00, 0x00, 0x00, 0x00, 0x00, 0x00, 0x00, 0x00, 0x00, 0x00, 0x00, 0x00, 0x00, 0x00, 0x00, 0x00, 0x00, 0x00, 0x00, 0x00, 0x00, 0x00, 0x00, 0x00, 0x00, 0x00, 0x00, 0x00, 0x00, 0x00, 0x00, 0x00, 0x00, 0x00, 0x00, 0x00, 0x00, 0x00, 0x00, 0x00, 0x00, 0x00, 0x00, 0x00, 0x00, 0x00, 0x00, 0x00, 0x00, 0x00, 0x00, 0x00, 0x00, 0x00, 0x00, 0x00, 0x00, 0x00, 0x00, 0x00, 0x00, 0x00, 0x00, 0x00, 0x00, 0x00, 0x00, 0x00, 0x00, 0x00, 0x00, 0x00],
        // push whose payload looks like code
        vec![0x03, 0x63, 0x67, 0x68],
        vec![0x02, 0x6a, 0x4c],
        // OP_RETURN followed by complete pushes and opcodes
        vec![0x6a, 0x02, 0x01, 0x02, 0x4c, 0x01, 0xff, 0x00],
        vec![0x00, 0x6a, 0x4d, 0x02, 0x00, 0x01, 0x02],
    ];
    for sub in cases {
        let script = Script::from_bytes(&sub).unwrap();
        for &f in FLAGS.iter() {
            let exp = r.preimage(0, &sub, 1, f).unwrap();
            assert_eq!(hex::encode(tx.sighash_preimage(lib_flag(f), 0, &script, 1).unwrap()), hex::encode(exp), "subscript {}", hex::encode(&sub));
        }
    }
}

// E15: OP_CODESEPARATOR stays in the subscript under FORKID (the specification does not strip it), at top level and in branches
#[test]
fn e15_codeseparators_are_not_stripped() {
    let mut rng = Rng(15);
    let r = rng.tx(2, 2);
    let mut tx = build_lib_tx(&r);
    let cases: Vec<Vec<u8>> = vec![
        vec![0xab],
        vec![0xab, 0xab, 0xac, 0xab],
        vec![0x63, 0xab, 0x67, 0xab, 0xac, 0x68, 0xab],
        vec![0x64, 0x63, 0xab, 0x68, 0x68],
    ];
    for sub in cases {
        let script = Script::from_bytes(&sub).unwrap();
        // also after a legacy call which strips them from its own copy
        let _ = tx.sighash_preimage(SigHash::ALL, 0, &script, 1).unwrap();
        for &f in FLAGS.iter() {
            if let Some(exp) = r.preimage(0, &sub, 1, f) {
                assert_eq!(tx.sighash_preimage(lib_flag(f), 0, &script, 1).unwrap(), exp, "subscript {}", hex::encode(&sub));
            }
        }
    }
}

// E16: conditional structures of every shape: empty branches, several OP_ELSE, nested, stray OP_ELSE / OP_ENDIF at top level (a subscript
// that starts inside a branch), OP_VERIF / OP_VERNOTIF
#[test]
fn e16_conditional_shapes() {
    let mut rng = Rng(16);
    let r = rng.tx(1, 1);
    let mut tx = build_lib_tx(&r);
    let cases: Vec<Vec<u8>> = vec![
        vec![0x63, 0x68],
        vec![0x63, 0x67, 0x68],
        vec![0x64, 0x67, 0x67, 0x68],
        vec![0x63, 0x51, 0x67, 0x52, 0x67, 0x53, 0x67, 0x68],
        vec![0x63, 0x63, 0x63, 0x68, 0x67, 0x64, 0x68, 0x68, 0x67, 0x63, 0x67, 0x68, 0x68],
        vec![0x68],
        vec![0x67, 0x68],
        vec![0xac, 0x67, 0x51, 0x68, 0x68, 0x68],
        vec![0x67],
        vec![0x65, 0x68],
        vec![0x66, 0x67, 0x68],
        vec![0x63, 0x6a, 0x68],
        vec![0x63, 0x6a, 0x02, 0x01, 0x02, 0x68, 0x51],
    ];
    for sub in cases {
        let script = match Script::from_bytes(&sub) {
            Ok(s) => s,
            Err(e) => panic!("subscript {} not readable: {}", hex::encode(&sub), e),
        };
        for &f in FLAGS.iter() {
            if let Some(exp) = r.preimage(0, &sub, 1, f) {
                assert_eq!(hex::encode(tx.sighash_preimage(lib_flag(f), 0, &script, 1).unwrap()), hex::encode(exp), "subscript {}", hex::encode(&sub));
            }
        }
    }
}

// E17: subscripts made from ASM text and from script bits are serialised as the text says (reference bytes written by hand)
#[test]
fn e17_subscripts_from_asm_and_bits() {
    let mut rng = Rng(17);
    let r = rng.tx(2, 2);
    let mut tx = build_lib_tx(&r);
    let d75 = vec![0x11u8; 75];
    let d76 = vec![0x22u8; 76];
    let d255 = vec![0x33u8; 255];
    let d256 = vec![0x44u8; 256];
    let d65535 = vec![0x55u8; 65535];
    let d65536 = vec![0x66u8; 65536];
    let asm = format!(
        "OP_DUP OP_HASH160 {} {} {} {} {} {} OP_EQUALVERIFY OP_CHECKSIG",
        hex::encode(&d75),
        hex::encode(&d76),
        hex::encode(&d255),
        hex::encode(&d256),
        hex::encode(&d65535),
        hex::encode(&d65536)
    );
    let mut exp = vec![0x76, 0xa9, 75];
    exp.extend(&d75);
    exp.extend([0x4c, 76]);
    exp.extend(&d76);
    exp.extend([0x4c, 255]);
    exp.extend(&d255);
    exp.extend([0x4d, 0x00, 0x01]);
    exp.extend(&d256);
    exp.extend([0x4d, 0xff, 0xff]);
    exp.extend(&d65535);
    exp.extend([0x4e, 0x00, 0x00, 0x01, 0x00]);
    exp.extend(&d65536);
    exp.extend([0x88, 0xac]);
    let script = Script::from_asm_string(&asm).unwrap();
    for &f in FLAGS.iter() {
        if let Some(e) = r.preimage(1.min(r.ins.len() - 1), &exp, 1, f) {
            assert!(tx.sighash_preimage(lib_flag(f), 1.min(r.ins.len() - 1), &script, 1).unwrap() == e);
        }
    }
    // bits
    let bits = vec![
        ScriptBit::OpCode(OpCodes::OP_DUP),
        ScriptBit::Push(vec![1, 2, 3]),
        ScriptBit::PushData(OpCodes::OP_PUSHDATA2, vec![9; 2]),
        ScriptBit::If {
            code: OpCodes::OP_NOTIF,
            pass: vec![ScriptBit::OpCode(OpCodes::OP_CODESEPARATOR)],
            fail: Some(vec![]),
        },
    ];
    let exp2 = vec![0x76, 0x03, 1, 2, 3, 0x4d, 2, 0, 9, 9, 0x64, 0xab, 0x67, 0x68];
    let script2 = Script::from_script_bits(bits);
    for &f in FLAGS.iter() {
        if let Some(e) = r.preimage(0, &exp2, 1, f) {
            assert_eq!(tx.sighash_preimage(lib_flag(f), 0, &script2, 1).unwrap(), e);
        }
    }
}

// E18: outputs whose scripts are long (length prefix inside hashOutputs crosses the boundaries), empty, or carry odd pushes
#[test]
fn e18_output_scripts_inside_hash_outputs() {
    let mut rng = Rng(18);
    let mut r = rng.tx(3, 0);
    for &len in &[0usize, 252, 253, 0xffff, 0x10000] {
        let script = if len == 0 {
            vec![]
        } else {
            let mut s = vec![0x6a; 1];
            s.extend(vec![0x61; len - 1]);
            s
        };
        r.outs.push(ROut { value: rng.pick_u64(), script });
    }
    r.outs.push(ROut { value: u64::MAX, script: vec![0x4c, 0x01, 0x07, 0x4e, 0, 0, 0, 0] });
    let mut parsed = Transaction::from_bytes(&r.ser()).unwrap();
    let mut built = build_lib_tx(&r);
    check_all(&mut parsed, &r, &mut rng, "parsed");
    check_all(&mut built, &r, &mut rng, "built");
}

// E19: many inputs and outputs (counts cross 252/253: counts are not part of the digest, only the concatenations are)
#[test]
fn e19_many_inputs_and_outputs() {
    let mut rng = Rng(19);
    let mut r = rng.tx(1, 0);
    r.ins.clear();
    for k in 0..300u32 {
        let mut t = [0u8; 32];
        t.copy_from_slice(&rng.bytes(32));
        r.ins.push(RIn { txid_wire: t, vout: k, script: vec![], seq: rng.pick_u32() });
    }
    for k in 0..260u64 {
        r.outs.push(ROut { value: k, script: vec![0x51] });
    }
    let mut tx = Transaction::from_bytes(&r.ser()).unwrap();
    let sub = vec![0xac];
    let script = Script::from_bytes(&sub).unwrap();
    for &idx in &[0usize, 1, 252, 253, 259, 260, 299] {
        for &f in FLAGS.iter() {
            let got = tx.sighash_preimage(lib_flag(f), idx, &script, 7);
            match r.preimage(idx, &sub, 7, f) {
                Some(e) => assert_eq!(got.unwrap(), e),
                None => assert!(got.is_err()),
            }
        }
    }
}

// E20: coinbase-shaped input among the inputs, inputs made by the other TxIn constructors
#[test]
fn e20_other_input_constructors() {
    let mut rng = Rng(20);
    let mut r = rng.tx(1, 2);
    r.ins.clear();
    // coinbase-shaped outpoint with arbitrary script bytes (read as opaque data by the parser)
    r.ins.push(RIn { txid_wire: [0; 32], vout: 0xffffffff, script: vec![0x03, 0x01], seq: 0xffffffff });
    let mut t = [0u8; 32];
    t.copy_from_slice(&rng.bytes(32));
    r.ins.push(RIn { txid_wire: t, vout: 0xffffffff, script: vec![], seq: 0 });
    let mut parsed = Transaction::from_bytes(&r.ser()).unwrap();
    check_all(&mut parsed, &r, &mut rng, "parsed");

    // from_outpoint_bytes (wire order), TxIn::from_hex, default + setters, JSON text
    let mut tx = Transaction::new(r.version, r.lock);
    let a = TxIn::from_outpoint_bytes(&r.ins[0].outpoint()).unwrap();
    let mut r2 = r.clone();
    r2.ins[0].script = vec![];
    r2.ins[0].seq = 0xffffffff;
    tx.add_input(&a);
    let mut wire = r.ins[1].outpoint();
    wire.push(0);
    wire.extend_from_slice(&r.ins[1].seq.to_le_bytes());
    tx.add_input(&TxIn::from_hex(&hex::encode(&wire)).unwrap());
    let mut d = TxIn::default();
    let mut display = t.to_vec();
    display.reverse();
    d.set_prev_tx_id(&display);
    d.set_vout(0x01020304);
    d.set_sequence(0x0a0b0c0d);
    d.set_satoshis(123);
    d.set_locking_script(&Script::from_bytes(&[0xac]).unwrap());
    tx.add_input(&d);
    r2.ins.push(RIn { txid_wire: t, vout: 0x01020304, script: vec![], seq: 0x0a0b0c0d });
    for o in &r.outs {
        tx.add_output(&TxOut::from_hex(&hex::encode(o.ser())).unwrap());
    }
    check_all(&mut tx, &r2, &mut rng, "constructors");
}

// ---------------------------------------------------------------------------------------------------------------
// independent ECDSA verification on secp256k1

mod ec {
    use elliptic_curve::ops::Reduce;
    use elliptic_curve::sec1::ToEncodedPoint;
    use elliptic_curve::PrimeField;
    use k256::{FieldBytes, ProjectivePoint, Scalar, U256};

    pub fn scalar_strict(b: &[u8]) -> Option<Scalar> {
        if b.len() > 32 {
            return None;
        }
        let mut a = [0u8; 32];
        a[32 - b.len()..].copy_from_slice(b);
        Option::from(Scalar::from_repr(FieldBytes::clone_from_slice(&a)))
    }

    pub fn pubkey_from_secret(d: &[u8]) -> ProjectivePoint {
        ProjectivePoint::generator() * scalar_strict(d).unwrap()
    }

    pub fn sec1(p: &ProjectivePoint, compressed: bool) -> Vec<u8> {
        p.to_affine().to_encoded_point(compressed).as_bytes().to_vec()
    }

    /// strict DER: 30 len 02 rlen r 02 slen s
    pub fn parse_der(der: &[u8]) -> Option<(Vec<u8>, Vec<u8>)> {
        if der.len() < 8 || der[0] != 0x30 || der[1] as usize != der.len() - 2 || der[2] != 0x02 {
            return None;
        }
        let rl = der[3] as usize;
        if 4 + rl + 2 > der.len() {
            return None;
        }
        let r = &der[4..4 + rl];
        if der[4 + rl] != 0x02 {
            return None;
        }
        let sl = der[5 + rl] as usize;
        if 6 + rl + sl != der.len() {
            return None;
        }
        let s = &der[6 + rl..];
        for v in &[r, s] {
            if v.is_empty() || v[0] & 0x80 != 0 || (v.len() > 1 && v[0] == 0 && v[1] & 0x80 == 0) {
                return None;
            }
        }
        let strip = |v: &[u8]| -> Vec<u8> {
            let mut v = v.to_vec();
            while v.len() > 1 && v[0] == 0 {
                v.remove(0);
            }
            v
        };
        Some((strip(r), strip(s)))
    }

    /// textbook ECDSA verification
    pub fn verify(q: &ProjectivePoint, digest: &[u8; 32], r: &[u8], s: &[u8]) -> bool {
        let (r, s) = match (scalar_strict(r), scalar_strict(s)) {
            (Some(r), Some(s)) => (r, s),
            _ => return false,
        };
        if bool::from(r.is_zero()) || bool::from(s.is_zero()) {
            return false;
        }
        let z = <Scalar as Reduce<U256>>::from_be_bytes_reduced(FieldBytes::clone_from_slice(digest));
        let s_inv: Scalar = Option::from(s.invert()).unwrap();
        let p = (ProjectivePoint::generator() * (z * s_inv) + *q * (r * s_inv)).to_affine();
        let enc = p.to_encoded_point(false);
        let x = match enc.x() {
            Some(x) => x,
            None => return false,
        };
        let xr = <Scalar as Reduce<U256>>::from_be_bytes_reduced(*x);
        xr == r
    }
}

fn check_signature(sig: &SighashSignature, q: &k256::ProjectivePoint, exp_preimage: &[u8], flag: u8, ctx: &str) {
    let bytes = sig.to_bytes().unwrap();
    assert_eq!(*bytes.last().unwrap(), flag, "{}: flag byte", ctx);
    assert_eq!(hex::encode(&bytes), sig.to_hex().unwrap());
    let (r, s) = ec::parse_der(&bytes[..bytes.len() - 1]).unwrap_or_else(|| panic!("{}: not strict DER: {}", ctx, hex::encode(&bytes)));
    let digest = sha256d(exp_preimage);
    assert!(ec::verify(q, &digest, &r, &s), "{}: signature does not verify against sha256d(specified preimage)", ctx);
    // and not against a neighbouring digest
    let mut other = exp_preimage.to_vec();
    let l = other.len();
    other[l - 5] ^= 1;
    assert!(!ec::verify(q, &sha256d(&other), &r, &s));
}

// E21: signatures verify (independent verifier, independent public key derivation) against sha256d of the reference preimage
#[test]
fn e21_signatures_verify_against_reference_digest() {
    let mut rng = Rng(21);
    let secrets: Vec<Vec<u8>> = vec![
        hex::decode("0000000000000000000000000000000000000000000000000000000000000001").unwrap(),
        hex::decode("fffffffffffffffffffffffffffffffebaaedce6af48a03bbfd25e8cd0364140").unwrap(),
        hex::decode("7fffffffffffffffffffffffffffffff5d576e7357a4501ddfe92f46681b20a0").unwrap(),
        rng.bytes(32),
        rng.bytes(32),
    ];
    for (kn, secret) in secrets.iter().enumerate() {
        let q = ec::pubkey_from_secret(secret);
        for compressed in [true, false] {
            let key = PrivateKey::from_bytes(secret).unwrap().compress_public_key(compressed);
            // library public key is the independently derived one
            assert_eq!(PublicKey::from_private_key(&key).to_bytes().unwrap(), ec::sec1(&q, compressed));
            for n in 0..12 {
                let r = rng.tx(3, 3);
                let mut tx = if n % 2 == 0 { build_lib_tx(&r) } else { Transaction::from_bytes(&r.ser()).unwrap() };
                for idx in 0..r.ins.len() {
                    for &f in FLAGS.iter() {
                        let sub = rng.script(4);
                        let value = rng.pick_u64();
                        let script = Script::from_bytes(&sub).unwrap();
                        let before = tx.to_bytes().unwrap();
                        let got = tx.sign(&key, lib_flag(f), idx, &script, value);
                        match r.preimage(idx, &sub, value, f) {
                            Some(exp) => {
                                let sig = got.unwrap();
                                let ctx = format!("key {} tx {} idx {} flag {:#x}", kn, n, idx, f);
                                check_signature(&sig, &q, &exp, f, &ctx);
                                // library's own verification agrees
                                assert!(tx.verify(&PublicKey::from_private_key(&key), &sig));
                                // deterministic
                                let again = tx.sign(&key, lib_flag(f), idx, &script, value).unwrap();
                                assert_eq!(again.to_bytes().unwrap(), sig.to_bytes().unwrap());
                            }
                            None => assert!(got.is_err()),
                        }
                        // signing does not change the transaction
                        assert_eq!(tx.to_bytes().unwrap(), before);
                    }
                }
            }
        }
    }
}

// E22: sign_with_k: chosen nonce, r is the abscissa of k*G, and the signature verifies against the reference digest
#[test]
fn e22_sign_with_k_verifies_and_uses_the_nonce() {
    use elliptic_curve::sec1::ToEncodedPoint;
    let mut rng = Rng(22);
    for n in 0..20 {
        let secret = rng.bytes(32);
        let nonce = if n == 0 {
            hex::decode("0000000000000000000000000000000000000000000000000000000000000001").unwrap()
        } else if n == 1 {
            hex::decode("fffffffffffffffffffffffffffffffebaaedce6af48a03bbfd25e8cd0364140").unwrap()
        } else {
            rng.bytes(32)
        };
        let key = PrivateKey::from_bytes(&secret).unwrap();
        let k = PrivateKey::from_bytes(&nonce).unwrap();
        let q = ec::pubkey_from_secret(&secret);
        let r = rng.tx(3, 3);
        let mut tx = build_lib_tx(&r);
        for idx in 0..r.ins.len() {
            for &f in FLAGS.iter() {
                let sub = rng.script(4);
                let value = rng.pick_u64();
                let script = Script::from_bytes(&sub).unwrap();
                let got = tx.sign_with_k(&key, &k, lib_flag(f), idx, &script, value);
                match r.preimage(idx, &sub, value, f) {
                    Some(exp) => {
                        let sig = got.unwrap();
                        check_signature(&sig, &q, &exp, f, &format!("with_k {} idx {} flag {:#x}", n, idx, f));
                        let bytes = sig.to_bytes().unwrap();
                        let (rr, _) = ec::parse_der(&bytes[..bytes.len() - 1]).unwrap();
                        let kg = ec::pubkey_from_secret(&nonce).to_affine().to_encoded_point(false);
                        let mut x = kg.x().unwrap().to_vec();
                        while x.len() > 1 && x[0] == 0 {
                            x.remove(0);
                        }
                        assert_eq!(rr, x, "r is the abscissa of kG");
                    }
                    None => assert!(got.is_err()),
                }
            }
        }
    }
}

// E23: signature taken before later, unrelated changes: ANYONECANPAY|NONE signature stays valid for the changed transaction,
// ALL signature verifies only against the reference digest of the transaction as it was at signing time
#[test]
fn e23_signatures_and_later_changes() {
    let mut rng = Rng(23);
    let secret = rng.bytes(32);
    let key = PrivateKey::from_bytes(&secret).unwrap();
    let q = ec::pubkey_from_secret(&secret);
    let mut r = rng.tx(2, 2);
    let mut tx = build_lib_tx(&r);
    let sub = vec![0x76, 0xa9, 0x88, 0xac];
    let script = Script::from_bytes(&sub).unwrap();
    let sig_all = tx.sign(&key, SigHash::InputsOutputs, 0, &script, 50).unwrap();
    let old = r.clone();
    // change
    let extra_in = RIn { txid_wire: [7; 32], vout: 1, script: vec![], seq: 2 };
    let mut disp = extra_in.txid_wire.to_vec();
    disp.reverse();
    tx.add_input(&TxIn::new(&disp, 1, &Script::default(), Some(2)));
    r.ins.push(extra_in);
    tx.add_output(&TxOut::new(8, &Script::default()));
    r.outs.push(ROut { value: 8, script: vec![] });
    let sig_all_new = tx.sign(&key, SigHash::InputsOutputs, 0, &script, 50).unwrap();
    check_signature(&sig_all, &q, &old.preimage(0, &sub, 50, 0x41).unwrap(), 0x41, "old");
    check_signature(&sig_all_new, &q, &r.preimage(0, &sub, 50, 0x41).unwrap(), 0x41, "new");
    assert_ne!(sig_all.to_bytes().unwrap(), sig_all_new.to_bytes().unwrap());
    let sig_acp_none_old = {
        let mut t = build_lib_tx(&old);
        t.sign(&key, SigHash::Input, 0, &script, 50).unwrap()
    };
    let sig_acp_none_new = tx.sign(&key, SigHash::Input, 0, &script, 50).unwrap();
    assert_eq!(sig_acp_none_old.to_bytes().unwrap(), sig_acp_none_new.to_bytes().unwrap());
}

// E24: caller inside the crate: the interpreter's OP_CHECKSIG accepts a signature made over the reference digest by an independent signer
// for every FORKID flag (P2PKH spend, value and locking script taken from the input)
#[test]
fn e24_interpreter_accepts_reference_signature() {
    use elliptic_curve::ops::Reduce;
    use elliptic_curve::sec1::ToEncodedPoint;
    use elliptic_curve::IsHigh;
    use k256::{FieldBytes, ProjectivePoint, Scalar, U256};

    fn der(r: &Scalar, s: &Scalar) -> Vec<u8> {
        fn int(b: &[u8]) -> Vec<u8> {
            let mut v = b.to_vec();
            while v.len() > 1 && v[0] == 0 {
                v.remove(0);
            }
            if v[0] & 0x80 != 0 {
                v.insert(0, 0);
            }
            let mut o = vec![0x02, v.len() as u8];
            o.extend(v);
            o
        }
        let mut body = int(&r.to_bytes());
        body.extend(int(&s.to_bytes()));
        let mut o = vec![0x30, body.len() as u8];
        o.extend(body);
        o
    }

    let mut rng = Rng(24);
    let secret = rng.bytes(32);
    let d = ec::scalar_strict(&secret).unwrap();
    let q = ec::pubkey_from_secret(&secret);
    let pub_bytes = ec::sec1(&q, true);
    let pkh = Hash::hash_160(&pub_bytes).to_bytes();
    let mut lock = vec![0x76, 0xa9, 0x14];
    lock.extend(&pkh);
    lock.extend([0x88, 0xac]);

    for &f in FLAGS.iter() {
        let mut r = rng.tx(3, 3);
        while r.outs.len() < r.ins.len() {
            r.outs.push(ROut { value: 4, script: vec![0x51] });
        }
        for i in r.ins.iter_mut() {
            i.script = vec![];
        }
        for idx in 0..r.ins.len() {
            let value = rng.pick_u64();
            let pre = r.preimage(idx, &lock, value, f).unwrap();
            let z = <Scalar as Reduce<U256>>::from_be_bytes_reduced(FieldBytes::clone_from_slice(&sha256d(&pre)));
            // independent signer with a fixed nonce
            let k = ec::scalar_strict(&rng.bytes(32)).unwrap();
            let kg = (ProjectivePoint::generator() * k).to_affine().to_encoded_point(false);
            let rr = <Scalar as Reduce<U256>>::from_be_bytes_reduced(*kg.x().unwrap());
            let k_inv: Scalar = Option::from(k.invert()).unwrap();
            let mut s = k_inv * (z + rr * d);
            if bool::from(s.is_high()) {
                s = -s;
            }
            let mut sig = der(&rr, &s);
            sig.push(f);

            let mut unlocking = vec![sig.len() as u8];
            unlocking.extend(&sig);
            unlocking.push(pub_bytes.len() as u8);
            unlocking.extend(&pub_bytes);

            let mut r_signed = r.clone();
            r_signed.ins[idx].script = unlocking;
            let mut tx = Transaction::from_bytes(&r_signed.ser()).unwrap();
            let mut txin = tx.get_input(idx).unwrap();
            txin.set_satoshis(value);
            txin.set_locking_script(&Script::from_bytes(&lock).unwrap());
            tx.set_input(idx, &txin);
            let mut interp = Interpreter::from_transaction(&tx, idx).unwrap();
            interp.run().unwrap_or_else(|e| panic!("flag {:#x} idx {}: {}", f, idx, e));
            assert_eq!(interp.state().stack().last().unwrap(), &vec![1u8], "flag {:#x} idx {}", f, idx);

            // and with a value that is off by one the same signature is rejected
            let mut txin2 = txin.clone();
            txin2.set_satoshis(value.wrapping_add(1));
            tx.set_input(idx, &txin2);
            let mut interp = Interpreter::from_transaction(&tx, idx).unwrap();
            let res = interp.run();
            let top = interp.state().stack().last().cloned();
            assert!(res.is_err() || top != Some(vec![1u8]), "flag {:#x} idx {}: wrong value accepted", f, idx);
        }
    }
}

// E25: SighashSignature::from_bytes of a library signature gives back the same bytes; library signature is low-S strict DER
#[test]
fn e25_signature_bytes_round_trip() {
    let mut rng = Rng(25);
    let secret = rng.bytes(32);
    let key = PrivateKey::from_bytes(&secret).unwrap();
    let n_half = hex::decode("7fffffffffffffffffffffffffffffff5d576e7357a4501ddfe92f46681b20a0").unwrap();
    for _ in 0..40 {
        let r = rng.tx(2, 2);
        let mut tx = build_lib_tx(&r);
        for &f in &[0x41u8, 0x42, 0xc1, 0xc2] {
            let sub = rng.script(3);
            let sig = tx.sign(&key, lib_flag(f), 0, &Script::from_bytes(&sub).unwrap(), 1).unwrap();
            let bytes = sig.to_bytes().unwrap();
            let pre = r.preimage(0, &sub, 1, f).unwrap();
            let back = SighashSignature::from_bytes(&bytes, &pre).unwrap();
            assert_eq!(back.to_bytes().unwrap(), bytes);
            assert!(tx.verify(&PublicKey::from_private_key(&key), &back));
            let (_, s) = ec::parse_der(&bytes[..bytes.len() - 1]).unwrap();
            let mut s32 = vec![0u8; 32 - s.len()];
            s32.extend(&s);
            assert!(s32 <= n_half, "low S");
        }
    }
}

// E26: documented behaviour outside the statement (kept as passing notes): an input whose txid is not 32 bytes long
#[test]
fn e26_note_short_txid_objects() {
    let mut tx = Transaction::new(1, 0);
    tx.add_input(&TxIn::default());
    let p = tx.sighash_preimage(SigHash::InputsOutputs, 0, &Script::default(), 0).unwrap();
    // 36-byte outpoint shrinks to 4 bytes: such an object is not a transaction (it cannot be serialised to a valid one either)
    println!("default TxIn preimage length: {} (a transaction's would be 157)", p.len());
    assert_eq!(tx.to_bytes().unwrap().len(), 4 + 1 + (0 + 4 + 1 + 4) + 1 + 4);
}

// E27: transactions whose counts and script lengths are written with over-long compact sizes: a node re-serialises the parsed
// outputs canonically before hashing, so the expected bytes are those of the canonical form
#[test]
fn e27_non_canonical_compact_sizes_in_the_parsed_transaction() {
    let mut rng = Rng(27);
    for _ in 0..30 {
        let mut r = rng.tx(3, 3);
        if r.outs.is_empty() {
            r.outs.push(ROut { value: 1, script: vec![0x51] });
        }
        // hand serialisation with long forms
        let long = |n: u64, form: u64| -> Vec<u8> {
            match form % 3 {
                0 => {
                    let mut v = vec![0xfd];
                    v.extend_from_slice(&(n as u16).to_le_bytes());
                    v
                }
                1 => {
                    let mut v = vec![0xfe];
                    v.extend_from_slice(&(n as u32).to_le_bytes());
                    v
                }
                _ => {
                    let mut v = vec![0xff];
                    v.extend_from_slice(&n.to_le_bytes());
                    v
                }
            }
        };
        let mut raw = r.version.to_le_bytes().to_vec();
        raw.extend(long(r.ins.len() as u64, rng.next()));
        for i in &r.ins {
            raw.extend(i.outpoint());
            raw.extend(long(i.script.len() as u64, rng.next()));
            raw.extend_from_slice(&i.script);
            raw.extend_from_slice(&i.seq.to_le_bytes());
        }
        raw.extend(long(r.outs.len() as u64, rng.next()));
        for o in &r.outs {
            raw.extend_from_slice(&o.value.to_le_bytes());
            raw.extend(long(o.script.len() as u64, rng.next()));
            raw.extend_from_slice(&o.script);
        }
        raw.extend_from_slice(&r.lock.to_le_bytes());
        let mut tx = Transaction::from_bytes(&raw).unwrap();
        check_all(&mut tx, &r, &mut rng, "long compact sizes");
    }
}

// E28: byte strings that Script::from_bytes accepts are given back unchanged by to_bytes (so a subscript or an output script
// enters the digest as written). The accepted exception (a final truncated direct push after OP_RETURN) is counted, not failed.
#[test]
fn e28_accepted_script_bytes_are_given_back() {
    let mut rng = Rng(28);
    let mut accepted = 0u32;
    let mut known = 0u32;
    for n in 0..400_000u32 {
        let len = rng.below(24) as usize;
        let mut b = rng.bytes(len);
        // bias towards short pushes and structure bytes
        for x in b.iter_mut() {
            match rng.below(8) {
                0 => *x = (rng.below(6)) as u8,
                1 => *x = [0x63, 0x64, 0x67, 0x68, 0x6a, 0x4c, 0x4d, 0x4e, 0x65, 0x66, 0xab][rng.below(11) as usize],
                2 => *x = 0x51 + rng.below(0x60) as u8,
                _ => {}
            }
        }
        if let Ok(s) = Script::from_bytes(&b) {
            accepted += 1;
            let back = s.to_bytes();
            if back != b {
                // accepted exception: the script contains OP_RETURN and the difference is the length byte of the last, truncated push
                assert!(b.contains(&0x6a), "case {}: {} came back as {}", n, hex::encode(&b), hex::encode(&back));
                assert_eq!(back.len(), b.len(), "case {}: {} came back as {}", n, hex::encode(&b), hex::encode(&back));
                let diff: Vec<usize> = (0..b.len()).filter(|&i| b[i] != back[i]).collect();
                assert_eq!(diff.len(), 1, "case {}: {} came back as {}", n, hex::encode(&b), hex::encode(&back));
                assert!(b[diff[0]] as usize > b.len() - diff[0] - 1 && back[diff[0]] as usize == b.len() - diff[0] - 1, "case {}: {} came back as {}", n, hex::encode(&b), hex::encode(&back));
                known += 1;
            }
            assert_eq!(s.get_script_length(), back.len());
        }
    }
    println!("accepted {} of 400000, {} of them with the accepted lenient last push", accepted, known);
    assert!(accepted > 10_000);
}

mod signer {
    use super::ec;
    use super::reference::sha256d;
    use elliptic_curve::ops::Reduce;
    use elliptic_curve::sec1::ToEncodedPoint;
    use elliptic_curve::IsHigh;
    use k256::{FieldBytes, ProjectivePoint, Scalar, U256};

    fn int(b: &[u8]) -> Vec<u8> {
        let mut v = b.to_vec();
        while v.len() > 1 && v[0] == 0 {
            v.remove(0);
        }
        if v[0] & 0x80 != 0 {
            v.insert(0, 0);
        }
        let mut o = vec![0x02, v.len() as u8];
        o.extend(v);
        o
    }

    /// textbook ECDSA over sha256d(preimage), low S, strict DER, flag byte appended
    pub fn sign(secret: &[u8], nonce: &[u8], preimage: &[u8], flag: u8) -> Vec<u8> {
        let d = ec::scalar_strict(secret).unwrap();
        let k = ec::scalar_strict(nonce).unwrap();
        let z = <Scalar as Reduce<U256>>::from_be_bytes_reduced(FieldBytes::clone_from_slice(&sha256d(preimage)));
        let kg = (ProjectivePoint::generator() * k).to_affine().to_encoded_point(false);
        let r = <Scalar as Reduce<U256>>::from_be_bytes_reduced(*kg.x().unwrap());
        let k_inv: Scalar = Option::from(k.invert()).unwrap();
        let mut s = k_inv * (z + r * d);
        if bool::from(s.is_high()) {
            s = -s;
        }
        let mut body = int(&r.to_bytes());
        body.extend(int(&s.to_bytes()));
        let mut o = vec![0x30, body.len() as u8];
        o.extend(body);
        o.push(flag);
        o
    }
}

fn push(v: &mut Vec<u8>, data: &[u8]) {
    assert!(data.len() <= 75);
    v.push(data.len() as u8);
    v.extend_from_slice(data);
}

fn run_input(r: &RTx, idx: usize, lock: &[u8], value: u64) -> bool {
    let mut tx = Transaction::from_bytes(&r.ser()).unwrap();
    let mut txin = tx.get_input(idx).unwrap();
    txin.set_satoshis(value);
    txin.set_locking_script(&Script::from_bytes(lock).unwrap());
    tx.set_input(idx, &txin);
    let mut interp = Interpreter::from_transaction(&tx, idx).unwrap();
    let res = interp.run();
    res.is_ok() && interp.state().stack().last() == Some(&vec![1u8])
}

// E29: OP_CHECKMULTISIG (2 of 3) where the two signatures carry different FORKID flags; each is made by the independent signer over the
// reference digest for its own flag
#[test]
fn e29_multisig_with_mixed_flags() {
    let mut rng = Rng(29);
    let secrets: Vec<Vec<u8>> = (0..3).map(|_| rng.bytes(32)).collect();
    let pubs: Vec<Vec<u8>> = secrets.iter().map(|s| ec::sec1(&ec::pubkey_from_secret(s), true)).collect();
    let mut lock = vec![0x52];
    for p in &pubs {
        push(&mut lock, p);
    }
    lock.extend([0x53, 0xae]);
    for &fa in FLAGS.iter() {
        for &fb in FLAGS.iter() {
            let mut r = rng.tx(3, 3);
            while r.outs.len() < r.ins.len() {
                r.outs.push(ROut { value: 4, script: vec![0x51] });
            }
            for i in r.ins.iter_mut() {
                i.script = vec![];
            }
            let idx = rng.below(r.ins.len() as u64) as usize;
            let value = rng.pick_u64();
            let sa = signer::sign(&secrets[0], &rng.bytes(32), &r.preimage(idx, &lock, value, fa).unwrap(), fa);
            let sb = signer::sign(&secrets[2], &rng.bytes(32), &r.preimage(idx, &lock, value, fb).unwrap(), fb);
            let mut unlocking = vec![0x00];
            push(&mut unlocking, &sa);
            push(&mut unlocking, &sb);
            r.ins[idx].script = unlocking;
            assert!(run_input(&r, idx, &lock, value), "flags {:#x} {:#x}", fa, fb);
            // a changed output invalidates it exactly when some flag commits to that output
            let mut r2 = r.clone();
            let last = r2.outs.len() - 1;
            r2.outs[last].value ^= 1;
            let commits = |f: u8| (f & 0x1f) == 1 || ((f & 0x1f) == 3 && idx == last);
            assert_eq!(run_input(&r2, idx, &lock, value), !(commits(fa) || commits(fb)), "changed output, flags {:#x} {:#x} idx {} last {}", fa, fb, idx, last);
            // a changed sequence of another input invalidates it exactly when some flag is plain ALL
            if r.ins.len() > 1 {
                let mut r3 = r.clone();
                let other = (idx + 1) % r3.ins.len();
                r3.ins[other].seq ^= 1;
                assert_eq!(run_input(&r3, idx, &lock, value), !(fa == 0x41 || fb == 0x41), "changed sequence, flags {:#x} {:#x}", fa, fb);
                // a changed outpoint of another input invalidates unless both are ANYONECANPAY
                let mut r4 = r.clone();
                r4.ins[other].vout ^= 1;
                assert_eq!(run_input(&r4, idx, &lock, value), fa & 0x80 != 0 && fb & 0x80 != 0, "changed outpoint, flags {:#x} {:#x}", fa, fb);
            }
        }
    }
}

// E30: the subscript chosen by OP_CHECKSIG after top-level OP_CODESEPARATORs is the rest of the locking script, separators that follow included
#[test]
fn e30_checksig_after_codeseparator() {
    let mut rng = Rng(30);
    let secret = rng.bytes(32);
    let pk = ec::sec1(&ec::pubkey_from_secret(&secret), false);
    // OP_NOP OP_CODESEPARATOR <pk> OP_CHECKSIGVERIFY OP_CODESEPARATOR <pk> OP_CHECKSIG
    let mut tail2 = vec![];
    push(&mut tail2, &pk);
    tail2.push(0xac);
    let mut tail1 = vec![];
    push(&mut tail1, &pk);
    tail1.push(0xad);
    tail1.push(0xab);
    tail1.extend(&tail2);
    let mut lock = vec![0x61, 0xab];
    lock.extend(&tail1);
    for &f in FLAGS.iter() {
        let mut r = rng.tx(2, 2);
        while r.outs.len() < r.ins.len() {
            r.outs.push(ROut { value: 4, script: vec![0x51] });
        }
        for i in r.ins.iter_mut() {
            i.script = vec![];
        }
        let idx = r.ins.len() - 1;
        let value = rng.pick_u64();
        let s1 = signer::sign(&secret, &rng.bytes(32), &r.preimage(idx, &tail1, value, f).unwrap(), f);
        let s2 = signer::sign(&secret, &rng.bytes(32), &r.preimage(idx, &tail2, value, f).unwrap(), f);
        let mut unlocking = vec![];
        push(&mut unlocking, &s2);
        push(&mut unlocking, &s1);
        r.ins[idx].script = unlocking;
        assert!(run_input(&r, idx, &lock, value), "flag {:#x}", f);
        // signatures over the whole locking script are not accepted
        let w1 = signer::sign(&secret, &rng.bytes(32), &r.preimage(idx, &lock, value, f).unwrap(), f);
        let mut unlocking = vec![];
        push(&mut unlocking, &s2);
        push(&mut unlocking, &w1);
        r.ins[idx].script = unlocking;
        assert!(!run_input(&r, idx, &lock, value), "flag {:#x}", f);
    }
}

// E31: note, outside the statement: a decoded JSON transaction may carry a txid that is not 32 bytes long; the object is not a transaction
#[test]
fn e31_note_json_txid_length_is_not_checked() {
    let mut tx = Transaction::new(1, 0);
    tx.add_input(&TxIn::new(&[7u8; 32], 0, &Script::default(), None));
    let json = tx.to_json_string().unwrap();
    let short = json.replace(&"07".repeat(32), &"07".repeat(31));
    assert_ne!(json, short);
    match Transaction::from_json_string(&short) {
        Ok(mut t) => {
            let p = t.sighash_preimage(SigHash::InputsOutputs, 0, &Script::default(), 0).unwrap();
            println!("JSON with a 31-byte txid is accepted; preimage has {} bytes instead of 157", p.len());
        }
        Err(e) => println!("refused: {}", e),
    }
}

// E32: Script, TxIn and TxOut objects reused after mutation: values handed out are copies, what the transaction holds is what was set last
#[test]
fn e32_reused_and_mutated_parts() {
    let mut rng = Rng(32);
    let mut r = rng.tx(3, 3);
    while r.ins.len() < 3 {
        r = rng.tx(3, 3);
    }
    while r.outs.len() < 3 {
        r.outs.push(ROut { value: 1, script: vec![0x51] });
    }
    let mut tx = build_lib_tx(&r);
    check_all(&mut tx, &r, &mut rng, "warm");

    // copies handed out and then changed do not reach the transaction
    let mut i = tx.get_input(0).unwrap();
    i.set_sequence(i.get_sequence() ^ 0xff);
    i.set_vout(77);
    i.set_prev_tx_id(&[9u8; 32]);
    let o = tx.get_output(0).unwrap();
    let mut s = o.get_script_pub_key();
    s.push(ScriptBit::OpCode(OpCodes::OP_DROP));
    check_all(&mut tx, &r, &mut rng, "after changing copies");

    // a subscript object that is changed between calls
    let mut sub = Script::from_bytes(&[0xab, 0x76]).unwrap();
    let mut sub_bytes = vec![0xab, 0x76];
    for step in 0..4 {
        for &f in FLAGS.iter() {
            assert_eq!(tx.sighash_preimage(lib_flag(f), 1, &sub, 9).unwrap(), r.preimage(1, &sub_bytes, 9, f).unwrap(), "step {}", step);
        }
        match step {
            0 => {
                sub.push(ScriptBit::Push(vec![1, 2]));
                sub_bytes.extend([2, 1, 2]);
            }
            1 => {
                sub.push_array(&[ScriptBit::OpCode(OpCodes::OP_CODESEPARATOR), ScriptBit::OpCode(OpCodes::OP_CHECKSIG)]);
                sub_bytes.extend([0xab, 0xac]);
            }
            _ => {
                sub.remove_codeseparators();
                sub_bytes.retain(|b| *b != 0xab);
            }
        }
    }

    // the same TxIn / TxOut object added twice, then one place replaced
    let lin = tx.get_input(2).unwrap();
    tx.add_input(&lin);
    r.ins.push(r.ins[2].clone());
    let lout = tx.get_output(1).unwrap();
    tx.insert_output(0, &lout);
    r.outs.insert(0, r.outs[2 - 1].clone());
    check_all(&mut tx, &r, &mut rng, "duplicates");
}

// E33: note, consequence of the accepted lenient reading (1): an output script `OP_RETURN 05 01 02` (last push truncated) is re-written as
// `OP_RETURN 02 01 02`, so hashOutputs (and the txid) of the parsed transaction are those of the re-written bytes. Informational only.
#[test]
fn e33_note_truncated_push_after_op_return_in_an_output() {
    let r = RTx {
        version: 1,
        ins: vec![RIn { txid_wire: [3; 32], vout: 0, script: vec![], seq: 0xffffffff }],
        outs: vec![ROut { value: 0, script: vec![0x6a, 0x05, 0x01, 0x02] }],
        lock: 0,
    };
    let mut tx = Transaction::from_bytes(&r.ser()).unwrap();
    let got = tx.sighash_preimage(SigHash::InputsOutputs, 0, &Script::from_bytes(&[0xac]).unwrap(), 1).unwrap();
    let exp = r.preimage(0, &[0xac], 1, 0x41).unwrap();
    println!("same as the digest over the bytes as written: {} (re-serialised equal: {})", got == exp, tx.to_bytes().unwrap() == r.ser());
}
