// Hunt for violations of C16: "Interpreter is total: every step gives a state or error; stepping equals run".
// Public API only.  Oracles: invariants stated by the property (no panic, bounded number of steps, stacks kept
// after an error, stepping == running) and hand computed expectations from the Bitcoin SV script specification.
#![allow(clippy::all)]
use bsv::*;
use num_traits::FromPrimitive;
use std::panic::{catch_unwind, AssertUnwindSafe};

type Stacks = (Vec<Vec<u8>>, Vec<Vec<u8>>);

fn op(o: OpCodes) -> ScriptBit {
    ScriptBit::OpCode(o)
}

/// A push element for arbitrary data, as the ASM parser would build it
fn push(data: &[u8]) -> ScriptBit {
    match data.len() {
        0 => ScriptBit::OpCode(OpCodes::OP_0),
        1..=75 => ScriptBit::Push(data.to_vec()),
        76..=255 => ScriptBit::PushData(OpCodes::OP_PUSHDATA1, data.to_vec()),
        256..=65535 => ScriptBit::PushData(OpCodes::OP_PUSHDATA2, data.to_vec()),
        _ => ScriptBit::PushData(OpCodes::OP_PUSHDATA4, data.to_vec()),
    }
}

/// Script number encoding, written independently of the library (spec: little endian magnitude, sign bit in the last byte)
fn num(n: i64) -> Vec<u8> {
    if n == 0 {
        return vec![];
    }
    let neg = n < 0;
    let mut m = n.unsigned_abs();
    let mut out = vec![];
    while m > 0 {
        out.push((m & 0xff) as u8);
        m >>= 8;
    }
    if out.last().unwrap() & 0x80 != 0 {
        out.push(if neg { 0x80 } else { 0x00 });
    } else if neg {
        *out.last_mut().unwrap() |= 0x80;
    }
    out
}

/// Number of opcodes and pushes of a script as written (independent count, used as the bound on the number of steps)
fn written_count(bits: &[ScriptBit]) -> usize {
    let mut total = 0;
    let mut work: Vec<&[ScriptBit]> = vec![bits];
    while let Some(list) = work.pop() {
        for bit in list {
            match bit {
                ScriptBit::If { pass, fail, .. } => {
                    total += 2; // OP_IF and OP_ENDIF
                    work.push(pass);
                    if let Some(f) = fail {
                        total += 1;
                        work.push(f);
                    }
                }
                _ => total += 1,
            }
        }
    }
    total
}

#[derive(Debug, Clone, PartialEq)]
struct Outcome {
    stacks: Stacks,
    error: Option<String>,
    steps: usize,
}

fn stacks_of(state: &State) -> Stacks {
    (state.stack.clone(), state.alt_stack.clone())
}

/// Single-steps to the first error or the end.  Checks on the way:
///  * every returned state equals the state the interpreter reports,
///  * after an error the interpreter's stacks are those of the last successfully returned state,
///  * the number of steps never exceeds `bound`.
fn step_through(mut interp: Interpreter, bound: usize) -> Outcome {
    let mut last = stacks_of(&interp.state());
    let mut steps = 0;
    loop {
        match interp.next() {
            None => {
                assert_eq!(stacks_of(&interp.state()), last, "the end of the script changed the stacks");
                return Outcome { stacks: last, error: None, steps };
            }
            Some(Ok(state)) => {
                steps += 1;
                assert!(steps <= bound, "more steps ({}) than the script has elements ({})", steps, bound);
                last = stacks_of(&state);
                assert_eq!(stacks_of(&interp.state()), last, "returned state differs from the interpreter's state");
            }
            Some(Err(e)) => {
                assert_eq!(stacks_of(&interp.state()), last, "stacks changed by a failing step: {}", e);
                // a second attempt must not change anything either
                let again = interp.next();
                assert!(matches!(again, Some(Err(_))), "a failed step did not fail again");
                assert_eq!(stacks_of(&interp.state()), last, "stacks changed by a repeated failing step: {}", e);
                return Outcome { stacks: last, error: Some(e.to_string()), steps };
            }
        }
    }
}

fn run_through(mut interp: Interpreter) -> Outcome {
    let result = interp.run();
    Outcome {
        stacks: stacks_of(&interp.state()),
        error: result.err().map(|e| e.to_string()),
        steps: 0,
    }
}

/// Steps `k` times (stopping early at an error or the end), then runs
fn step_then_run(mut interp: Interpreter, k: usize) -> Outcome {
    for _ in 0..k {
        match interp.next() {
            Some(Ok(_)) => {}
            Some(Err(e)) => {
                return Outcome { stacks: stacks_of(&interp.state()), error: Some(e.to_string()), steps: 0 };
            }
            None => break,
        }
    }
    run_through(interp)
}

/// The whole C16 check of one interpreter; returns the outcome of stepping
fn check_total(make: &dyn Fn() -> Interpreter, bound: usize, what: &str) -> Outcome {
    let result = catch_unwind(AssertUnwindSafe(|| {
        let stepped = step_through(make(), bound);
        let ran = run_through(make());
        assert_eq!(stepped.stacks, ran.stacks, "stepping and running end in different stacks");
        assert_eq!(stepped.error, ran.error, "stepping and running end in different outcomes");
        let half = step_then_run(make(), stepped.steps / 2);
        assert_eq!(stepped.stacks, half.stacks, "step-then-run ends in different stacks");
        assert_eq!(stepped.error, half.error, "step-then-run ends in a different outcome");
        stepped
    }));
    match result {
        Ok(o) => o,
        Err(p) => {
            let msg = p.downcast_ref::<String>().cloned().or_else(|| p.downcast_ref::<&str>().map(|s| s.to_string())).unwrap_or_default();
            panic!("PANIC / broken invariant on {}: {}", what, msg)
        }
    }
}

fn check_bits(bits: &[ScriptBit]) -> Outcome {
    let script = Script::from_script_bits(bits.to_vec());
    let bound = written_count(bits);
    check_total(&|| Interpreter::from_script(&script), bound, &format!("{:?}", bits))
}

fn check_asm(asm: &str) -> Outcome {
    let script = Script::from_asm_string(asm).unwrap();
    check_bits(&script.to_script_bits())
}

fn all_opcodes() -> Vec<OpCodes> {
    (0..=255u8).filter_map(OpCodes::from_u8).collect()
}

// ------------------------------------------------------------------------------------------------
// tiny deterministic PRNG
struct Rng(u64);
impl Rng {
    fn next(&mut self) -> u64 {
        self.0 ^= self.0 << 13;
        self.0 ^= self.0 >> 7;
        self.0 ^= self.0 << 17;
        self.0
    }
    fn below(&mut self, n: usize) -> usize {
        (self.next() % n as u64) as usize
    }
}

fn interesting_items() -> Vec<Vec<u8>> {
    let mut items: Vec<Vec<u8>> = vec![
        vec![],
        vec![0x00],
        vec![0x80],
        vec![0x01],
        vec![0x81],
        vec![0x7f],
        vec![0xff],
        vec![0x00, 0x00],
        vec![0x00, 0x80],
        vec![0x80, 0x00],
        vec![0xff, 0xff],
        vec![0xff, 0x7f],
        vec![0x00, 0x00, 0x00, 0x80],
        vec![0xff, 0xff, 0xff, 0x7f],
        vec![0xff, 0xff, 0xff, 0xff],
        vec![0x00, 0x00, 0x00, 0x80, 0x00],
        vec![0x00, 0x00, 0x00, 0x80, 0x80],
        vec![0xff, 0xff, 0xff, 0xff, 0x7f],
        vec![0xff; 8],
        vec![0xff; 9],
        vec![0x00; 33],
        vec![0x02; 33],
        vec![0x30, 0x06, 0x02, 0x01, 0x01, 0x02, 0x01, 0x01, 0x41],
        vec![0x41],
        vec![0xab; 80],
        vec![0xcd; 300],
    ];
    for n in [2i64, 3, 5, 7, 8, 9, 15, 16, 17, 31, 32, 33, 64, 255, 256, 65535, 65536, -1, -2, -8, -255, 2147483647, -2147483647] {
        items.push(num(n));
    }
    items
}

fn random_bits(rng: &mut Rng, ops: &[OpCodes], items: &[Vec<u8>], len: usize, depth: usize) -> Vec<ScriptBit> {
    let mut bits = vec![];
    for _ in 0..len {
        match rng.below(10) {
            0..=3 => bits.push(push(&items[rng.below(items.len())])),
            4..=7 => {
                let o = ops[rng.below(ops.len())];
                match o {
                    // conditionals only as balanced blocks, which is all the parsers produce
                    OpCodes::OP_IF | OpCodes::OP_NOTIF | OpCodes::OP_VERIF | OpCodes::OP_VERNOTIF | OpCodes::OP_ELSE | OpCodes::OP_ENDIF => bits.push(op(OpCodes::OP_NOP)),
                    OpCodes::OP_PUSHDATA1 | OpCodes::OP_PUSHDATA2 | OpCodes::OP_PUSHDATA4 => bits.push(push(&items[rng.below(items.len())])),
                    // OP_NUM2BIN really allocates the length it is given (e03, e06, e22 aim at it); keep random lengths small
                    OpCodes::OP_NUM2BIN => {
                        bits.push(push(&num(rng.below(70) as i64 - 2)));
                        bits.push(op(OpCodes::OP_NUM2BIN));
                    }
                    o => bits.push(op(o)),
                }
            }
            8 if depth > 0 => {
                let code = [OpCodes::OP_IF, OpCodes::OP_NOTIF, OpCodes::OP_IF, OpCodes::OP_NOTIF, OpCodes::OP_VERIF, OpCodes::OP_VERNOTIF][rng.below(6)];
                let pass_len = rng.below(4);
                let pass = random_bits(rng, ops, items, pass_len, depth - 1);
                let fail = match rng.below(2) {
                    0 => None,
                    _ => {
                        let fail_len = rng.below(4);
                        Some(random_bits(rng, ops, items, fail_len, depth - 1))
                    }
                };
                bits.push(ScriptBit::If { code, pass, fail });
            }
            _ => bits.push(push(&num(rng.below(20) as i64 - 3))),
        }
    }
    bits
}

// ================================================================================================
// E1: every opcode value the parser accepts, on stacks of depth 0..=6 made of boundary items
#[test]
fn e01_every_opcode_on_every_small_stack() {
    let items = interesting_items();
    let mut rng = Rng(0x9E3779B97F4A7C15);
    let mut accepted = 0;
    for byte in 0..=255u8 {
        // what the byte parser makes of the single byte (pushes need data, so they are skipped here)
        let parsed = match Script::from_bytes(&[byte]) {
            Ok(s) => s,
            Err(_) => continue,
        };
        accepted += 1;
        let code_bits = parsed.to_script_bits();
        for depth in 0..=6usize {
            for _ in 0..20 {
                let mut stack: Vec<Vec<u8>> = (0..depth).map(|_| items[rng.below(items.len())].clone()).collect();
                // OP_NUM2BIN really makes an item of the requested length: keep the lengths modest here (see e22 for 2^31-1)
                if byte == OpCodes::OP_NUM2BIN as u8 && stack.last().map_or(false, |top| top.len() == 3 || top.len() == 4) {
                    *stack.last_mut().unwrap() = num(300);
                }
                let mut bits: Vec<ScriptBit> = stack.iter().map(|item| push(item)).collect();
                bits.extend(code_bits.clone());
                check_bits(&bits);
            }
        }
    }
    // 0x00, 0x4f..=0xba minus the three OP_PUSHDATAn (need data) and conditionals (unbalanced) ... just sanity
    assert!(accepted > 100, "only {} single byte scripts parse", accepted);
}

// E2: random constructed scripts with nested conditionals, also re-parsed from their bytes
#[test]
fn e02_random_scripts_constructed_and_parsed() {
    let items = interesting_items();
    let ops = all_opcodes();
    let mut rng = Rng(0xDEADBEEFCAFEF00D);
    let mut parsed_ok = 0;
    for i in 0..6000 {
        let len = 1 + rng.below(14);
        let bits = random_bits(&mut rng, &ops, &items, len, 4);
        let built = check_bits(&bits);
        let bytes = Script::from_script_bits(bits.clone()).to_bytes();
        if let Ok(parsed) = Script::from_bytes(&bytes) {
            parsed_ok += 1;
            let reparsed = check_bits(&parsed.to_script_bits());
            // same script text => same result whichever way the object was made
            if parsed.to_script_bits() == bits {
                assert_eq!(built.stacks, reparsed.stacks, "case {}", i);
                assert_eq!(built.error, reparsed.error, "case {}", i);
            }
        }
    }
    assert!(parsed_ok > 3000);
}

// E3: numeric operands of any size and sign for the opcodes that take indices, positions, lengths and shift counts
#[test]
fn e03_huge_and_negative_indices_counts_positions_lengths() {
    use OpCodes::*;
    let operands: Vec<Vec<u8>> = vec![
        num(-1),
        num(-2147483647),
        num(2147483647),
        num(2147483646),
        num(520),
        num(8),
        num(7),
        num(9),
        num(0),
        vec![0x80],
        vec![0x00, 0x00, 0x00, 0x80],
        vec![0x00, 0x00, 0x00, 0x00, 0x01],
        vec![0x00, 0x00, 0x00, 0x80, 0x00],
        vec![0xff; 5],
        vec![0xff; 100],
        vec![0x00; 5],
    ];
    let subjects: Vec<Vec<u8>> = vec![vec![], vec![0x01], vec![0x80], vec![0xff, 0xff], vec![0x12, 0x34, 0x56, 0x78, 0x9a], vec![0xaa; 40]];
    for code in [OP_PICK, OP_ROLL, OP_SPLIT, OP_NUM2BIN, OP_LSHIFT, OP_RSHIFT, OP_CHECKMULTISIG, OP_CHECKMULTISIGVERIFY] {
        for operand in &operands {
            for subject in &subjects {
                // operands above 2^27 would make OP_NUM2BIN allocate that much, which is honest memory use; skip those
                if code == OP_NUM2BIN && (operand == &num(2147483647) || operand == &num(2147483646)) {
                    continue;
                }
                for depth in 0..3 {
                    let mut bits: Vec<ScriptBit> = (0..depth).map(|i| push(&[i as u8 + 1])).collect();
                    bits.push(push(subject));
                    bits.push(push(operand));
                    bits.push(op(code));
                    check_bits(&bits);
                }
            }
        }
    }
}

// E4: hand computed results for indices and positions at the edges
#[test]
fn e04_pick_roll_split_edges_by_hand() {
    // stack a b c, index 2 picks a; index 3 is out of range; index -1 is out of range
    let o = check_asm("0a 0b 0c OP_2 OP_PICK");
    assert_eq!(o.error, None);
    assert_eq!(o.stacks.0, vec![vec![0x0a], vec![0x0b], vec![0x0c], vec![0x0a]]);
    let o = check_asm("0a 0b 0c OP_3 OP_PICK");
    assert!(o.error.is_some());
    assert_eq!(o.stacks.0, vec![vec![0x0a], vec![0x0b], vec![0x0c], vec![0x03]]);
    let o = check_asm("0a 0b 0c OP_1NEGATE OP_ROLL");
    assert!(o.error.is_some());
    assert_eq!(o.stacks.0, vec![vec![0x0a], vec![0x0b], vec![0x0c], vec![0x81]]);
    let o = check_asm("0a 0b 0c OP_2 OP_ROLL");
    assert_eq!(o.stacks.0, vec![vec![0x0b], vec![0x0c], vec![0x0a]]);
    let o = check_asm("0a 0b 0c OP_0 OP_ROLL");
    assert_eq!(o.stacks.0, vec![vec![0x0a], vec![0x0b], vec![0x0c]]);
    // negative zero index is zero
    let o = check_bits(&[push(&[0x0a]), push(&[0x0b]), push(&[0x80]), op(OpCodes::OP_PICK)]);
    assert_eq!(o.stacks.0, vec![vec![0x0a], vec![0x0b], vec![0x0b]]);
    // split at 0, at len, past len
    let o = check_asm("aabbcc OP_0 OP_SPLIT");
    assert_eq!(o.stacks.0, vec![vec![], vec![0xaa, 0xbb, 0xcc]]);
    let o = check_asm("aabbcc OP_3 OP_SPLIT");
    assert_eq!(o.stacks.0, vec![vec![0xaa, 0xbb, 0xcc], vec![]]);
    let o = check_asm("aabbcc OP_4 OP_SPLIT");
    assert!(o.error.is_some());
    assert_eq!(o.stacks.0, vec![vec![0xaa, 0xbb, 0xcc], vec![0x04]]);
    let o = check_asm("OP_0 OP_0 OP_SPLIT");
    assert_eq!(o.stacks.0, vec![Vec::<u8>::new(), Vec::<u8>::new()]);
    // OP_PICK / OP_ROLL with nothing below the index
    let o = check_asm("OP_0 OP_PICK");
    assert!(o.error.is_some());
    assert_eq!(o.stacks.0, vec![Vec::<u8>::new()]);
}

// E5: bit shifts against a bit level reference, counts from 0 to far beyond the width
#[test]
fn e05_shifts_against_bit_reference() {
    fn reference(data: &[u8], n: usize, left: bool) -> Vec<u8> {
        let width = data.len() * 8;
        let bit = |i: usize| (data[i / 8] >> (7 - i % 8)) & 1;
        let mut out = vec![0u8; data.len()];
        for i in 0..width {
            // result bit i (bit 0 is the most significant bit of byte 0)
            let src = if left { i.checked_add(n) } else { i.checked_sub(n) };
            if let Some(s) = src {
                if s < width && bit(s) == 1 {
                    out[i / 8] |= 1 << (7 - i % 8);
                }
            }
        }
        out
    }
    let subjects: Vec<Vec<u8>> = vec![vec![], vec![0x01], vec![0x80], vec![0xff, 0x00, 0xff], vec![0x12, 0x34, 0x56, 0x78, 0x9a, 0xbc, 0xde, 0xf0, 0x0f]];
    for subject in &subjects {
        for n in (0..90usize).chain([255, 256, 65535, 65536, 8388607, 8388608, 2147483647]) {
            for (code, left) in [(OpCodes::OP_LSHIFT, true), (OpCodes::OP_RSHIFT, false)] {
                let o = check_bits(&[push(subject), push(&num(n as i64)), op(code)]);
                assert_eq!(o.error, None, "{:?} {} {:?}", subject, n, code);
                assert_eq!(o.stacks.0, vec![reference(subject, n, left)], "{:?} {} {:?}", subject, n, code);
            }
        }
    }
}

// E6: OP_NUM2BIN lengths around the minimal size, hand computed
#[test]
fn e06_num2bin_lengths() {
    // -128 is 0x80 0x80 minimally; to 3 bytes: 80 00 80
    let o = check_bits(&[push(&[0x80, 0x80]), push(&num(3)), op(OpCodes::OP_NUM2BIN)]);
    assert_eq!(o.stacks.0, vec![vec![0x80, 0x00, 0x80]]);
    // non minimal input 01 00 00 to length 1
    let o = check_bits(&[push(&[0x01, 0x00, 0x00]), push(&num(1)), op(OpCodes::OP_NUM2BIN)]);
    assert_eq!(o.stacks.0, vec![vec![0x01]]);
    // negative zero of 3 bytes to length 0 is the empty string (value zero needs no byte)
    let o = check_bits(&[push(&[0x00, 0x00, 0x80]), op(OpCodes::OP_0), op(OpCodes::OP_NUM2BIN)]);
    assert_eq!(o.error, None);
    assert_eq!(o.stacks.0, vec![Vec::<u8>::new()]);
    // too short
    let o = check_bits(&[push(&[0xff, 0x7f]), push(&num(1)), op(OpCodes::OP_NUM2BIN)]);
    assert!(o.error.is_some());
    assert_eq!(o.stacks.0, vec![vec![0xff, 0x7f], vec![0x01]]);
    // negative length
    let o = check_bits(&[push(&[0x01]), push(&num(-1)), op(OpCodes::OP_NUM2BIN)]);
    assert!(o.error.is_some());
    // a big but harmless length
    let o = check_bits(&[push(&[0x81]), push(&num(1 << 12)), op(OpCodes::OP_NUM2BIN)]);
    assert_eq!(o.error, None);
    let item = &o.stacks.0[0];
    assert_eq!(item.len(), 1 << 12);
    assert_eq!(item[0], 0x01);
    assert_eq!(item[(1 << 12) - 1], 0x80);
    assert!(item[1..(1 << 12) - 1].iter().all(|b| *b == 0));
}

// ================================================================================================
// E7: what happens when a consumer keeps stepping after an error?  The interpreter is an Iterator; the property says
// stepping "terminates after finitely many steps" and "never loops".  Oracle: a script has finitely many elements, so
// an iteration over it must end (yield None) after finitely many calls whatever the outcome of the steps.
#[test]
fn violation_iterating_past_an_error_never_ends() {
    let script = Script::from_asm_string("OP_1 OP_VERIFY OP_VERIFY OP_2").unwrap();
    let elements = written_count(&script.to_script_bits());
    assert_eq!(elements, 4);
    let mut interp = Interpreter::from_script(&script);
    let mut calls = 0usize;
    let mut errors = 0usize;
    // the consumer pattern `for step in interpreter { ... }` / `.count()` / `.last()`, with a generous cap
    let ended = loop {
        calls += 1;
        match interp.next() {
            None => break true,
            Some(Ok(_)) => {}
            Some(Err(_)) => errors += 1,
        }
        if calls >= 100_000 {
            break false;
        }
    };
    assert!(ended, "iteration over a 4 element script did not end within {} calls ({} of them errors); executed_opcodes has grown to {}", calls, errors, interp.state().executed_opcodes.len());
}

// E8: conditionals nested as deep as the parsers allow, taken and not taken, on a small native stack
#[test]
fn e08_nesting_at_the_parser_limit() {
    let handle = std::thread::Builder::new()
        .stack_size(512 * 1024)
        .spawn(|| {
            for depth in [1usize, 2, 500] {
                for taken in [true, false] {
                    // <c> IF <c> IF ... 7 ... ELSE 9 ENDIF ... ELSE 9 ENDIF
                    let cond = if taken { "OP_1" } else { "OP_0" };
                    let mut asm = String::new();
                    for _ in 0..depth {
                        asm.push_str(cond);
                        asm.push_str(" OP_IF ");
                    }
                    asm.push_str("OP_7 ");
                    for _ in 0..depth {
                        asm.push_str("OP_ELSE OP_9 OP_ENDIF ");
                    }
                    let script = Script::from_asm_string(&asm).unwrap();
                    let reparsed = Script::from_bytes(&script.to_bytes()).unwrap();
                    assert_eq!(script, reparsed);
                    let o = check_bits(&script.to_script_bits());
                    assert_eq!(o.error, None);
                    let expected: Vec<Vec<u8>> = if taken { vec![vec![7]] } else { vec![vec![9]] };
                    assert_eq!(o.stacks.0, expected, "depth {} taken {}", depth, taken);
                }
            }
            // one level more is refused by both parsers
            let mut asm = String::new();
            for _ in 0..501 {
                asm.push_str("OP_1 OP_IF ");
            }
            for _ in 0..501 {
                asm.push_str("OP_ENDIF ");
            }
            assert!(Script::from_asm_string(&asm).is_err());
            let bytes: Vec<u8> = std::iter::repeat([0x51u8, 0x63]).take(501).flatten().chain(std::iter::repeat(0x68u8).take(501)).collect();
            assert!(Script::from_bytes(&bytes).is_err());
        })
        .unwrap();
    handle.join().unwrap();
}

// E9: the same nesting built through the constructors (from_script_bits / push), which have no depth limit.
// Run in a child process because a native stack overflow kills the whole process.
fn nested_constructed(depth: usize) -> Script {
    // built iteratively, from the inside out: no recursion on the caller's side
    let mut bits = vec![op(OpCodes::OP_7)];
    for _ in 0..depth {
        bits = vec![op(OpCodes::OP_1), ScriptBit::If { code: OpCodes::OP_IF, pass: bits, fail: None }];
    }
    Script::from_script_bits(bits)
}

fn child(name: &str, var: &str, value: &str) -> std::process::Output {
    std::process::Command::new(std::env::current_exe().unwrap())
        .args(["--exact", name, "--nocapture", "--test-threads=1"])
        .env(var, value)
        .stdout(std::process::Stdio::null())
        .output()
        .unwrap()
}

#[test]
fn violation_deep_constructed_nesting_overflows_the_native_stack() {
    if let Ok(depth) = std::env::var("HUNT_DEEP") {
        let depth: usize = depth.parse().unwrap();
        let script = nested_constructed(depth);
        // the caller never walks the structure recursively: it is leaked at the end, never cloned, printed or dropped
        let script = std::mem::ManuallyDrop::new(script);
        eprintln!("built depth {}", depth);
        let mut interp = std::mem::ManuallyDrop::new(Interpreter::from_script(&script));
        eprintln!("interpreter made");
        let mut steps = 0;
        while let Some(step) = interp.next() {
            // returned states hold no script, dropping them is flat
            step.unwrap();
            steps += 1;
            if steps == 3 {
                break;
            }
        }
        eprintln!("stepped {}", steps);
        std::process::exit(0);
    }
    let mut report = vec![];
    for depth in [500usize, 5_000, 50_000, 500_000] {
        let out = child("violation_deep_constructed_nesting_overflows_the_native_stack", "HUNT_DEEP", &depth.to_string());
        let err = String::from_utf8_lossy(&out.stderr).to_string();
        report.push((depth, out.status, err.lines().filter(|l| l.contains("built") || l.contains("interpreter made") || l.contains("stepped") || l.contains("overflow")).map(|l| l.to_string()).collect::<Vec<_>>()));
    }
    for (depth, status, lines) in &report {
        eprintln!("depth {}: {:?} {:?}", depth, status, lines);
    }
    assert!(report.iter().all(|(_, status, _)| status.success()), "a constructed script made the interpreter overflow the native stack: {:?}", report);
}

// E10: OP_RETURN ends execution wherever it stands, also deep inside taken branches; nothing after it runs
#[test]
fn e10_op_return_inside_branches() {
    let o = check_asm("OP_5 OP_1 OP_IF OP_1 OP_IF OP_6 OP_RETURN OP_ADD OP_ADD OP_ADD OP_ENDIF OP_VERIFY OP_ENDIF OP_VERIFY OP_VERIFY OP_VERIFY");
    assert_eq!(o.error, None);
    assert_eq!(o.stacks.0, vec![vec![5], vec![6]]);
    // not taken: the OP_RETURN is not executed
    let o = check_asm("OP_5 OP_0 OP_IF OP_RETURN OP_ENDIF OP_1ADD");
    assert_eq!(o.error, None);
    assert_eq!(o.stacks.0, vec![vec![6]]);
    // after the end: further steps are None and change nothing
    let script = Script::from_asm_string("OP_1 OP_RETURN OP_DROP OP_DROP").unwrap();
    let mut interp = Interpreter::from_script(&script);
    assert!(interp.next().unwrap().is_ok());
    assert!(interp.next().unwrap().is_ok());
    for _ in 0..5 {
        assert!(interp.next().is_none());
        assert_eq!(interp.state().stack, vec![vec![1u8]]);
    }
    assert!(interp.run().is_ok());
    assert_eq!(interp.state().stack, vec![vec![1u8]]);
    // data after OP_RETURN that is not a well formed script (lenient reading, accepted) still never runs
    let script = Script::from_bytes(&[0x51, 0x6a, 0x05, 0x01, 0x02]).unwrap();
    let o = check_bits(&script.to_script_bits());
    assert_eq!(o.error, None);
    assert_eq!(o.stacks.0, vec![vec![1u8]]);
}

// E11: an interpreter serialised in the middle of a run and read back continues like the original
#[test]
fn e11_serde_round_trip_mid_run() {
    let items = interesting_items();
    let ops = all_opcodes();
    let mut rng = Rng(0x1234567887654321);
    for case in 0..1500 {
        let len = 2 + rng.below(12);
        let bits = random_bits(&mut rng, &ops, &items, len, 3);
        let script = Script::from_script_bits(bits.clone());
        let reference = step_through(Interpreter::from_script(&script), written_count(&bits));
        let k = rng.below(reference.steps + 1);
        let mut interp = Interpreter::from_script(&script);
        for _ in 0..k {
            interp.next().unwrap().unwrap();
        }
        let json = serde_json::to_string(&interp).unwrap();
        let restored: Interpreter = match serde_json::from_str(&json) {
            Ok(v) => v,
            Err(e) => panic!("case {}: interpreter does not survive JSON: {} -- {}", case, e, json),
        };
        assert_eq!(stacks_of(&restored.state()), stacks_of(&interp.state()));
        assert_eq!(restored.script_index(), interp.script_index());
        let rest = step_through(restored, written_count(&bits));
        assert_eq!(rest.stacks, reference.stacks, "case {} {:?}", case, bits);
        assert_eq!(rest.error, reference.error, "case {} {:?}", case, bits);
    }
}

// E18: initial stacks of any depth, injected through the serialised form of a fresh interpreter
#[test]
fn e18_initial_stacks_through_serialised_state() {
    let items = interesting_items();
    let mut rng = Rng(0x0F0F0F0F12345678);
    for code in all_opcodes() {
        if matches!(code, OpCodes::OP_IF | OpCodes::OP_NOTIF | OpCodes::OP_VERIF | OpCodes::OP_VERNOTIF) {
            continue;
        }
        for depth in [0usize, 1, 2, 3, 4, 6, 7, 21] {
            let script = Script::from_script_bits(vec![op(code)]);
            let fresh = Interpreter::from_script(&script);
            let mut value = serde_json::to_value(&fresh).unwrap();
            let stack: Vec<Vec<u8>> = (0..depth).map(|_| items[rng.below(items.len())].clone()).collect();
            let alt: Vec<Vec<u8>> = (0..depth / 2).map(|_| items[rng.below(items.len())].clone()).collect();
            value["state"]["stack"] = serde_json::to_value(&stack).unwrap();
            value["state"]["alt_stack"] = serde_json::to_value(&alt).unwrap();
            let make = || -> Interpreter { serde_json::from_value(value.clone()).unwrap() };
            assert_eq!(stacks_of(&make().state()), (stack.clone(), alt.clone()));
            let o = check_total(&make, 1, &format!("{:?} on {:?}", code, stack));
            if o.error.is_some() {
                assert_eq!(o.stacks, (stack, alt));
            }
        }
    }
}

// E16: stepping a finished interpreter and running twice
#[test]
fn e16_finished_interpreter() {
    let script = Script::from_asm_string("OP_1 OP_2 OP_ADD").unwrap();
    let mut interp = Interpreter::from_script(&script);
    interp.run().unwrap();
    assert_eq!(interp.state().stack, vec![vec![3u8]]);
    interp.run().unwrap();
    assert!(interp.next().is_none());
    assert_eq!(interp.state().stack, vec![vec![3u8]]);
    // the empty script
    let mut interp = Interpreter::from_script(&Script::default());
    assert!(interp.next().is_none());
    interp.run().unwrap();
    assert!(interp.state().stack.is_empty());
}

// E14: elements only the constructors can make
#[test]
fn e14_odd_constructed_elements() {
    use OpCodes::*;
    // a conditional block whose code is not a conditional opcode, a push tagged with a non push opcode,
    // plain OP_IF / OP_ELSE / OP_ENDIF opcodes outside a block, coinbase data in the middle, oversized direct pushes
    let odd: Vec<Vec<ScriptBit>> = vec![
        vec![op(OP_1), ScriptBit::If { code: OP_ADD, pass: vec![op(OP_2)], fail: Some(vec![op(OP_3)]) }],
        vec![ScriptBit::If { code: OP_IF, pass: vec![], fail: None }],
        vec![op(OP_0), ScriptBit::If { code: OP_NOTIF, pass: vec![], fail: Some(vec![]) }, op(OP_DEPTH)],
        vec![ScriptBit::PushData(OP_ADD, vec![1, 2, 3]), ScriptBit::PushData(OP_PUSHDATA4, vec![]), op(OP_CAT)],
        vec![op(OP_1), op(OP_IF), op(OP_2), op(OP_ELSE), op(OP_3), op(OP_ENDIF), op(OP_ENDIF), op(OP_ELSE)],
        vec![op(OP_1), ScriptBit::Coinbase(vec![1, 2, 3]), op(OP_2)],
        vec![ScriptBit::Push(vec![7; 300]), ScriptBit::Push(vec![]), op(OP_SIZE)],
        vec![op(OP_PUSHDATA1), op(OP_PUSHDATA2), op(OP_PUSHDATA4)],
        vec![op(OP_1), op(OP_DATA)],
        vec![op(OP_1), op(OP_INVALIDOPCODE)],
        vec![op(OP_1), op(OP_INVALID_ABOVE)],
    ];
    for bits in &odd {
        check_bits(bits);
    }
    // conditionals with more than one OP_ELSE parse; they must at least execute totally
    for asm in ["OP_1 OP_IF OP_2 OP_ELSE OP_3 OP_ELSE OP_4 OP_ENDIF", "OP_0 OP_IF OP_2 OP_ELSE OP_3 OP_ELSE OP_4 OP_ELSE OP_ENDIF", "OP_ENDIF OP_ELSE OP_1"] {
        check_asm(asm);
    }
    // mutation through push / push_array after construction
    let mut script = Script::from_asm_string("OP_1").unwrap();
    script.push(ScriptBit::If { code: OP_IF, pass: vec![op(OP_5)], fail: None });
    script.push_array(&[op(OP_DUP), op(OP_MUL)]);
    let o = check_bits(&script.to_script_bits());
    assert_eq!(o.stacks.0, vec![vec![25u8]]);
}

// E15: arithmetic on operands far beyond four bytes against num-bigint used directly
#[test]
fn e15_big_number_arithmetic() {
    use num_bigint::{BigInt, Sign};
    fn decode(data: &[u8]) -> BigInt {
        if data.is_empty() {
            return BigInt::from(0);
        }
        let mut d = data.to_vec();
        let neg = d[d.len() - 1] & 0x80 != 0;
        let l = d.len();
        d[l - 1] &= 0x7f;
        BigInt::from_bytes_le(if neg { Sign::Minus } else { Sign::Plus }, &d)
    }
    fn encode(n: &BigInt) -> Vec<u8> {
        if *n == BigInt::from(0) {
            return vec![];
        }
        let (sign, mut bytes) = n.to_bytes_le();
        if bytes[bytes.len() - 1] & 0x80 != 0 {
            bytes.push(if sign == Sign::Minus { 0x80 } else { 0 });
        } else if sign == Sign::Minus {
            let l = bytes.len();
            bytes[l - 1] |= 0x80;
        }
        bytes
    }
    let mut rng = Rng(0xABCDEF0123456789);
    let mut operand = |rng: &mut Rng| -> Vec<u8> {
        let len = [0usize, 1, 2, 4, 5, 8, 9, 33, 100, 300][rng.below(10)];
        let mut v: Vec<u8> = (0..len).map(|_| rng.next() as u8).collect();
        match rng.below(6) {
            0 => v.iter_mut().for_each(|b| *b = 0),
            1 => {
                v.iter_mut().for_each(|b| *b = 0);
                if let Some(l) = v.last_mut() {
                    *l = 0x80
                }
            }
            2 => v.iter_mut().for_each(|b| *b = 0xff),
            _ => {}
        }
        v
    };
    for _ in 0..1000 {
        let a = operand(&mut rng);
        let b = operand(&mut rng);
        let (x, y) = (decode(&a), decode(&b));
        let zero = BigInt::from(0);
        let cases: Vec<(OpCodes, Option<BigInt>)> = vec![
            (OpCodes::OP_ADD, Some(&x + &y)),
            (OpCodes::OP_SUB, Some(&x - &y)),
            (OpCodes::OP_MUL, Some(&x * &y)),
            (OpCodes::OP_DIV, if y == zero { None } else { Some(&x / &y) }),
            (OpCodes::OP_MOD, if y == zero { None } else { Some(&x % &y) }),
            (OpCodes::OP_MIN, Some(std::cmp::min(x.clone(), y.clone()))),
            (OpCodes::OP_MAX, Some(std::cmp::max(x.clone(), y.clone()))),
            (OpCodes::OP_LESSTHAN, Some(BigInt::from((x < y) as u8))),
            (OpCodes::OP_GREATERTHANOREQUAL, Some(BigInt::from((x >= y) as u8))),
            (OpCodes::OP_NUMEQUAL, Some(BigInt::from((x == y) as u8))),
            (OpCodes::OP_BOOLAND, Some(BigInt::from((x != zero && y != zero) as u8))),
        ];
        for (code, expected) in cases {
            let o = check_bits(&[push(&a), push(&b), op(code)]);
            match expected {
                None => {
                    assert!(o.error.is_some());
                    assert_eq!(o.stacks.0, vec![a.clone(), b.clone()]);
                }
                Some(v) => {
                    assert_eq!(o.error, None);
                    assert_eq!(o.stacks.0, vec![encode(&v)], "{:?} {} {}", code, x, y);
                }
            }
        }
        let unary: Vec<(OpCodes, BigInt)> = vec![
            (OpCodes::OP_1ADD, &x + 1),
            (OpCodes::OP_1SUB, &x - 1),
            (OpCodes::OP_NEGATE, -x.clone()),
            (OpCodes::OP_ABS, if x < zero { -x.clone() } else { x.clone() }),
            (OpCodes::OP_NOT, BigInt::from((x == zero) as u8)),
            (OpCodes::OP_0NOTEQUAL, BigInt::from((x != zero) as u8)),
            (OpCodes::OP_BIN2NUM, x.clone()),
            (OpCodes::OP_2MUL, &x * 2),
            (OpCodes::OP_2DIV, &x / 2),
        ];
        for (code, expected) in unary {
            let o = check_bits(&[push(&a), op(code)]);
            assert_eq!(o.error, None);
            assert_eq!(o.stacks.0, vec![encode(&expected)], "{:?} {}", code, x);
        }
    }
}

// ================================================================================================
// Transaction context

const WIF: &str = "L2WAdy8C19GHNtZDSkbsVBJrBaF9XHpPLTgmnc2N5aGyguhJf7zh";
const SIGHASH_BYTES: [u8; 14] = [0x01, 0x02, 0x03, 0x40, 0x80, 0x41, 0x42, 0x43, 0xc1, 0xc2, 0xc3, 0x81, 0x82, 0x83];

fn sample_tx(locking: &Script, outputs: usize) -> Transaction {
    let mut tx = Transaction::new(2, 7);
    for i in 0..2u8 {
        let mut txin = TxIn::new(&[i + 1; 32], i as u32, &Script::default(), Some(0xfffffffe - i as u32));
        txin.set_satoshis(5000 + i as u64);
        txin.set_locking_script(locking);
        tx.add_input(&txin);
    }
    for i in 0..outputs {
        tx.add_output(&TxOut::new(1000 + i as u64, &Script::from_asm_string("OP_DUP OP_HASH160 0102030405060708090a0b0c0d0e0f1011121314 OP_EQUALVERIFY OP_CHECKSIG").unwrap()));
    }
    tx
}

// E12a: a signature made by the signer for input i with every sighash byte the library knows is accepted by the
// interpreter for that input (round trip), through from_transaction and stepping == running
#[test]
fn e12a_every_sighash_byte_round_trips_through_the_interpreter() {
    let key = PrivateKey::from_wif(WIF).unwrap();
    let pubkey = key.to_public_key().unwrap();
    let locking = Script::from_asm_string("OP_CHECKSIG").unwrap();
    for outputs in [0usize, 1, 2] {
        for index in 0..2usize {
            for byte in SIGHASH_BYTES {
                let sighash = SigHash::try_from(byte).unwrap();
                let mut tx = sample_tx(&locking, outputs);
                let signed = tx.sign(&key, sighash, index, &locking, 5000 + index as u64).map(|s| s.to_bytes().unwrap());
                let sig = match signed.as_ref() {
                    Ok(s) => s.clone(),
                    Err(_) => {
                        // only SIGHASH_SINGLE without a matching output may be refused
                        assert!(byte & 0x1f == 0x03 && index >= outputs, "signing refused for {:#x} index {} outputs {}", byte, index, outputs);
                        // whatever is put in place of the signature, the interpreter still answers
                        let mut fake = vec![0x30, 0x06, 0x02, 0x01, 0x01, 0x02, 0x01, 0x01];
                        fake.push(byte);
                        fake
                    }
                };
                let mut txin = tx.get_input(index).unwrap();
                txin.set_unlocking_script(&Script::from_script_bits(vec![push(&sig), push(&pubkey.to_bytes().unwrap())]));
                tx.set_input(index, &txin);
                let make = || Interpreter::from_transaction(&tx, index).unwrap();
                let o = check_total(&make, 3, &format!("sighash {:#x} index {} outputs {}", byte, index, outputs));
                if signed.is_ok() {
                    assert_eq!(o.error, None, "sighash {:#x} index {} outputs {}", byte, index, outputs);
                    assert_eq!(o.stacks.0, vec![vec![1u8]], "sighash {:#x} index {} outputs {}", byte, index, outputs);
                } else {
                    assert!(o.error.is_some());
                    assert_eq!(o.stacks.0.len(), 2);
                }
            }
        }
    }
}

// E12b: random scripts around the signature opcodes with well formed, damaged and absurd signatures, keys and counts
#[test]
fn e12b_random_scripts_with_transaction_context() {
    use OpCodes::*;
    let key = PrivateKey::from_wif(WIF).unwrap();
    let pubkey = key.to_public_key().unwrap();
    let locking = Script::from_asm_string("OP_CHECKSIG").unwrap();
    let mut tx = sample_tx(&locking, 2);
    let mut items: Vec<Vec<u8>> = vec![];
    for byte in SIGHASH_BYTES {
        let sig = tx.sign(&key, SigHash::try_from(byte).unwrap(), 0, &locking, 5000).unwrap().to_bytes().unwrap();
        let mut cut = sig.clone();
        cut.truncate(sig.len() / 2);
        let mut flipped = sig.clone();
        flipped[10] ^= 0x55;
        let mut other_flag = sig.clone();
        *other_flag.last_mut().unwrap() = 0x00;
        let mut long = sig.clone();
        long.extend_from_slice(&[byte; 40]);
        items.extend([sig, cut, flipped, other_flag, long, vec![byte]]);
    }
    let pk = pubkey.to_bytes().unwrap();
    let pk_long = pubkey.to_decompressed().unwrap().to_bytes().unwrap();
    let mut hybrid = pk_long.clone();
    hybrid[0] = 0x06;
    let mut off_curve = pk.clone();
    off_curve[5] ^= 1;
    items.extend([pk.clone(), pk_long.clone(), hybrid, off_curve, vec![0x00], vec![0x05; 33], vec![0x02; 33], vec![0x04; 65], vec![0x02], vec![0x04; 64]]);
    items.extend([vec![], num(1), num(2), num(3), num(-1), num(20), num(21), num(2147483647), vec![0x80], vec![0, 0, 0, 0, 1]]);
    let ops = [OP_CHECKSIG, OP_CHECKSIGVERIFY, OP_CHECKMULTISIG, OP_CHECKMULTISIGVERIFY, OP_CODESEPARATOR, OP_DUP, OP_SWAP, OP_DROP, OP_1, OP_2, OP_0, OP_VERIFY, OP_NOT, OP_RETURN, OP_DEPTH, OP_TOALTSTACK, OP_FROMALTSTACK];
    let mut rng = Rng(0x5151515151515151);
    for case in 0..2500 {
        let len = 2 + rng.below(9);
        let bits = random_bits(&mut rng, &ops, &items, len, 2);
        let index = [0usize, 0, 1, 2, 99][rng.below(5)];
        let bound = written_count(&bits);
        let make = || Interpreter::from_transaction_and_script_bits(tx.clone(), index, bits.clone());
        check_total(&make, bound, &format!("case {} index {} {:?}", case, index, bits));
        if case % 10 == 0 {
            // the serialised interpreter continues to the same result
            let reference = step_through(make(), bound);
            let mut interp = make();
            for _ in 0..reference.steps / 2 {
                interp.next().unwrap().unwrap();
            }
            let restored: Interpreter = serde_json::from_str(&serde_json::to_string(&interp).unwrap()).unwrap();
            let rest = step_through(restored, bound);
            assert_eq!((rest.stacks, rest.error), (reference.stacks, reference.error), "case {} {:?}", case, bits);
        }
    }
}

// E12c: inputs without locking script or satoshis, transactions without inputs, coinbase inputs
#[test]
fn e12c_incomplete_transactions() {
    let key = PrivateKey::from_wif(WIF).unwrap();
    let pk = key.to_public_key().unwrap().to_bytes().unwrap();
    let sig = {
        let locking = Script::from_asm_string("OP_CHECKSIG").unwrap();
        sample_tx(&locking, 1).sign(&key, SigHash::InputsOutputs, 0, &locking, 5000).unwrap().to_bytes().unwrap()
    };
    let bits = vec![push(&sig), push(&pk), op(OpCodes::OP_CHECKSIG)];
    // no inputs at all
    let empty = Transaction::new(1, 0);
    let o = check_total(&|| Interpreter::from_transaction_and_script_bits(empty.clone(), 0, bits.clone()), 3, "empty tx");
    assert!(o.error.is_some());
    assert_eq!(o.stacks.0, vec![sig.clone(), pk.clone()]);
    // input without locking script / without satoshis
    let mut tx = Transaction::new(1, 0);
    tx.add_input(&TxIn::new(&[9; 32], 0, &Script::default(), None));
    let o = check_total(&|| Interpreter::from_transaction_and_script_bits(tx.clone(), 0, bits.clone()), 3, "no locking script");
    assert!(o.error.is_some());
    assert_eq!(o.stacks.0, vec![sig.clone(), pk.clone()]);
    let mut txin = TxIn::new(&[9; 32], 0, &Script::default(), None);
    txin.set_locking_script(&Script::from_asm_string("OP_CHECKSIG").unwrap());
    let mut tx = Transaction::new(1, 0);
    tx.add_input(&txin);
    let o = check_total(&|| Interpreter::from_transaction_and_script_bits(tx.clone(), 0, bits.clone()), 3, "no satoshis");
    assert!(o.error.is_some());
    assert_eq!(o.stacks.0, vec![sig.clone(), pk.clone()]);
    // coinbase input: its script is data, executing it is an error, not a panic
    let coinbase = TxIn::new(&[0; 32], 0xffffffff, &Script::from_coinbase_bytes(&[3, 1, 2, 3, 0xff, 0x4c]).unwrap(), None);
    let mut tx = Transaction::new(1, 0);
    tx.add_input(&coinbase);
    let o = check_total(&|| Interpreter::from_transaction(&tx, 0).unwrap(), 1, "coinbase");
    assert!(o.error.is_some());
    assert!(o.stacks.0.is_empty());
    // odd txid lengths in the outpoint
    let mut txin = TxIn::new(&[9; 5], 0, &Script::default(), None);
    txin.set_locking_script(&Script::from_asm_string("OP_CHECKSIG").unwrap());
    txin.set_satoshis(1);
    let mut tx = Transaction::new(1, 0);
    tx.add_input(&txin);
    for byte in SIGHASH_BYTES {
        let mut s = sig.clone();
        *s.last_mut().unwrap() = byte;
        let bits = vec![push(&s), push(&pk), op(OpCodes::OP_CHECKSIG)];
        let o = check_total(&|| Interpreter::from_transaction_and_script_bits(tx.clone(), 0, bits.clone()), 3, "short txid");
        // SIGHASH_SINGLE without an output is refused, everything else is a wrong signature: false
        if byte & 0x1f == 0x03 {
            assert!(o.error.is_some(), "{:#x}", byte);
        } else {
            assert_eq!(o.error, None, "{:#x}", byte);
            assert_eq!(o.stacks.0, vec![Vec::<u8>::new()], "{:#x}", byte);
        }
    }
}

// E17 (observation, outside the wording of C16 which speaks of stepping and running): building an interpreter for an
// input that does not exist panics instead of returning the Err its signature offers
#[test]
fn e17_from_transaction_with_missing_input_panics() {
    let tx = sample_tx(&Script::from_asm_string("OP_1").unwrap(), 1);
    let result = catch_unwind(AssertUnwindSafe(|| Interpreter::from_transaction(&tx, 2).is_ok()));
    // documented as observed; flip the assertion if this is ever repaired
    assert!(result.is_err(), "from_transaction on a missing input no longer panics");
}

// E19 (observation): cost of stepping grows with the square of the script length (every step clones the script and
// the list of executed opcodes); finite, so not counted as a violation
#[test]
fn e19_stepping_cost_is_quadratic() {
    let mut times = vec![];
    for n in [2_000usize, 4_000, 8_000, 16_000] {
        let script = Script::from_script_bits(vec![op(OpCodes::OP_NOP); n]);
        let mut interp = Interpreter::from_script(&script);
        let start = std::time::Instant::now();
        let mut steps = 0;
        while let Some(step) = interp.next() {
            step.unwrap();
            steps += 1;
        }
        assert_eq!(steps, n);
        times.push((n, start.elapsed().as_millis()));
    }
    eprintln!("stepping cost: {:?}", times);
}

// E12d: the script run for an input is the unlocking script's bytes followed by the locking script's bytes, parsed
// again.  Unlocking scripts built from plain OP_IF / OP_ELSE / OP_ENDIF opcodes make conditionals that span the seam;
// code separators on both sides move the subscript.  All of it must stay total.
#[test]
fn e12d_conditionals_and_code_separators_across_the_seam() {
    use OpCodes::*;
    let key = PrivateKey::from_wif(WIF).unwrap();
    let pk = key.to_public_key().unwrap().to_bytes().unwrap();
    let base_locking = Script::from_asm_string("OP_CHECKSIG").unwrap();
    let sig = sample_tx(&base_locking, 2).sign(&key, SigHash::InputsOutputs, 0, &base_locking, 5000).unwrap().to_bytes().unwrap();
    let items = vec![sig, pk, vec![], num(1), num(2), vec![0x41]];
    let flat_ops = [OP_IF, OP_NOTIF, OP_ELSE, OP_ENDIF, OP_CODESEPARATOR, OP_1, OP_0, OP_DUP, OP_CHECKSIG, OP_VERIF, OP_RETURN];
    let lock_ops = [OP_CHECKSIG, OP_CHECKSIGVERIFY, OP_CODESEPARATOR, OP_CHECKMULTISIG, OP_DUP, OP_DROP, OP_1, OP_0, OP_SWAP, OP_ELSE, OP_ENDIF];
    let mut rng = Rng(0x7777777712121212);
    let mut executed = 0;
    for case in 0..4000 {
        let mut unlocking = vec![];
        for _ in 0..rng.below(7) {
            match rng.below(3) {
                0 => unlocking.push(push(&items[rng.below(items.len())])),
                _ => unlocking.push(op(flat_ops[rng.below(flat_ops.len())])),
            }
        }
        let len = 1 + rng.below(7);
        let mut locking_bits = vec![];
        for _ in 0..len {
            match rng.below(5) {
                0 => locking_bits.push(push(&items[rng.below(items.len())])),
                1 => {
                    let inner = (0..rng.below(3)).map(|_| op(lock_ops[rng.below(9)])).collect();
                    locking_bits.push(ScriptBit::If { code: OP_IF, pass: inner, fail: if rng.below(2) == 0 { None } else { Some(vec![op(OP_CODESEPARATOR)]) } });
                }
                _ => locking_bits.push(op(lock_ops[rng.below(lock_ops.len())])),
            }
        }
        let locking = Script::from_script_bits(locking_bits);
        let mut tx = sample_tx(&locking, 2);
        let mut txin = tx.get_input(0).unwrap();
        txin.set_unlocking_script(&Script::from_script_bits(unlocking.clone()));
        tx.set_input(0, &txin);
        let built = catch_unwind(AssertUnwindSafe(|| Interpreter::from_transaction(&tx, 0).is_ok()));
        match built {
            Err(_) => panic!("case {}: from_transaction panicked for {:?} + {:?}", case, unlocking, locking),
            Ok(false) => continue,
            Ok(true) => {}
        }
        executed += 1;
        let mut bytes = Script::from_script_bits(unlocking.clone()).to_bytes();
        bytes.extend(locking.to_bytes());
        let bound = bytes.len(); // every element takes at least one byte
        check_total(&|| Interpreter::from_transaction(&tx, 0).unwrap(), bound, &format!("case {}: {:?} + {:?}", case, unlocking, locking));
    }
    assert!(executed > 1000, "{}", executed);
}

// E20: the CBOR form of an interpreter in the middle of a run continues like the original
#[test]
fn e20_cbor_round_trip_mid_run() {
    let items = interesting_items();
    let ops = all_opcodes();
    let mut rng = Rng(0x2468135724681357);
    let mut unreadable = 0;
    for case in 0..600 {
        let len = 2 + rng.below(10);
        let bits = random_bits(&mut rng, &ops, &items, len, 3);
        let script = Script::from_script_bits(bits.clone());
        let reference = step_through(Interpreter::from_script(&script), written_count(&bits));
        let mut interp = Interpreter::from_script(&script);
        for _ in 0..reference.steps / 2 {
            interp.next().unwrap().unwrap();
        }
        let mut buffer = vec![];
        ciborium::ser::into_writer(&interp, &mut buffer).unwrap();
        let restored: Interpreter = match ciborium::de::from_reader(&buffer[..]) {
            Ok(v) => v,
            Err(_) => {
                unreadable += 1;
                continue;
            }
        };
        let rest = step_through(restored, written_count(&bits));
        assert_eq!((rest.stacks, rest.error), (reference.stacks, reference.error), "case {} {:?}", case, bits);
    }
    eprintln!("cbor forms that could not be read back: {}", unreadable);
}

// E21 (observation): item sizes double with every OP_DUP OP_CAT (or OP_DUP OP_MUL); the library has no limit on item
// size, so a 50 byte script makes a 16 MiB item (and 2^n in general).  Finite, answered with a state: not a violation.
#[test]
fn e21_doubling_items() {
    let mut bits = vec![push(&[0xab])];
    for _ in 0..24 {
        bits.push(op(OpCodes::OP_DUP));
        bits.push(op(OpCodes::OP_CAT));
    }
    let script = Script::from_script_bits(bits.clone());
    let o = step_through(Interpreter::from_script(&script), written_count(&bits));
    assert_eq!(o.error, None);
    assert_eq!(o.stacks.0.len(), 1);
    assert_eq!(o.stacks.0[0].len(), 1 << 24);
    let mut bits = vec![push(&[0x03])];
    for _ in 0..16 {
        bits.push(op(OpCodes::OP_DUP));
        bits.push(op(OpCodes::OP_MUL));
    }
    let script = Script::from_script_bits(bits.clone());
    let o = step_through(Interpreter::from_script(&script), written_count(&bits));
    assert_eq!(o.error, None);
    // 3^(2^16) has 65536*log2(3) = 103873 bits (+ sign bit) => 12985 bytes
    assert_eq!(o.stacks.0[0].len(), 12985);
}

// E22 (opt-in, needs ~10 GiB): the largest length OP_NUM2BIN can be given, 2^31-1
#[test]
fn e22_num2bin_of_the_largest_length() {
    if std::env::var("HUNT_BIG").is_err() {
        return;
    }
    let bits = vec![push(&[0x81]), push(&num(2147483647)), op(OpCodes::OP_NUM2BIN), op(OpCodes::OP_SIZE), op(OpCodes::OP_NIP)];
    let script = Script::from_script_bits(bits.clone());
    let o = step_through(Interpreter::from_script(&script), written_count(&bits));
    assert_eq!(o.error, None);
    assert_eq!(o.stacks.0, vec![num(2147483647)]);
}

// E23 (observation, environment rather than input): run() and the signature opcodes print to stdout with println!,
// which panics when stdout is a pipe whose reader has gone away (`tool | head -1`).
#[test]
fn e23_run_prints_to_stdout_and_panics_on_a_broken_pipe() {
    if std::env::var("HUNT_PIPE").is_ok() {
        std::thread::sleep(std::time::Duration::from_millis(1500));
        let script = Script::from_asm_string("OP_1 OP_2 OP_ADD").unwrap();
        let stepped = catch_unwind(AssertUnwindSafe(|| Interpreter::from_script(&script).map(|s| s.is_ok()).collect::<Vec<bool>>()));
        let ran = catch_unwind(AssertUnwindSafe(|| Interpreter::from_script(&script).run().is_ok()));
        std::process::exit(match (stepped.is_ok(), ran.is_ok()) {
            (true, true) => 40,
            (true, false) => 41,
            (false, true) => 42,
            (false, false) => 43,
        });
    }
    let mut child = std::process::Command::new(std::env::current_exe().unwrap())
        .args(["--exact", "e23_run_prints_to_stdout_and_panics_on_a_broken_pipe", "--nocapture", "--test-threads=1"])
        .env("HUNT_PIPE", "1")
        .stdout(std::process::Stdio::piped())
        .stderr(std::process::Stdio::null())
        .spawn()
        .unwrap();
    std::thread::sleep(std::time::Duration::from_millis(500));
    drop(child.stdout.take());
    let status = child.wait().unwrap();
    eprintln!("broken pipe child: {:?} (40 = neither panics, 41 = only run() panics)", status.code());
    assert_eq!(status.code(), Some(41), "documented as observed: stepping is silent, run() panics when stdout is gone");
}

// E24: DER signatures with extreme r and s (0, 1, n-1, n, n+1, 2^256-1, padded, negative, empty, wrong lengths)
// and odd public keys: OP_CHECKSIG answers false or an error, never panics
#[test]
fn e24_extreme_signature_encodings() {
    let n = hex::decode("fffffffffffffffffffffffffffffffebaaedce6af48a03bbfd25e8cd0364141").unwrap();
    let mut n_minus_1 = n.clone();
    n_minus_1[31] -= 1;
    let mut n_plus_1 = n.clone();
    n_plus_1[31] += 1;
    let mut with_zero = |v: &Vec<u8>| {
        let mut o = vec![0u8];
        o.extend(v);
        o
    };
    let ints: Vec<Vec<u8>> = vec![
        vec![],
        vec![0x00],
        vec![0x01],
        vec![0x7f],
        vec![0x80],
        vec![0x00, 0x80],
        vec![0x00, 0x00, 0x01],
        with_zero(&n_minus_1),
        with_zero(&n),
        with_zero(&n_plus_1),
        n.clone(),
        with_zero(&vec![0xff; 32]),
        vec![0x7f; 32],
        vec![0x7f; 33],
        with_zero(&vec![0xff; 40]),
    ];
    let key = PrivateKey::from_wif(WIF).unwrap();
    let pubkey = key.to_public_key().unwrap();
    let pk = pubkey.to_bytes().unwrap();
    let pk_long = pubkey.to_decompressed().unwrap().to_bytes().unwrap();
    let mut x_is_p = vec![0x02];
    x_is_p.extend(hex::decode("fffffffffffffffffffffffffffffffffffffffffffffffffffffffefffffc2f").unwrap());
    let mut x_zero_long = vec![0x04];
    x_zero_long.extend(vec![0u8; 64]);
    let keys: Vec<Vec<u8>> = vec![pk, pk_long, x_is_p, x_zero_long, vec![0x00], vec![], vec![0x03; 33]];
    let locking = Script::from_asm_string("OP_CHECKSIG").unwrap();
    let tx = sample_tx(&locking, 2);
    for r in &ints {
        for s in &ints {
            for flag in [0x41u8, 0x01, 0xc3, 0x00] {
                for (fix_len, trailing) in [(true, false), (false, false), (true, true)] {
                    let mut body = vec![0x02, r.len() as u8];
                    body.extend(r);
                    body.extend([0x02, s.len() as u8]);
                    body.extend(s);
                    let mut sig = vec![0x30, if fix_len { body.len() as u8 } else { 0x7f }];
                    sig.extend(body);
                    if trailing {
                        sig.push(0x00);
                    }
                    sig.push(flag);
                    for k in &keys {
                        let bits = vec![push(&sig), push(k), op(OpCodes::OP_CHECKSIG)];
                        let o = check_total(&|| Interpreter::from_transaction_and_script_bits(tx.clone(), 0, bits.clone()), 3, &format!("sig {} key {}", hex::encode(&sig), hex::encode(k)));
                        // nobody signed anything here: never true
                        assert_ne!(o.stacks.0, vec![vec![1u8]], "sig {} key {}", hex::encode(&sig), hex::encode(k));
                    }
                }
            }
        }
    }
}

// E25: scripts straight from random bytes (biased towards opcodes, short pushes and conditionals); whatever parses
// must execute totally, and what the parser made must be what the bytes say (it serialises back to the same bytes)
#[test]
fn e25_scripts_from_random_bytes() {
    let mut rng = Rng(0x6A09E667F3BCC908);
    let mut parsed = 0;
    for _ in 0..30000 {
        let len = 1 + rng.below(24);
        let mut bytes = vec![];
        while bytes.len() < len {
            match rng.below(8) {
                0 => {
                    let n = 1 + rng.below(5);
                    bytes.push(n as u8);
                    for _ in 0..n {
                        bytes.push(rng.next() as u8);
                    }
                }
                1 => bytes.extend([0x63u8, 0x64, 0x67, 0x68, 0x68, 0x65, 0x66, 0x6a][rng.below(8)..][..1].iter()),
                2 => bytes.push(0x4f + rng.below(18) as u8),
                3 => bytes.extend([0x4c, 0x02, rng.next() as u8, rng.next() as u8]),
                4 => bytes.push(rng.next() as u8),
                // OP_NUM2BIN (0x80) only after a small length, see e22
                _ => match 0x61 + rng.below(0xba - 0x61) as u8 {
                    0x80 => bytes.extend([0x01, rng.below(40) as u8, 0x80]),
                    b => bytes.push(b),
                },
            }
        }
        // a raw 0x80 from the "any byte" arm could ask for a huge item: give it a small length too
        let mut safe = vec![];
        for b in bytes {
            if b == 0x80 && safe.len() >= 2 && !(safe[safe.len() - 2] == 0x01 && safe[safe.len() - 1] < 0x40) {
                safe.extend([0x01, 0x09]);
            }
            safe.push(b);
        }
        let script = match Script::from_bytes(&safe) {
            Ok(s) => s,
            Err(_) => continue,
        };
        parsed += 1;
        let bits = script.to_script_bits();
        assert!(written_count(&bits) <= safe.len());
        check_total(&|| Interpreter::from_script(&script), safe.len(), &hex::encode(&safe));
    }
    assert!(parsed > 5000, "{}", parsed);
}
