//! Hunt for violations of property C16 (interpreter totality, stepping == run, stacks after an error).
//!
//! Oracles used here are independent of the library: "no panic" (catch_unwind / child process exit status),
//! hand computed stacks from the Bitcoin SV opcode specification, and the property's own round trip
//! (stepping vs run on the same script, state() after an error vs the last state handed out).
#![allow(clippy::all)]

use bsv::{Hash, Interpreter, OpCodes, PrivateKey, Script, ScriptBit, SigHash, Transaction, TxIn, TxOut};
use num_traits::FromPrimitive;
use std::panic::{catch_unwind, AssertUnwindSafe};

type Stack = Vec<Vec<u8>>;

// ---------------------------------------------------------------------------------------------------------
// helpers
// ---------------------------------------------------------------------------------------------------------

struct Rng(u64);
impl Rng {
    fn new(seed: u64) -> Rng {
        Rng(seed.wrapping_mul(0x9E37_79B9_7F4A_7C15) ^ 0xD1B5_4A32_D192_ED03)
    }
    fn next(&mut self) -> u64 {
        // xorshift64*
        let mut x = self.0;
        x ^= x >> 12;
        x ^= x << 25;
        x ^= x >> 27;
        self.0 = x;
        x.wrapping_mul(0x2545_F491_4F6C_DD1D)
    }
    fn below(&mut self, n: usize) -> usize {
        (self.next() % (n as u64)) as usize
    }
    fn bytes(&mut self, n: usize) -> Vec<u8> {
        (0..n).map(|_| self.next() as u8).collect()
    }
    fn chance(&mut self, percent: usize) -> bool {
        self.below(100) < percent
    }
}

/// Script number encoding (minimal), written from the specification: little endian magnitude, sign in the top bit
/// of the last byte, an extra byte when the top bit of the magnitude is taken, zero is the empty string.
fn num(v: i128) -> Vec<u8> {
    if v == 0 {
        return vec![];
    }
    let neg = v < 0;
    let mut m = v.unsigned_abs();
    let mut out = vec![];
    while m > 0 {
        out.push((m & 0xff) as u8);
        m >>= 8;
    }
    if out.last().unwrap() & 0x80 != 0 {
        out.push(if neg { 0x80 } else { 0 });
    } else if neg {
        *out.last_mut().unwrap() |= 0x80;
    }
    out
}

/// The element that pushes exactly `data` (smallest push opcode that can carry it)
fn push(data: &[u8]) -> ScriptBit {
    match data.len() {
        0 => ScriptBit::OpCode(OpCodes::OP_0),
        1..=75 => ScriptBit::Push(data.to_vec()),
        76..=255 => ScriptBit::PushData(OpCodes::OP_PUSHDATA1, data.to_vec()),
        256..=65535 => ScriptBit::PushData(OpCodes::OP_PUSHDATA2, data.to_vec()),
        _ => ScriptBit::PushData(OpCodes::OP_PUSHDATA4, data.to_vec()),
    }
}

fn op(o: OpCodes) -> ScriptBit {
    ScriptBit::OpCode(o)
}

/// Bytes of a script that pushes `data` (written from the specification of the push opcodes)
fn push_bytes(data: &[u8]) -> Vec<u8> {
    let mut out = vec![];
    match data.len() {
        0 => out.push(0),
        n @ 1..=75 => out.push(n as u8),
        n @ 76..=255 => {
            out.push(0x4c);
            out.push(n as u8)
        }
        n @ 256..=65535 => {
            out.push(0x4d);
            out.extend((n as u16).to_le_bytes())
        }
        n => {
            out.push(0x4e);
            out.extend((n as u32).to_le_bytes())
        }
    }
    out.extend_from_slice(data);
    out
}

#[derive(Debug, Clone, PartialEq)]
struct Trace {
    stack: Stack,
    alt: Stack,
    ok_steps: usize,
    outcome: Result<(), String>,
}

/// Steps an interpreter to its end with `next()`, checking on the way everything C16 says about stepping:
/// finitely many steps, state() after an error is the last state handed out, the iteration ends after the error.
fn step_through(mut it: Interpreter, max_steps: usize) -> Result<Trace, String> {
    let initial = it.state();
    let (mut stack, mut alt) = (initial.stack.clone(), initial.alt_stack.clone());
    let mut ok_steps = 0usize;
    loop {
        if ok_steps > max_steps {
            return Err(format!("more than {} steps: does not terminate", max_steps));
        }
        match it.next() {
            Some(Ok(state)) => {
                ok_steps += 1;
                stack = state.stack.clone();
                alt = state.alt_stack.clone();
                let now = it.state();
                if now.stack != stack || now.alt_stack != alt {
                    return Err(format!("after Ok step {} state() differs from the returned state: returned {:?}/{:?} state() {:?}/{:?}", ok_steps, stack, alt, now.stack, now.alt_stack));
                }
            }
            Some(Err(e)) => {
                let now = it.state();
                if now.stack != stack || now.alt_stack != alt {
                    return Err(format!(
                        "after error '{}' (following {} good steps) the stacks are main {:?} alt {:?}, but the last returned state had main {:?} alt {:?}",
                        e, ok_steps, now.stack, now.alt_stack, stack, alt
                    ));
                }
                for _ in 0..3 {
                    if let Some(again) = it.next() {
                        return Err(format!("after error '{}' next() gave another item: {:?}", e, again.map(|s| s.stack).map_err(|e| e.to_string())));
                    }
                }
                let now = it.state();
                if now.stack != stack || now.alt_stack != alt {
                    return Err(format!("stacks changed by next() after the error '{}': {:?}/{:?} vs {:?}/{:?}", e, now.stack, now.alt_stack, stack, alt));
                }
                return Ok(Trace { stack, alt, ok_steps, outcome: Err(e.to_string()) });
            }
            None => {
                let now = it.state();
                if now.stack != stack || now.alt_stack != alt {
                    return Err(format!("at the end state() {:?}/{:?} differs from the last returned state {:?}/{:?}", now.stack, now.alt_stack, stack, alt));
                }
                for _ in 0..3 {
                    if it.next().is_some() {
                        return Err("next() gave an item after None".into());
                    }
                }
                return Ok(Trace { stack, alt, ok_steps, outcome: Ok(()) });
            }
        }
    }
}

fn run_trace(mut it: Interpreter) -> Trace {
    let outcome = it.run().map_err(|e| e.to_string());
    let s = it.state();
    Trace { stack: s.stack.clone(), alt: s.alt_stack.clone(), ok_steps: 0, outcome }
}

fn same_end(a: &Trace, b: &Trace) -> bool {
    a.stack == b.stack && a.alt == b.alt && a.outcome == b.outcome
}

/// Everything C16 promises for one way of making an interpreter. `with_run` also compares run() and run() from clones
/// taken half way (these print every state, so the fuzzers only do it for a sample).
fn check_total<F: Fn() -> Interpreter>(make: F, with_run: bool) -> Result<Trace, String> {
    let stepped = match catch_unwind(AssertUnwindSafe(|| step_through(make(), 2_000_000))) {
        Ok(r) => r?,
        Err(p) => return Err(format!("PANIC while stepping: {}", panic_text(&p))),
    };
    if with_run {
        let ran = match catch_unwind(AssertUnwindSafe(|| run_trace(make()))) {
            Ok(r) => r,
            Err(p) => return Err(format!("PANIC in run(): {}", panic_text(&p))),
        };
        if !same_end(&stepped, &ran) {
            return Err(format!("stepping ended {:?} but run() ended {:?}", stepped, ran));
        }
        // clone after k good steps and run the clone to the end
        let ks: Vec<usize> = if stepped.ok_steps <= 6 { (0..=stepped.ok_steps).collect() } else { vec![1, stepped.ok_steps / 2, stepped.ok_steps - 1, stepped.ok_steps] };
        for k in ks {
            let res = catch_unwind(AssertUnwindSafe(|| {
                let mut it = make();
                for _ in 0..k {
                    match it.next() {
                        Some(Ok(_)) => {}
                        other => return Err(format!("replay diverged at step {}: {:?}", k, other.map(|r| r.map(|s| s.stack).map_err(|e| e.to_string())))),
                    }
                }
                let cloned = it.clone();
                Ok((run_trace(cloned), run_trace(it)))
            }));
            match res {
                Ok(Ok((from_clone, from_orig))) => {
                    if !same_end(&stepped, &from_clone) || !same_end(&stepped, &from_orig) {
                        return Err(format!("clone after {} steps then run(): {:?}; original then run(): {:?}; pure stepping: {:?}", k, from_clone, from_orig, stepped));
                    }
                }
                Ok(Err(e)) => return Err(e),
                Err(p) => return Err(format!("PANIC in run() of a clone taken after {} steps: {}", k, panic_text(&p))),
            }
        }
    }
    Ok(stepped)
}

fn panic_text(p: &Box<dyn std::any::Any + Send>) -> String {
    if let Some(s) = p.downcast_ref::<&str>() {
        s.to_string()
    } else if let Some(s) = p.downcast_ref::<String>() {
        s.clone()
    } else {
        "<non-string panic>".into()
    }
}

fn check_bits(bits: &[ScriptBit], with_run: bool) -> Result<Trace, String> {
    let bits = bits.to_vec();
    assert!(!risky_allocation_strict(&bits), "test bug: this script could ask OP_NUM2BIN for a huge buffer: {:?}", bits);
    check_total(move || Interpreter::from_script(&Script::from_script_bits(bits.clone())), with_run)
}

fn check_bytes(bytes: &[u8], with_run: bool) -> Option<Result<Trace, String>> {
    let script = match catch_unwind(|| Script::from_bytes(bytes)) {
        Ok(Ok(s)) => s,
        Ok(Err(_)) => return None,
        Err(p) => return Some(Err(format!("PANIC in Script::from_bytes: {}", panic_text(&p)))),
    };
    // OP_NUM2BIN with a huge size is the recorded allocation abort: such scripts are not run here
    if risky_allocation(&script.to_script_bits()) {
        return None;
    }
    Some(check_total(move || Interpreter::from_script(&script), with_run))
}

fn all_opcodes() -> Vec<OpCodes> {
    (0u16..=255).filter_map(|b| OpCodes::from_u8(b as u8)).collect()
}

fn quiet_panics() {
    // the default hook prints a backtrace line for every caught panic: keep the output small
    static ONCE: std::sync::Once = std::sync::Once::new();
    ONCE.call_once(|| {
        let default = std::panic::take_hook();
        std::panic::set_hook(Box::new(move |info| {
            let on_test_thread = std::thread::current().name().map_or(false, |n| n.starts_with("violation_") || n.starts_with("ok_") || n.starts_with("child_"));
            if !on_test_thread {
                default(info);
            } else {
                eprintln!("[panic] {}", info);
            }
        }));
    });
}

/// A menu of interesting stack items: numbers at every boundary, negative zero, non minimal forms, long strings
fn item_menu() -> Vec<Vec<u8>> {
    let mut items: Vec<Vec<u8>> = vec![
        vec![],
        vec![0x80],
        vec![0x00],
        vec![0x00, 0x80],
        vec![0x00, 0x00, 0x00, 0x00, 0x00, 0x00, 0x00, 0x00, 0x80],
        vec![0x01, 0x00, 0x00, 0x00, 0x00],
        vec![0x01, 0x00, 0x00, 0x00, 0x80],
        vec![0xff; 9],
        vec![0xff; 33],
        vec![0x7f; 65],
        vec![0xab; 520],
        vec![0x00; 40],
        vec![0x02; 33],
    ];
    for v in [
        1i128, -1, 2, -2, 3, 7, 8, 9, 16, 17, 127, 128, -127, -128, 255, 256, 32767, 32768, -32768, 8388607, 8388608,
        i32::MAX as i128, i32::MAX as i128 + 1, i32::MIN as i128, i32::MIN as i128 - 1, i32::MIN as i128 + 1,
        u32::MAX as i128, u32::MAX as i128 + 1, i64::MAX as i128, i64::MIN as i128, i64::MAX as i128 + 1, u64::MAX as i128, u64::MAX as i128 + 1,
        -(u64::MAX as i128) - 1, i128::MAX, -i128::MAX,
    ] {
        items.push(num(v));
    }
    items
}

// ---------------------------------------------------------------------------------------------------------
// 1. every opcode value, every stack depth, a menu of operands
// ---------------------------------------------------------------------------------------------------------

#[test]
fn ok_every_opcode_byte_parsed_from_bytes_over_many_stacks() {
    quiet_panics();
    let menu = item_menu();
    let mut rng = Rng::new(1);
    let mut failures = vec![];
    let mut parsed = 0;
    for byte in 0u16..=255 {
        let byte = byte as u8;
        for depth in 0..=7usize {
            for round in 0..12 {
                let mut bytes = vec![];
                let mut desc = vec![];
                for _ in 0..depth {
                    let item = menu[rng.below(menu.len())].clone();
                    bytes.extend(push_bytes(&item));
                    desc.push(hex::encode(&item));
                }
                if byte == 0x80 {
                    // OP_NUM2BIN: a small size on top (huge sizes are the recorded allocation abort)
                    bytes.extend(push_bytes(&num(rng.below(12) as i128 - 2)));
                }
                bytes.push(byte);
                // give push opcodes something to push, conditionals something to close
                if byte >= 1 && byte <= 0x4e {
                    bytes.extend(vec![0u8; 80]);
                }
                if matches!(byte, 0x63 | 0x64 | 0x65 | 0x66) {
                    bytes.extend([0x51, 0x68]);
                }
                match check_bytes(&bytes, round == 0) {
                    None => {}
                    Some(Ok(_)) => parsed += 1,
                    Some(Err(e)) => failures.push(format!("opcode 0x{:02x} on stack [{}]: {}", byte, desc.join(" "), e)),
                }
            }
        }
    }
    assert!(parsed > 10_000, "too few scripts parsed: {}", parsed);
    assert!(failures.is_empty(), "{} failures, first: {:#?}", failures.len(), &failures[..failures.len().min(5)]);
}

#[test]
fn ok_every_opcode_variant_element_built_over_many_stacks() {
    quiet_panics();
    let menu = item_menu();
    let mut rng = Rng::new(2);
    let mut failures = vec![];
    for code in all_opcodes() {
        for depth in 0..=7usize {
            for round in 0..10 {
                let mut bits = vec![];
                for _ in 0..depth {
                    // element-built pushes may use any of the push forms, whatever the size
                    let item = menu[rng.below(menu.len())].clone();
                    bits.push(match rng.below(4) {
                        0 => ScriptBit::Push(item),
                        1 => ScriptBit::PushData(OpCodes::OP_PUSHDATA1, item),
                        2 => ScriptBit::PushData(OpCodes::OP_PUSHDATA4, item),
                        _ => push(&item),
                    });
                }
                if code == OpCodes::OP_NUM2BIN {
                    bits.push(push(&num(rng.below(12) as i128 - 2)));
                }
                bits.push(op(code));
                if let Err(e) = check_bits(&bits, round == 0) {
                    failures.push(format!("{:?} after {} pushes {:?}: {}", code, depth, &bits[..depth], e));
                }
            }
        }
    }
    assert!(failures.is_empty(), "{} failures, first: {:#?}", failures.len(), &failures[..failures.len().min(5)]);
}

// ---------------------------------------------------------------------------------------------------------
// 2. index, position, size and count operands with hand computed results
// ---------------------------------------------------------------------------------------------------------

fn run_asm_like(bits: Vec<ScriptBit>) -> Trace {
    check_bits(&bits, true).unwrap_or_else(|e| panic!("C16 check failed for {:?}: {}", bits, e))
}

#[test]
fn ok_pick_roll_operands() {
    quiet_panics();
    let base = |n: Vec<u8>, code: OpCodes| vec![push(b"a"), push(b"b"), push(b"c"), push(&n), op(code)];
    // in range
    let t = run_asm_like(base(num(0), OpCodes::OP_PICK));
    assert_eq!((t.outcome.clone(), t.stack), (Ok(()), vec![b"a".to_vec(), b"b".to_vec(), b"c".to_vec(), b"c".to_vec()]));
    let t = run_asm_like(base(num(2), OpCodes::OP_PICK));
    assert_eq!((t.outcome.clone(), t.stack), (Ok(()), vec![b"a".to_vec(), b"b".to_vec(), b"c".to_vec(), b"a".to_vec()]));
    let t = run_asm_like(base(num(2), OpCodes::OP_ROLL));
    assert_eq!((t.outcome.clone(), t.stack), (Ok(()), vec![b"b".to_vec(), b"c".to_vec(), b"a".to_vec()]));
    // non minimal 2 = 02 00 00 00 00 00
    let t = run_asm_like(base(vec![2, 0, 0, 0, 0, 0], OpCodes::OP_ROLL));
    assert_eq!((t.outcome.clone(), t.stack), (Ok(()), vec![b"b".to_vec(), b"c".to_vec(), b"a".to_vec()]));
    // negative zero is zero
    let t = run_asm_like(base(vec![0x80], OpCodes::OP_ROLL));
    assert_eq!((t.outcome.clone(), t.stack), (Ok(()), vec![b"a".to_vec(), b"b".to_vec(), b"c".to_vec()]));
    // out of range: every one of these must be an error that leaves a b c n on the stack
    for n in [3i128, -1, -3, 4, i32::MAX as i128, i32::MAX as i128 + 1, i32::MIN as i128, i32::MIN as i128 - 1, u32::MAX as i128, u32::MAX as i128 + 1, u32::MAX as i128 + 3, i64::MAX as i128, i64::MIN as i128, u64::MAX as i128 + 1, u64::MAX as i128 + 3, i128::MAX, -i128::MAX] {
        for code in [OpCodes::OP_PICK, OpCodes::OP_ROLL] {
            let t = run_asm_like(base(num(n), code));
            assert!(t.outcome.is_err(), "{:?} with index {} should fail, got stack {:?}", code, n, t.stack);
            assert_eq!(t.stack, vec![b"a".to_vec(), b"b".to_vec(), b"c".to_vec(), num(n)], "{:?} {}", code, n);
        }
    }
    // the index is the only item
    for code in [OpCodes::OP_PICK, OpCodes::OP_ROLL] {
        let t = run_asm_like(vec![push(&num(0)), op(code)]);
        assert!(t.outcome.is_err());
        let t = run_asm_like(vec![op(code)]);
        assert!(t.outcome.is_err());
    }
}

#[test]
fn ok_split_operands() {
    quiet_panics();
    let base = |x: &[u8], n: Vec<u8>| vec![push(x), push(&n), op(OpCodes::OP_SPLIT)];
    let t = run_asm_like(base(b"abcd", num(0)));
    assert_eq!((t.outcome.clone(), t.stack), (Ok(()), vec![vec![], b"abcd".to_vec()]));
    let t = run_asm_like(base(b"abcd", num(4)));
    assert_eq!((t.outcome.clone(), t.stack), (Ok(()), vec![b"abcd".to_vec(), vec![]]));
    let t = run_asm_like(base(b"abcd", num(1)));
    assert_eq!((t.outcome.clone(), t.stack), (Ok(()), vec![b"a".to_vec(), b"bcd".to_vec()]));
    let t = run_asm_like(base(b"", num(0)));
    assert_eq!((t.outcome.clone(), t.stack), (Ok(()), vec![vec![], vec![]]));
    let t = run_asm_like(base(b"", vec![0x80]));
    assert_eq!((t.outcome.clone(), t.stack), (Ok(()), vec![vec![], vec![]]));
    for n in [5i128, -1, -4, i32::MAX as i128, i32::MAX as i128 + 1, i32::MIN as i128, u32::MAX as i128 + 1, u32::MAX as i128 + 2, u64::MAX as i128 + 1, u64::MAX as i128 + 2, -(u64::MAX as i128) - 2, i128::MAX] {
        let t = run_asm_like(base(b"abcd", num(n)));
        assert!(t.outcome.is_err(), "split at {} should fail, got {:?}", n, t.stack);
        assert_eq!(t.stack, vec![b"abcd".to_vec(), num(n)]);
    }
    // 2^32 + 1 must not wrap to 1, 2^64 + 1 must not wrap to 1
    let t = run_asm_like(base(b"abcd", num((1i128 << 32) + 1)));
    assert!(t.outcome.is_err());
    let t = run_asm_like(base(b"abcd", num((1i128 << 64) + 1)));
    assert!(t.outcome.is_err());
}

/// Reference shift written from the BSV specification: the operand is a bit string, byte 0 most significant,
/// length preserved, zero fill.
fn ref_shift(data: &[u8], n: u128, left: bool) -> Vec<u8> {
    let bits: Vec<bool> = data.iter().flat_map(|b| (0..8).rev().map(move |i| b >> i & 1 == 1)).collect();
    let len = bits.len();
    let mut out = vec![false; len];
    for i in 0..len {
        let src: Option<usize> = if left { (i as u128).checked_add(n).filter(|s| *s < len as u128).map(|s| s as usize) } else { (i as u128).checked_sub(n).map(|s| s as usize) };
        if let Some(s) = src {
            out[i] = bits[s];
        }
    }
    out.chunks(8).map(|c| c.iter().fold(0u8, |a, b| a << 1 | *b as u8)).collect()
}

#[test]
fn ok_shift_counts() {
    quiet_panics();
    let mut rng = Rng::new(3);
    let counts: Vec<i128> = vec![0, 1, 7, 8, 9, 15, 16, 17, 63, 64, 65, 71, 72, 73, 1000, i32::MAX as i128, i32::MAX as i128 + 1, u32::MAX as i128, u32::MAX as i128 + 1, (1i128 << 32) + 8, u64::MAX as i128, (1i128 << 64) + 8, i128::MAX];
    for len in [0usize, 1, 2, 3, 8, 9, 33] {
        for _ in 0..4 {
            let data = rng.bytes(len);
            for &n in &counts {
                for (code, left) in [(OpCodes::OP_LSHIFT, true), (OpCodes::OP_RSHIFT, false)] {
                    let t = run_asm_like(vec![push(&data), push(&num(n)), op(code)]);
                    assert_eq!(t.outcome, Ok(()), "{:?} of {} by {}", code, hex::encode(&data), n);
                    assert_eq!(t.stack, vec![ref_shift(&data, n as u128, left)], "{:?} of {} by {}", code, hex::encode(&data), n);
                }
            }
            for n in [-1i128, -8, i32::MIN as i128, i32::MIN as i128 - 1, -(1i128 << 32), -(1i128 << 64) - 1, -i128::MAX] {
                for code in [OpCodes::OP_LSHIFT, OpCodes::OP_RSHIFT] {
                    let t = run_asm_like(vec![push(&data), push(&num(n)), op(code)]);
                    assert!(t.outcome.is_err(), "{:?} by {} should fail", code, n);
                    assert_eq!(t.stack, vec![data.clone(), num(n)]);
                }
            }
        }
    }
}

#[test]
fn ok_num2bin_bin2num_small_sizes() {
    quiet_panics();
    let nb = |x: &[u8], n: Vec<u8>| run_asm_like(vec![push(x), push(&n), op(OpCodes::OP_NUM2BIN)]);
    assert_eq!(nb(&[], num(0)).stack, vec![Vec::<u8>::new()]);
    assert_eq!(nb(&[0x80], num(0)).stack, vec![Vec::<u8>::new()]);
    assert_eq!(nb(&[0x00, 0x00, 0x80], num(0)).stack, vec![Vec::<u8>::new()]);
    assert_eq!(nb(&[], num(3)).stack, vec![vec![0, 0, 0]]);
    assert_eq!(nb(&[0x81], num(1)).stack, vec![vec![0x81]]);
    assert_eq!(nb(&[0x81], num(3)).stack, vec![vec![0x01, 0x00, 0x80]]);
    assert_eq!(nb(&[0x01, 0x00, 0x00, 0x80], num(2)).stack, vec![vec![0x01, 0x80]]);
    assert_eq!(nb(&[0x80, 0x00], num(2)).stack, vec![vec![0x80, 0x00]]);
    assert_eq!(nb(&[0x80, 0x80], num(3)).stack, vec![vec![0x80, 0x00, 0x80]]);
    for (x, n) in [(vec![0x80u8, 0x00], 1i128), (vec![1], 0), (vec![1], -1), (vec![1], i32::MIN as i128), (vec![1], -(1i128 << 40)), (vec![], -1)] {
        let t = nb(&x, num(n));
        assert!(t.outcome.is_err(), "NUM2BIN {} {} should fail, got {:?}", hex::encode(&x), n, t.stack);
        assert_eq!(t.stack, vec![x.clone(), num(n)]);
    }
    let bn = |x: &[u8]| run_asm_like(vec![push(x), op(OpCodes::OP_BIN2NUM)]);
    assert_eq!(bn(&[0x80]).stack, vec![Vec::<u8>::new()]);
    assert_eq!(bn(&[0x00; 40]).stack, vec![Vec::<u8>::new()]);
    assert_eq!(bn(&[0x01, 0x00, 0x00, 0x80]).stack, vec![vec![0x81]]);
    assert_eq!(bn(&[0xff, 0x00, 0x00, 0x80]).stack, vec![vec![0xff, 0x80]]);
    let mut long = vec![0xffu8; 600];
    long.push(0x00);
    long.push(0x00);
    let mut want = vec![0xffu8; 600];
    want.push(0);
    assert_eq!(bn(&long).stack, vec![want]);
}

// ---------------------------------------------------------------------------------------------------------
// 3. arithmetic on operands of any size and sign, against num-bigint used directly (not through the library)
// ---------------------------------------------------------------------------------------------------------

fn to_big(data: &[u8]) -> num_bigint::BigInt {
    // specification: little endian sign-magnitude
    if data.is_empty() {
        return 0.into();
    }
    let mut d = data.to_vec();
    let neg = d[d.len() - 1] & 0x80 != 0;
    let l = d.len();
    d[l - 1] &= 0x7f;
    let m = num_bigint::BigInt::from_bytes_le(num_bigint::Sign::Plus, &d);
    if neg {
        -m
    } else {
        m
    }
}

fn from_big(v: &num_bigint::BigInt) -> Vec<u8> {
    use num_bigint::Sign;
    if v.sign() == Sign::NoSign {
        return vec![];
    }
    let (sign, mut b) = v.to_bytes_le();
    if b.last().unwrap() & 0x80 != 0 {
        b.push(if sign == Sign::Minus { 0x80 } else { 0 });
    } else if sign == Sign::Minus {
        *b.last_mut().unwrap() |= 0x80;
    }
    b
}

#[test]
fn ok_arithmetic_any_size_and_sign() {
    quiet_panics();
    let mut rng = Rng::new(4);
    let menu = item_menu();
    let mut operands: Vec<Vec<u8>> = menu.clone();
    for len in [1usize, 4, 5, 8, 9, 31, 32, 33, 100, 519, 520, 1000] {
        for _ in 0..3 {
            operands.push(rng.bytes(len));
        }
    }
    let binary = [OpCodes::OP_ADD, OpCodes::OP_SUB, OpCodes::OP_MUL, OpCodes::OP_DIV, OpCodes::OP_MOD, OpCodes::OP_MIN, OpCodes::OP_MAX];
    for _ in 0..3000 {
        let a = operands[rng.below(operands.len())].clone();
        let b = operands[rng.below(operands.len())].clone();
        let code = binary[rng.below(binary.len())];
        let (x, y) = (to_big(&a), to_big(&b));
        let zero = num_bigint::BigInt::from(0);
        let want: Option<num_bigint::BigInt> = match code {
            OpCodes::OP_ADD => Some(&x + &y),
            OpCodes::OP_SUB => Some(&x - &y),
            OpCodes::OP_MUL => Some(&x * &y),
            // truncation towards zero, remainder takes the sign of the dividend (BSV specification of OP_DIV / OP_MOD)
            OpCodes::OP_DIV => (y != zero).then(|| &x / &y),
            OpCodes::OP_MOD => (y != zero).then(|| &x % &y),
            OpCodes::OP_MIN => Some(x.clone().min(y.clone())),
            _ => Some(x.clone().max(y.clone())),
        };
        let t = check_bits(&[push(&a), push(&b), op(code)], false).unwrap_or_else(|e| panic!("{:?} {} {}: {}", code, hex::encode(&a), hex::encode(&b), e));
        match want {
            Some(w) => assert_eq!((t.outcome.clone(), t.stack), (Ok(()), vec![from_big(&w)]), "{:?} {} {}", code, hex::encode(&a), hex::encode(&b)),
            None => {
                assert!(t.outcome.is_err());
                assert_eq!(t.stack, vec![a.clone(), b.clone()]);
            }
        }
    }
    let unary = [OpCodes::OP_1ADD, OpCodes::OP_1SUB, OpCodes::OP_NEGATE, OpCodes::OP_ABS, OpCodes::OP_2MUL, OpCodes::OP_2DIV, OpCodes::OP_NOT, OpCodes::OP_0NOTEQUAL];
    for a in &operands {
        for code in unary {
            let x = to_big(a);
            let zero = num_bigint::BigInt::from(0);
            let want = match code {
                OpCodes::OP_1ADD => from_big(&(&x + 1)),
                OpCodes::OP_1SUB => from_big(&(&x - 1)),
                OpCodes::OP_NEGATE => from_big(&(-&x)),
                OpCodes::OP_ABS => from_big(&(if x < zero { -&x } else { x.clone() })),
                OpCodes::OP_2MUL => from_big(&(&x * 2)),
                OpCodes::OP_2DIV => from_big(&(&x / 2)),
                OpCodes::OP_NOT => {
                    if x == zero {
                        vec![1]
                    } else {
                        vec![]
                    }
                }
                _ => {
                    if x != zero {
                        vec![1]
                    } else {
                        vec![]
                    }
                }
            };
            let t = check_bits(&[push(a), op(code)], false).unwrap_or_else(|e| panic!("{:?} {}: {}", code, hex::encode(a), e));
            assert_eq!((t.outcome.clone(), t.stack), (Ok(()), vec![want]), "{:?} {}", code, hex::encode(a));
        }
    }
}

// ---------------------------------------------------------------------------------------------------------
// 4. fuzzing: random byte strings, random opcode programs, random element-built scripts
// ---------------------------------------------------------------------------------------------------------

fn random_item(rng: &mut Rng, menu: &[Vec<u8>]) -> Vec<u8> {
    match rng.below(10) {
        0..=3 => num(rng.below(12) as i128 - 3),
        4..=6 => menu[rng.below(menu.len())].clone(),
        7 => {
            let n = rng.below(6);
            rng.bytes(n)
        }
        8 => {
            let n = rng.below(90);
            rng.bytes(n)
        }
        _ => vec![],
    }
}

#[test]
fn ok_fuzz_random_bytes_parsed() {
    quiet_panics();
    let mut rng = Rng::new(5);
    let mut failures = vec![];
    let mut parsed = 0usize;
    for i in 0..200_000 {
        let len = rng.below(24);
        let mut bytes = rng.bytes(len);
        // bias away from the unknown opcodes 0xba..0xfa and from big pushes so that more strings parse and run
        for b in bytes.iter_mut() {
            if (*b >= 0xba && *b <= 0xfa) || (*b >= 6 && *b <= 0x4e) {
                if rng.chance(85) {
                    *b = 0x4f + rng.below(0xb9 - 0x4f) as u8;
                }
            }
        }
        match check_bytes(&bytes, i % 40 == 0) {
            None => {}
            Some(Ok(_)) => parsed += 1,
            Some(Err(e)) => failures.push(format!("script {}: {}", hex::encode(&bytes), e)),
        }
    }
    assert!(parsed > 50_000, "too few parsed: {}", parsed);
    assert!(failures.is_empty(), "{} failures, first: {:#?}", failures.len(), &failures[..failures.len().min(5)]);
}

fn random_program(rng: &mut Rng, menu: &[Vec<u8>], codes: &[OpCodes]) -> Vec<ScriptBit> {
    let mut bits = vec![];
    let pushes = rng.below(9);
    for _ in 0..pushes {
        bits.push(push(&random_item(rng, menu)));
    }
    let ops = 1 + rng.below(10);
    for _ in 0..ops {
        if rng.chance(30) {
            bits.push(push(&random_item(rng, menu)));
        } else {
            bits.push(op(codes[rng.below(codes.len())]));
        }
    }
    bits
}

#[test]
fn ok_fuzz_random_programs_as_bytes_and_as_elements() {
    quiet_panics();
    let mut rng = Rng::new(6);
    let menu = item_menu();
    // everything except the opcodes that need a transaction and the plain always-failing ones gets more weight
    // OP_PUSHDATAn as a bare opcode element is a different script once written to bytes: not part of the route comparison
    let mut codes: Vec<OpCodes> = all_opcodes().into_iter().filter(|c| !matches!(c, OpCodes::OP_PUSHDATA1 | OpCodes::OP_PUSHDATA2 | OpCodes::OP_PUSHDATA4)).collect();
    let lively: Vec<OpCodes> = codes
        .iter()
        .cloned()
        .filter(|c| {
            let b = *c as u8;
            (b >= 0x51 && b <= 0x60) || (b >= 0x6b && b <= 0xab && ![0x89u8, 0x8a].contains(&b)) || b == 0x61
        })
        .collect();
    for _ in 0..4 {
        codes.extend(lively.clone());
    }
    // conditionals: more of them
    for _ in 0..6 {
        codes.extend([OpCodes::OP_IF, OpCodes::OP_NOTIF, OpCodes::OP_ELSE, OpCodes::OP_ENDIF, OpCodes::OP_ENDIF, OpCodes::OP_RETURN]);
    }
    let mut failures = vec![];
    let mut outcomes_ok = 0usize;
    for i in 0..150_000 {
        let bits = random_program(&mut rng, &menu, &codes);
        // NUM2BIN with a huge size is the recorded allocation abort: keep sizes small by skipping such programs
        if risky_allocation(&bits) {
            continue;
        }
        let with_run = i % 50 == 0;
        let built = check_bits(&bits, with_run);
        match &built {
            Ok(t) => {
                if t.outcome.is_ok() {
                    outcomes_ok += 1
                }
            }
            Err(e) => failures.push(format!("element-built {:?}: {}", bits, e)),
        }
        // the same program read from its bytes must behave the same way (when it parses)
        let bytes = Script::from_script_bits(bits.clone()).to_bytes();
        if let Some(parsed) = check_bytes(&bytes, false) {
            match (&built, &parsed) {
                (Ok(a), Ok(b)) => {
                    if !same_end(a, b) {
                        // not a C16 matter on its own (that is C14), but stepping/total-ness should not depend on the route
                        failures.push(format!("routes differ for {}: built {:?} parsed {:?}", hex::encode(&bytes), a, b));
                    }
                }
                (_, Err(e)) => failures.push(format!("parsed {}: {}", hex::encode(&bytes), e)),
                _ => {}
            }
        }
    }
    assert!(outcomes_ok > 1000, "fuzzer too weak: only {} programs ran to the end", outcomes_ok);
    assert!(failures.is_empty(), "{} failures, first: {:#?}", failures.len(), &failures[..failures.len().min(5)]);
}

/// True when OP_NUM2BIN is directly preceded by a push of a number above 100 000 (only used to catch test bugs)
fn risky_allocation_strict(bits: &[ScriptBit]) -> bool {
    bits.windows(2).any(|w| match (&w[0], &w[1]) {
        (ScriptBit::Push(d) | ScriptBit::PushData(_, d), ScriptBit::OpCode(OpCodes::OP_NUM2BIN)) => to_big(d) > num_bigint::BigInt::from(100_000),
        _ => false,
    })
}

/// True when the program could ask OP_NUM2BIN for a large buffer (recorded, known) - a conservative syntactic test
fn risky_allocation(bits: &[ScriptBit]) -> bool {
    fn any(bits: &[ScriptBit], f: &dyn Fn(&ScriptBit) -> bool) -> bool {
        bits.iter().any(|b| match b {
            ScriptBit::If { pass, fail, .. } => any(pass, f) || fail.as_ref().map_or(false, |x| any(x, f)),
            o => f(o),
        })
    }
    let has_num2bin = any(bits, &|b| matches!(b, ScriptBit::OpCode(OpCodes::OP_NUM2BIN)));
    let big_number = any(bits, &|b| match b {
        ScriptBit::Push(d) | ScriptBit::PushData(_, d) | ScriptBit::Coinbase(d) => d.len() >= 3,
        _ => false,
    });
    let grows = any(bits, &|b| matches!(b, ScriptBit::OpCode(OpCodes::OP_MUL | OpCodes::OP_CAT | OpCodes::OP_LSHIFT | OpCodes::OP_2MUL | OpCodes::OP_ADD | OpCodes::OP_INVERT | OpCodes::OP_SIZE | OpCodes::OP_SUB | OpCodes::OP_NEGATE | OpCodes::OP_BIN2NUM | OpCodes::OP_SHA256 | OpCodes::OP_HASH256 | OpCodes::OP_SHA1 | OpCodes::OP_RIPEMD160 | OpCodes::OP_HASH160 | OpCodes::OP_SPLIT | OpCodes::OP_AND | OpCodes::OP_OR | OpCodes::OP_XOR | OpCodes::OP_RSHIFT)));
    has_num2bin && (big_number || grows)
}

fn random_element(rng: &mut Rng, menu: &[Vec<u8>], codes: &[OpCodes], depth: usize) -> ScriptBit {
    match rng.below(20) {
        0..=7 => op(codes[rng.below(codes.len())]),
        8..=11 => push(&random_item(rng, menu)),
        12 => ScriptBit::Push(random_item(rng, menu)),
        13 => ScriptBit::PushData(codes[rng.below(codes.len())], random_item(rng, menu)),
        14 => ScriptBit::Coinbase(random_item(rng, menu)),
        15..=18 if depth < 4 => {
            let n = rng.below(4);
            let pass = (0..n).map(|_| random_element(rng, menu, codes, depth + 1)).collect();
            let fail = if rng.chance(50) {
                let n = rng.below(4);
                Some((0..n).map(|_| random_element(rng, menu, codes, depth + 1)).collect())
            } else {
                None
            };
            // mostly a sensible code, sometimes any opcode at all
            let code = if rng.chance(80) { [OpCodes::OP_IF, OpCodes::OP_NOTIF, OpCodes::OP_VERIF, OpCodes::OP_VERNOTIF][rng.below(4)] } else { codes[rng.below(codes.len())] };
            ScriptBit::If { code, pass, fail }
        }
        _ => op([OpCodes::OP_IF, OpCodes::OP_NOTIF, OpCodes::OP_ELSE, OpCodes::OP_ENDIF, OpCodes::OP_RETURN, OpCodes::OP_1, OpCodes::OP_0][rng.below(7)]),
    }
}

#[test]
fn ok_fuzz_element_built_odd_shapes() {
    quiet_panics();
    let mut rng = Rng::new(7);
    let menu = item_menu();
    let codes = all_opcodes();
    let mut failures = vec![];
    for i in 0..120_000 {
        let n = rng.below(10);
        let bits: Vec<ScriptBit> = (0..n).map(|_| random_element(&mut rng, &menu, &codes, 0)).collect();
        if risky_allocation(&bits) {
            continue;
        }
        // three construction routes: from_script_bits, push one by one, push_array
        let route = i % 3;
        let bits2 = bits.clone();
        let make = move || {
            let script = match route {
                0 => Script::from_script_bits(bits2.clone()),
                1 => {
                    let mut s = Script::default();
                    for b in &bits2 {
                        s.push(b.clone());
                    }
                    s
                }
                _ => {
                    let mut s = Script::default();
                    s.push_array(&bits2);
                    s
                }
            };
            Interpreter::from_script(&script)
        };
        if let Err(e) = check_total(make, i % 40 == 0) {
            failures.push(format!("{:?}: {}", bits, e));
        }
    }
    assert!(failures.is_empty(), "{} failures, first: {:#?}", failures.len(), &failures[..failures.len().min(5)]);
}

// ---------------------------------------------------------------------------------------------------------
// 5. interpreters built from transactions
// ---------------------------------------------------------------------------------------------------------

const WIF1: &str = "L2WAdy8C19GHNtZDSkbsVBJrBaF9XHpPLTgmnc2N5aGyguhJf7zh";
const WIF2: &str = "Kz859spUJBWUBTYqesPMbW1kmFZ7BisBSJckSVYthvvFZ8cRnaPd";

fn base_tx(n_inputs: usize, n_outputs: usize, locking: Option<&Script>, satoshis: Option<u64>, unlocking: &Script) -> Transaction {
    let mut tx = Transaction::new(2, 0);
    for i in 0..n_inputs {
        let mut txin = TxIn::new(&[i as u8; 32], i as u32, unlocking, Some(0xffff_fffe));
        if let Some(l) = locking {
            txin.set_locking_script(l);
        }
        if let Some(s) = satoshis {
            txin.set_satoshis(s);
        }
        tx.add_input(&txin);
    }
    for i in 0..n_outputs {
        tx.add_output(&TxOut::new(1000 + i as u64, &Script::from_script_bits(vec![op(OpCodes::OP_1)])));
    }
    tx
}

fn check_tx(tx: &Transaction, index: usize, with_run: bool) -> Result<Option<Trace>, String> {
    let built = catch_unwind(AssertUnwindSafe(|| Interpreter::from_transaction(tx, index).map(|_| ()).map_err(|e| e.to_string())));
    match built {
        Err(p) => return Err(format!("PANIC in from_transaction: {}", panic_text(&p))),
        Ok(Err(_)) => return Ok(None),
        Ok(Ok(())) => {}
    }
    let tx = tx.clone();
    check_total(move || Interpreter::from_transaction(&tx, index).unwrap(), with_run).map(Some)
}

#[test]
fn ok_checksig_every_flag_byte_every_shape_of_signature_and_key() {
    quiet_panics();
    let key = PrivateKey::from_wif(WIF1).unwrap();
    let pubkey = key.to_public_key().unwrap().to_bytes().unwrap();
    let locking = Script::from_script_bits(vec![op(OpCodes::OP_CHECKSIG)]);
    let mut tx0 = base_tx(2, 1, Some(&locking), Some(5000), &Script::default());
    let good = tx0.sign(&key, SigHash::InputsOutputs, 1, &locking, 5000).unwrap().to_bytes().unwrap();
    let der = good[..good.len() - 1].to_vec();
    let mut rng = Rng::new(8);
    let mut failures = vec![];
    let mut sigs: Vec<Vec<u8>> = vec![vec![], vec![0x41], vec![0x30, 0x41], vec![0x30, 0x00, 0x41], vec![0x30, 0x06, 0x02, 0x01, 0x00, 0x02, 0x01, 0x00, 0x41], vec![0x30, 0x06, 0x02, 0x01, 0x01, 0x02, 0x01, 0x01, 0x41]];
    for flag in 0u16..=255 {
        let mut s = der.clone();
        s.push(flag as u8);
        sigs.push(s);
    }
    for _ in 0..200 {
        let mut s = good.clone();
        let i = rng.below(s.len());
        s[i] ^= 1 << rng.below(8);
        sigs.push(s);
        let n = rng.below(80);
        sigs.push(rng.bytes(n));
        let cut = rng.below(good.len());
        sigs.push(good[..cut].to_vec());
    }
    let mut keys: Vec<Vec<u8>> = vec![pubkey.clone(), vec![], vec![0x02], vec![0x02; 33], vec![0x04; 65], vec![0x00; 33], vec![0x03; 32], vec![0xff; 33]];
    let mut unc = key.to_public_key().unwrap().to_decompressed().map(|k| k.to_bytes().unwrap()).unwrap_or_default();
    keys.push(unc.clone());
    if !unc.is_empty() {
        unc[0] = 0x06;
        keys.push(unc.clone());
        unc[0] = 0x07;
        keys.push(unc);
    }
    for _ in 0..20 {
        let n = rng.below(70);
        keys.push(rng.bytes(n));
    }
    let mut count = 0;
    for (i, sig) in sigs.iter().enumerate() {
        for (j, k) in keys.iter().enumerate() {
            if j > 0 && i % 7 != j % 7 {
                continue;
            }
            for code in [OpCodes::OP_CHECKSIG, OpCodes::OP_CHECKSIGVERIFY] {
                for (n_in, n_out, index, lock, sats) in [(2usize, 1usize, 1usize, true, Some(5000u64)), (2, 1, 0, true, Some(5000)), (1, 0, 0, true, Some(0)), (1, 1, 0, true, None), (1, 1, 0, false, Some(1)), (3, 2, 2, true, Some(u64::MAX))] {
                    if (n_in, index) != (2, 1) && (i + j) % 5 != 0 {
                        continue;
                    }
                    let locking = Script::from_script_bits(vec![op(OpCodes::OP_CODESEPARATOR), op(code)]);
                    let unlocking = Script::from_script_bits(vec![push(sig), push(k)]);
                    let tx = base_tx(n_in, n_out, if lock { Some(&locking) } else { None }, sats, &unlocking);
                    count += 1;
                    if let Err(e) = check_tx(&tx, index, count % 60 == 0) {
                        failures.push(format!("sig {} key {} {:?} inputs {} outputs {} index {}: {}", hex::encode(sig), hex::encode(k), code, n_in, n_out, index, e));
                    }
                }
            }
        }
    }
    assert!(count > 2000);
    assert!(failures.is_empty(), "{} failures, first: {:#?}", failures.len(), &failures[..failures.len().min(5)]);
    // sanity: the good signature does verify (stack [1]) so the fuzz above really reaches the verification code
    let unlocking = Script::from_script_bits(vec![push(&good), push(&pubkey)]);
    let tx = base_tx(2, 1, Some(&locking), Some(5000), &unlocking);
    let t = check_tx(&tx, 1, true).unwrap().unwrap();
    assert_eq!((t.outcome, t.stack), (Ok(()), vec![vec![1u8]]));
}

#[test]
fn ok_checkmultisig_counts() {
    quiet_panics();
    let key = PrivateKey::from_wif(WIF1).unwrap();
    let key2 = PrivateKey::from_wif(WIF2).unwrap();
    let pk1 = key.to_public_key().unwrap().to_bytes().unwrap();
    let pk2 = key2.to_public_key().unwrap().to_bytes().unwrap();
    let locking = Script::from_script_bits(vec![op(OpCodes::OP_CHECKMULTISIG)]);
    let mut tx0 = base_tx(1, 1, Some(&locking), Some(7), &Script::default());
    let sig1 = tx0.sign(&key, SigHash::InputsOutputs, 0, &locking, 7).unwrap().to_bytes().unwrap();
    let sig2 = tx0.sign(&key2, SigHash::InputsOutputs, 0, &locking, 7).unwrap().to_bytes().unwrap();
    let counts: Vec<i128> = vec![0, 1, 2, 3, 4, 20, 21, -1, -2, i32::MAX as i128, i32::MAX as i128 + 1, i32::MIN as i128, u32::MAX as i128, u32::MAX as i128 + 1, u32::MAX as i128 + 3, u64::MAX as i128 + 3, -(u64::MAX as i128) - 3, i128::MAX];
    let mut failures = vec![];
    let mut n = 0;
    for &m in &counts {
        for &k in &counts {
            for extra in 0..3usize {
                for code in [OpCodes::OP_CHECKMULTISIG, OpCodes::OP_CHECKMULTISIGVERIFY] {
                    // <extra items> sig1 sig2 <m> pk1 pk2 <k> CHECKMULTISIG : all shapes, most of them short of items
                    let mut un = vec![];
                    for _ in 0..extra {
                        un.push(op(OpCodes::OP_0));
                    }
                    un.extend([push(&sig1), push(&sig2), push(&num(m)), push(&pk1), push(&pk2), push(&num(k))]);
                    let tx = base_tx(1, 1, Some(&Script::from_script_bits(vec![op(code)])), Some(7), &Script::from_script_bits(un));
                    n += 1;
                    if let Err(e) = check_tx(&tx, 0, n % 25 == 0) {
                        failures.push(format!("m {} k {} extra {} {:?}: {}", m, k, extra, code, e));
                    }
                }
            }
        }
    }
    // degenerate stacks
    for bits in [vec![], vec![op(OpCodes::OP_1)], vec![op(OpCodes::OP_1), op(OpCodes::OP_1)], vec![op(OpCodes::OP_0), op(OpCodes::OP_1), op(OpCodes::OP_1)], vec![push(&sig1), op(OpCodes::OP_1), push(&pk1), op(OpCodes::OP_1)], vec![op(OpCodes::OP_1), push(&pk1), op(OpCodes::OP_1)]] {
        let tx = base_tx(1, 1, Some(&locking), Some(7), &Script::from_script_bits(bits.clone()));
        if let Err(e) = check_tx(&tx, 0, true) {
            failures.push(format!("{:?}: {}", bits, e));
        }
    }
    assert!(failures.is_empty(), "{} failures, first: {:#?}", failures.len(), &failures[..failures.len().min(5)]);
    // sanity 2-of-2 in order verifies
    let un = vec![op(OpCodes::OP_0), push(&sig1), push(&sig2), op(OpCodes::OP_2), push(&pk1), push(&pk2), op(OpCodes::OP_2)];
    let tx = base_tx(1, 1, Some(&locking), Some(7), &Script::from_script_bits(un));
    let t = check_tx(&tx, 0, true).unwrap().unwrap();
    assert_eq!((t.outcome, t.stack), (Ok(()), vec![vec![1u8]]));
}

#[test]
fn ok_fuzz_transactions_random_unlocking_and_locking() {
    quiet_panics();
    let mut rng = Rng::new(9);
    let menu = item_menu();
    let mut codes = all_opcodes();
    for _ in 0..8 {
        codes.extend([OpCodes::OP_CHECKSIG, OpCodes::OP_CHECKSIGVERIFY, OpCodes::OP_CHECKMULTISIG, OpCodes::OP_CODESEPARATOR, OpCodes::OP_RETURN, OpCodes::OP_IF, OpCodes::OP_ELSE, OpCodes::OP_ENDIF, OpCodes::OP_1, OpCodes::OP_DUP]);
    }
    let key = PrivateKey::from_wif(WIF1).unwrap();
    let pk1 = key.to_public_key().unwrap().to_bytes().unwrap();
    let mut failures = vec![];
    for i in 0..40_000 {
        let n = rng.below(7);
        let mut un: Vec<ScriptBit> = (0..n).map(|_| random_element(&mut rng, &menu, &codes, 2)).collect();
        let n = rng.below(7);
        let lock: Vec<ScriptBit> = (0..n).map(|_| random_element(&mut rng, &menu, &codes, 2)).collect();
        if risky_allocation(&un) || risky_allocation(&lock) || risky_allocation(&[un.clone(), lock.clone()].concat()) {
            continue;
        }
        let locking = Script::from_script_bits(lock.clone());
        let n_in = 1 + rng.below(3);
        let n_out = rng.below(3);
        let index = rng.below(n_in + 1);
        if rng.chance(40) {
            // a well formed signature with a random flag in front of the locking script
            let mut tx0 = base_tx(n_in, n_out, Some(&locking), Some(1), &Script::default());
            let flags = [SigHash::ALL, SigHash::NONE, SigHash::SINGLE, SigHash::InputsOutputs, SigHash::Inputs, SigHash::InputsOutput, SigHash::InputOutputs, SigHash::Input, SigHash::InputOutput, SigHash::Legacy_InputOutputs, SigHash::Legacy_Input, SigHash::Legacy_InputOutput, SigHash::FORKID, SigHash::ANYONECANPAY];
            if let Ok(sig) = catch_unwind(AssertUnwindSafe(|| tx0.sign(&key, flags[rng.below(flags.len())], index.min(n_in - 1), &locking, 1))) {
                if let Ok(sig) = sig {
                    un.insert(0, push(&pk1));
                    un.insert(0, push(&sig.to_bytes().unwrap()));
                }
            }
        }
        if risky_allocation(&[un.clone(), lock.clone()].concat()) {
            continue;
        }
        let unlocking = Script::from_script_bits(un.clone());
        if let Ok(path) = std::env::var("HUNT_TRACE_FILE") {
            std::fs::write(path, format!("i {} unlocking {:?}\nlocking {:?}\ninputs {} outputs {} index {}\n", i, un, lock, n_in, n_out, index)).unwrap();
        }
        let tx = base_tx(n_in, n_out, if rng.chance(90) { Some(&locking) } else { None }, if rng.chance(90) { Some(1) } else { None }, &unlocking);
        if let Err(e) = check_tx(&tx, index, i % 40 == 0) {
            failures.push(format!("unlocking {:?} locking {:?} inputs {} outputs {} index {}: {}", un, lock, n_in, n_out, index, e));
        }
        // the other constructor, with elements that have nothing to do with the transaction and any index
        let bits = [un.clone(), lock.clone()].concat();
        let tx2 = tx.clone();
        let idx2 = if rng.chance(50) { index } else { rng.next() as usize };
        if let Err(e) = check_total(move || Interpreter::from_transaction_and_script_bits(tx2.clone(), idx2, bits.clone()), i % 40 == 0) {
            failures.push(format!("from_transaction_and_script_bits {:?} {:?} index {}: {}", un, lock, idx2, e));
        }
    }
    assert!(failures.is_empty(), "{} failures, first: {:#?}", failures.len(), &failures[..failures.len().min(5)]);
}

// ---------------------------------------------------------------------------------------------------------
// 6. OP_RETURN shapes, conditional shapes (hand computed)
// ---------------------------------------------------------------------------------------------------------

#[test]
fn ok_op_return_and_conditional_shapes() {
    quiet_panics();
    use OpCodes::*;
    let cases: Vec<(Vec<ScriptBit>, Result<Stack, ()>)> = vec![
        (vec![op(OP_1), op(OP_RETURN), op(OP_2)], Ok(vec![vec![1]])),
        (vec![op(OP_RETURN)], Ok(vec![])),
        (vec![op(OP_1), op(OP_RETURN), op(OP_ENDIF), op(OP_ELSE), op(OP_IF)], Ok(vec![vec![1]])),
        (vec![op(OP_1), op(OP_IF), op(OP_RETURN), op(OP_ENDIF), op(OP_2)], Ok(vec![])),
        (vec![op(OP_1), op(OP_IF), op(OP_2), op(OP_RETURN), op(OP_3), op(OP_ELSE), op(OP_4), op(OP_ENDIF), op(OP_5)], Ok(vec![vec![2]])),
        (vec![op(OP_0), op(OP_IF), op(OP_2), op(OP_RETURN), op(OP_3), op(OP_ELSE), op(OP_4), op(OP_ENDIF), op(OP_5)], Ok(vec![vec![4], vec![5]])),
        (vec![op(OP_1), op(OP_IF), op(OP_RETURN), op(OP_ENDIF), op(OP_ENDIF)], Err(())),
        (vec![op(OP_1), op(OP_IF), op(OP_2)], Err(())),
        (vec![op(OP_ENDIF)], Err(())),
        (vec![op(OP_ELSE)], Err(())),
        (vec![op(OP_IF), op(OP_ENDIF)], Err(())),
        (vec![op(OP_0), op(OP_IF), op(OP_ELSE), op(OP_ELSE), op(OP_ENDIF)], Err(())),
        (vec![op(OP_0), op(OP_NOTIF), op(OP_7), op(OP_ENDIF)], Ok(vec![vec![7]])),
        (vec![push(&[0x80]), op(OP_IF), op(OP_7), op(OP_ELSE), op(OP_8), op(OP_ENDIF)], Ok(vec![vec![8]])),
        (vec![push(&[0x00, 0x00, 0x01]), op(OP_IF), op(OP_7), op(OP_ELSE), op(OP_8), op(OP_ENDIF)], Ok(vec![vec![7]])),
    ];
    for (bits, want) in cases {
        let t = run_asm_like(bits.clone());
        match want {
            Ok(stack) => assert_eq!((t.outcome.clone(), t.stack.clone()), (Ok(()), stack), "{:?}", bits),
            Err(()) => assert!(t.outcome.is_err(), "{:?} should fail but ended with {:?}", bits, t.stack),
        }
        // and the same read from bytes when it parses
        let bytes = Script::from_script_bits(bits.clone()).to_bytes();
        if let Some(r) = check_bytes(&bytes, true) {
            let p = r.unwrap();
            assert!(same_end(&p, &t) || (p.outcome.is_err() && t.outcome.is_err()), "{:?}: parsed {:?} built {:?}", bits, p, t);
        }
    }
}

#[test]
fn ok_op_return_in_unlocking_script_of_a_transaction() {
    quiet_panics();
    use OpCodes::*;
    let shapes: Vec<(Vec<ScriptBit>, Vec<ScriptBit>)> = vec![
        (vec![op(OP_1), op(OP_RETURN), op(OP_2)], vec![op(OP_3)]),
        (vec![op(OP_1), op(OP_IF), op(OP_RETURN), op(OP_ENDIF), op(OP_2)], vec![op(OP_3)]),
        (vec![op(OP_1), op(OP_IF), op(OP_RETURN), op(OP_ENDIF), op(OP_2)], vec![]),
        (vec![op(OP_RETURN)], vec![op(OP_RETURN)]),
        (vec![op(OP_1), op(OP_IF), op(OP_RETURN)], vec![op(OP_ENDIF), op(OP_3)]),
        (vec![op(OP_1), op(OP_IF)], vec![op(OP_RETURN), op(OP_ENDIF), op(OP_3)]),
        (vec![op(OP_1), op(OP_IF), op(OP_RETURN), op(OP_ELSE)], vec![op(OP_ENDIF), op(OP_ENDIF)]),
        (vec![op(OP_RETURN), op(OP_IF)], vec![op(OP_1)]),
        (vec![op(OP_RETURN), op(OP_ENDIF)], vec![op(OP_1), op(OP_IF), op(OP_RETURN), op(OP_ENDIF), op(OP_ELSE)]),
    ];
    for (un, lock) in shapes {
        let tx = base_tx(1, 1, Some(&Script::from_script_bits(lock.clone())), Some(1), &Script::from_script_bits(un.clone()));
        check_tx(&tx, 0, true).unwrap_or_else(|e| panic!("{:?} | {:?}: {}", un, lock, e));
    }
}

// ---------------------------------------------------------------------------------------------------------
// 7. template pseudo-opcodes, reserved, disabled, invalid opcodes: an error and nothing else
// ---------------------------------------------------------------------------------------------------------

#[test]
fn ok_pseudo_reserved_and_invalid_opcodes_fail_cleanly() {
    quiet_panics();
    for byte in [0x50u8, 0x62, 0x89, 0x8a, 0xb1, 0xb2, 0xba, 0xfb, 0xfc, 0xfd, 0xfe, 0xff] {
        let t = check_bytes(&[0x51, 0x52, byte], true).expect("parses").unwrap();
        assert!(t.outcome.is_err(), "0x{:02x} should fail", byte);
        assert_eq!(t.stack, vec![vec![1u8], vec![2u8]], "0x{:02x}", byte);
        assert_eq!(t.ok_steps, 2);
    }
    // unknown opcode values are refused by the parser, so they are outside the quantifier
    for byte in 0xbbu8..=0xfa {
        assert!(Script::from_bytes(&[byte]).is_err(), "0x{:02x}", byte);
    }
}

// ---------------------------------------------------------------------------------------------------------
// 8. serde round trip of an interpreter half way
// ---------------------------------------------------------------------------------------------------------

fn serde_mid_run(make: &dyn Fn() -> Interpreter) -> Result<(), String> {
    let reference = step_through(make(), 100_000)?;
    for k in 0..=reference.ok_steps {
        let mut it = make();
        for _ in 0..k {
            it.next();
        }
        let json = serde_json::to_string(&it).map_err(|e| format!("serialise after {} steps: {}", k, e))?;
        let back: Interpreter = serde_json::from_str(&json).map_err(|e| format!("deserialise after {} steps: {} json {}", k, e, json))?;
        let resumed = step_through(back, 100_000)?;
        if !same_end(&resumed, &reference) {
            return Err(format!("JSON round trip after {} steps ends {:?}, stepping straight through ends {:?}; json {}", k, resumed, reference, json));
        }
        // CBOR as well
        let mut buf = vec![];
        ciborium::ser::into_writer(&it, &mut buf).map_err(|e| format!("cbor serialise after {} steps: {}", k, e))?;
        let back: Interpreter = ciborium::de::from_reader(&buf[..]).map_err(|e| format!("cbor deserialise after {} steps: {}", k, e))?;
        let resumed = step_through(back, 100_000)?;
        if !same_end(&resumed, &reference) {
            return Err(format!("CBOR round trip after {} steps ends {:?}, stepping straight through ends {:?}", k, resumed, reference));
        }
    }
    Ok(())
}

#[test]
fn ok_serde_round_trip_mid_run_plain_script() {
    quiet_panics();
    use OpCodes::*;
    let scripts: Vec<Vec<ScriptBit>> = vec![
        vec![op(OP_1), op(OP_2), op(OP_ADD), op(OP_TOALTSTACK), push(b"hello"), op(OP_SIZE), op(OP_FROMALTSTACK), op(OP_EQUAL)],
        vec![op(OP_1), op(OP_IF), op(OP_2), op(OP_IF), op(OP_3), op(OP_ELSE), op(OP_4), op(OP_ENDIF), op(OP_ELSE), op(OP_5), op(OP_ENDIF), op(OP_6)],
        vec![op(OP_0), op(OP_IF), op(OP_2), op(OP_ELSE), op(OP_1), op(OP_IF), op(OP_RETURN), op(OP_ENDIF), op(OP_5), op(OP_ENDIF), op(OP_6)],
        vec![push(&[0xab; 300]), push(&[]), op(OP_CAT), op(OP_DROP), op(OP_DEPTH), op(OP_VERIFY)],
        vec![op(OP_1), op(OP_CODESEPARATOR), op(OP_NOTIF), op(OP_CODESEPARATOR), op(OP_ELSE), op(OP_2), op(OP_CODESEPARATOR), op(OP_ENDIF)],
    ];
    for bits in scripts {
        let b = bits.clone();
        serde_mid_run(&move || Interpreter::from_script(&Script::from_script_bits(b.clone()))).unwrap_or_else(|e| panic!("{:?}: {}", bits, e));
    }
}

#[test]
fn ok_serde_round_trip_mid_run_transaction() {
    quiet_panics();
    use OpCodes::*;
    let key = PrivateKey::from_wif(WIF1).unwrap();
    let pk = key.to_public_key().unwrap().to_bytes().unwrap();
    let locking = Script::from_script_bits(vec![op(OP_1), op(OP_IF), op(OP_CODESEPARATOR), op(OP_DUP), op(OP_HASH160), push(&Hash::hash_160(&pk).to_bytes()), op(OP_EQUALVERIFY), op(OP_CHECKSIG), op(OP_ENDIF)]);
    let signed_part = Script::from_script_bits(vec![op(OP_DUP), op(OP_HASH160), push(&Hash::hash_160(&pk).to_bytes()), op(OP_EQUALVERIFY), op(OP_CHECKSIG), op(OP_ENDIF)]);
    let mut tx0 = base_tx(2, 2, Some(&locking), Some(900), &Script::default());
    let sig = tx0.sign(&key, SigHash::InputsOutputs, 1, &signed_part, 900).unwrap().to_bytes().unwrap();
    let tx = base_tx(2, 2, Some(&locking), Some(900), &Script::from_script_bits(vec![push(&sig), push(&pk)]));
    let t = check_tx(&tx, 1, true).unwrap().unwrap();
    assert_eq!((t.outcome.clone(), t.stack.clone()), (Ok(()), vec![vec![1u8]]), "sanity: the spend verifies");
    let tx2 = tx.clone();
    serde_mid_run(&move || Interpreter::from_transaction(&tx2, 1).unwrap()).unwrap();
}

// ---------------------------------------------------------------------------------------------------------
// 9. the iterator protocol around the end and around an error
// ---------------------------------------------------------------------------------------------------------

#[test]
fn ok_run_again_after_the_end_changes_nothing() {
    quiet_panics();
    let script = Script::from_script_bits(vec![op(OpCodes::OP_1), op(OpCodes::OP_2)]);
    let mut it = Interpreter::from_script(&script);
    it.run().unwrap();
    let before = it.state().stack.clone();
    it.run().unwrap();
    assert!(it.next().is_none());
    assert_eq!(it.state().stack, before);
    // empty script
    let mut it = Interpreter::from_script(&Script::default());
    assert!(it.next().is_none());
    it.run().unwrap();
    assert!(it.state().stack.is_empty());
}

/// BORDERLINE (reported, not counted as a violation): an interpreter whose script failed answers Ok(()) to a later run().
#[test]
fn ok_borderline_run_after_a_failed_step_reports_success() {
    quiet_panics();
    let script = Script::from_script_bits(vec![op(OpCodes::OP_1), op(OpCodes::OP_0), op(OpCodes::OP_VERIFY), op(OpCodes::OP_2)]);
    let mut it = Interpreter::from_script(&script);
    assert!(it.run().is_err());
    let second = it.run();
    println!("run() after a failed run(): {:?}", second.as_ref().map_err(|e| e.to_string()));
    // documenting what happens; C16 only says that every call returns a state or an error
    assert!(second.is_ok());
    assert_eq!(it.state().stack, vec![vec![1u8], vec![]]);
}

// ---------------------------------------------------------------------------------------------------------
// 10. things that can only be observed from outside the process (aborts, native stack, run-away time)
// ---------------------------------------------------------------------------------------------------------

struct ChildResult {
    success: bool,
    timed_out: bool,
    status: String,
    stderr_tail: String,
    seconds: f64,
}

/// Runs one `child_*` test of this very binary in a fresh process, optionally under an address space limit.
fn run_child(name: &str, mem_limit_kb: Option<u64>, timeout_secs: u64, env: &[(&str, String)]) -> ChildResult {
    use std::process::{Command, Stdio};
    let exe = std::env::current_exe().unwrap();
    let limit = mem_limit_kb.map_or(String::new(), |kb| format!("ulimit -v {}; ", kb));
    let cmd = format!("{}exec '{}' --exact {} --ignored --test-threads=1 --nocapture", limit, exe.display(), name);
    let mut command = Command::new("sh");
    command.arg("-c").arg(cmd).env("HUNT_C16_CHILD", "1").stdout(Stdio::null()).stderr(Stdio::piped());
    for (k, v) in env {
        command.env(k, v);
    }
    let start = std::time::Instant::now();
    let mut child = command.spawn().unwrap();
    let mut stderr = child.stderr.take().unwrap();
    let reader = std::thread::spawn(move || {
        use std::io::Read;
        let mut s = vec![];
        let _ = stderr.read_to_end(&mut s);
        String::from_utf8_lossy(&s).to_string()
    });
    let mut timed_out = false;
    let status = loop {
        if let Some(s) = child.try_wait().unwrap() {
            break s;
        }
        if start.elapsed().as_secs() >= timeout_secs {
            timed_out = true;
            let _ = child.kill();
            break child.wait().unwrap();
        }
        std::thread::sleep(std::time::Duration::from_millis(50));
    };
    let text = reader.join().unwrap_or_default();
    let tail: String = text.lines().rev().take(12).collect::<Vec<_>>().into_iter().rev().collect::<Vec<_>>().join("\n");
    ChildResult { success: status.success() && !timed_out, timed_out, status: format!("{:?}", status), stderr_tail: tail, seconds: start.elapsed().as_secs_f64() }
}

fn is_child() -> bool {
    std::env::var("HUNT_C16_CHILD").is_ok()
}

fn env_usize(name: &str, default: usize) -> usize {
    std::env::var(name).ok().and_then(|v| v.parse().ok()).unwrap_or(default)
}

/// child: a parsed script with conditionals nested N deep (the parser allows 500), run on a thread with the stack
/// size std gives to spawned threads unless told otherwise (2 MiB)
#[test]
#[ignore]
fn child_nested_conditionals_parsed() {
    if !is_child() {
        return;
    }
    let depth = env_usize("HUNT_DEPTH", 500);
    let stack_kb = env_usize("HUNT_STACK_KB", 2048);
    let mut bytes = vec![];
    for _ in 0..depth {
        bytes.extend([0x51, 0x63]); // OP_1 OP_IF
    }
    bytes.push(0x57); // OP_7
    for _ in 0..depth {
        bytes.push(0x68);
    }
    let handle = std::thread::Builder::new()
        .stack_size(stack_kb * 1024)
        .spawn(move || {
            let script = Script::from_bytes(&bytes).expect("parser accepts this nesting");
            let mut it = Interpreter::from_script(&script);
            let mut steps = 0;
            while let Some(r) = it.next() {
                r.expect("every step is fine");
                steps += 1;
            }
            assert_eq!(steps, 2 * depth + 1);
            assert_eq!(it.state().stack, vec![vec![7u8]]);
            // also the other things one does with a script of this shape
            let mut it2 = Interpreter::from_script(&script);
            it2.run().expect("run");
            let json = serde_json::to_string(&Interpreter::from_script(&script));
            eprintln!("serialised: {}", json.is_ok());
        })
        .unwrap();
    handle.join().expect("thread finished");
}

#[test]
fn ok_nesting_at_the_parser_limit_runs_on_a_default_thread() {
    let r = run_child("child_nested_conditionals_parsed", None, 300, &[("HUNT_DEPTH", "500".into()), ("HUNT_STACK_KB", "2048".into())]);
    assert!(r.success, "500 nested conditionals (accepted by Script::from_bytes) on a 2 MiB thread: status {} timed out {} after {:.1}s\n{}", r.status, r.timed_out, r.seconds, r.stderr_tail);
}

/// child: OP_1 then N times (OP_DUP OP_CAT): the top item doubles at every round
#[test]
#[ignore]
fn child_cat_doubling() {
    if !is_child() {
        return;
    }
    let rounds = env_usize("HUNT_ROUNDS", 34);
    let mut bytes = vec![0x51];
    for _ in 0..rounds {
        bytes.extend([0x76, 0x7e]);
    }
    bytes.extend([0x82, 0x77]); // OP_SIZE OP_NIP
    let script = Script::from_bytes(&bytes).unwrap();
    let mut it = Interpreter::from_script(&script);
    let mut last = 0usize;
    while let Some(r) = it.next() {
        match r {
            Ok(s) => last = s.stack.last().map_or(0, |x| x.len()),
            Err(e) => {
                eprintln!("ended with error {} (top item was {} bytes)", e, last);
                return;
            }
        }
    }
    eprintln!("ended normally, stack {:?}", it.state().stack);
}

/// child: OP_2 then N times (OP_DUP OP_MUL): the number squares at every round
#[test]
#[ignore]
fn child_mul_squaring() {
    if !is_child() {
        return;
    }
    let rounds = env_usize("HUNT_ROUNDS", 40);
    let mut bytes = vec![0x53];
    for _ in 0..rounds {
        bytes.extend([0x76, 0x95]);
    }
    bytes.extend([0x82, 0x77]);
    let script = Script::from_bytes(&bytes).unwrap();
    let mut it = Interpreter::from_script(&script);
    while let Some(r) = it.next() {
        if let Err(e) = r {
            eprintln!("ended with error {}", e);
            return;
        }
    }
    eprintln!("ended normally, stack {:?}", it.state().stack);
}

/// child: a long flat script, to measure how stepping scales
#[test]
#[ignore]
fn child_long_flat_script() {
    if !is_child() {
        return;
    }
    let n = env_usize("HUNT_LEN", 20_000);
    let mut bytes = vec![];
    for _ in 0..n / 2 {
        bytes.extend([0x51, 0x75]); // OP_1 OP_DROP
    }
    let script = Script::from_bytes(&bytes).unwrap();
    let mut it = Interpreter::from_script(&script);
    let mut steps = 0;
    while let Some(r) = it.next() {
        r.unwrap();
        steps += 1;
    }
    assert_eq!(steps, n / 2 * 2);
}

// ---------------------------------------------------------------------------------------------------------
// 11. serde round trip mid-run for element-built scripts of odd shapes
// ---------------------------------------------------------------------------------------------------------

#[test]
fn ok_serde_round_trip_mid_run_odd_elements() {
    quiet_panics();
    let mut rng = Rng::new(11);
    let menu = item_menu();
    let codes = all_opcodes();
    let mut failures = vec![];
    for _ in 0..3000 {
        let n = 1 + rng.below(8);
        let bits: Vec<ScriptBit> = (0..n).map(|_| random_element(&mut rng, &menu, &codes, 1)).collect();
        if risky_allocation(&bits) {
            continue;
        }
        let b = bits.clone();
        let r = catch_unwind(AssertUnwindSafe(|| serde_mid_run(&move || Interpreter::from_script(&Script::from_script_bits(b.clone())))));
        match r {
            Ok(Ok(())) => {}
            Ok(Err(e)) => failures.push(format!("{:?}: {}", bits, e)),
            Err(p) => failures.push(format!("{:?}: PANIC {}", bits, panic_text(&p))),
        }
    }
    failures.sort_by_key(|f| f.len());
    assert!(failures.is_empty(), "{} failures, shortest: {:#?}", failures.len(), &failures[..failures.len().min(6)]);
}

// ---------------------------------------------------------------------------------------------------------
// 12. alt stack and errors, deep stacks, big items, coinbase inputs
// ---------------------------------------------------------------------------------------------------------

#[test]
fn ok_alt_stack_survives_errors() {
    quiet_panics();
    use OpCodes::*;
    let t = run_asm_like(vec![op(OP_1), op(OP_TOALTSTACK), op(OP_2), op(OP_TOALTSTACK), op(OP_FROMALTSTACK), op(OP_FROMALTSTACK), op(OP_FROMALTSTACK)]);
    assert!(t.outcome.is_err());
    assert_eq!((t.stack, t.alt, t.ok_steps), (vec![vec![2u8], vec![1u8]], vec![], 6));
    let t = run_asm_like(vec![op(OP_1), op(OP_TOALTSTACK), op(OP_0), op(OP_VERIFY), op(OP_5)]);
    assert!(t.outcome.is_err());
    assert_eq!((t.stack, t.alt, t.ok_steps), (vec![vec![]], vec![vec![1u8]], 3));
    let t = run_asm_like(vec![op(OP_3), op(OP_TOALTSTACK), op(OP_7), op(OP_8), op(OP_9), op(OP_EQUALVERIFY)]);
    assert!(t.outcome.is_err());
    assert_eq!((t.stack, t.alt), (vec![vec![7u8], vec![8u8], vec![9u8]], vec![vec![3u8]]));
    let t = run_asm_like(vec![op(OP_3), op(OP_TOALTSTACK), op(OP_7), op(OP_IF), op(OP_TOALTSTACK), op(OP_ENDIF)]);
    assert!(t.outcome.is_err());
    assert_eq!((t.stack, t.alt), (vec![], vec![vec![3u8]]));
    // a conditional with nothing to test: the stacks stay as they were
    let t = run_asm_like(vec![op(OP_3), op(OP_TOALTSTACK), op(OP_IF), op(OP_2), op(OP_ENDIF)]);
    assert!(t.outcome.is_err());
    assert_eq!((t.stack, t.alt, t.ok_steps), (vec![], vec![vec![3u8]], 2));
}

#[test]
fn ok_deep_stacks() {
    quiet_panics();
    use OpCodes::*;
    let depth = 3000usize;
    let mut bits: Vec<ScriptBit> = (0..depth).map(|i| push(&num(i as i128 + 1))).collect();
    bits.extend([push(&num(depth as i128 - 1)), op(OP_PICK)]); // copies the bottom item: 1
    bits.extend([push(&num(depth as i128)), op(OP_ROLL)]); // moves the bottom item (1) to the top
    bits.extend([op(OP_EQUALVERIFY), op(OP_DEPTH)]);
    let t = check_bits(&bits, false).unwrap();
    assert_eq!(t.outcome, Ok(()));
    assert_eq!(t.stack.len(), depth);
    assert_eq!(t.stack.last().unwrap(), &num(depth as i128 - 1));
    // one past the bottom
    let mut bits: Vec<ScriptBit> = (0..depth).map(|i| push(&num(i as i128 + 1))).collect();
    bits.extend([push(&num(depth as i128)), op(OP_PICK)]);
    let t = check_bits(&bits, false).unwrap();
    assert!(t.outcome.is_err());
    assert_eq!(t.stack.len(), depth + 1);
}

#[test]
fn ok_big_items() {
    quiet_panics();
    use OpCodes::*;
    let big = vec![0x5au8; 300_000];
    let mut want_inv = vec![0xa5u8; 300_000];
    let t = run_asm_like(vec![push(&big), op(OP_INVERT)]);
    assert_eq!(t.stack, vec![want_inv.clone()]);
    let t = run_asm_like(vec![push(&big), op(OP_DUP), op(OP_CAT), op(OP_SIZE), op(OP_NIP)]);
    assert_eq!(t.stack, vec![num(600_000)]);
    let t = run_asm_like(vec![push(&big), push(&num(299_999)), op(OP_SPLIT), op(OP_SIZE), op(OP_NIP), op(OP_NIP)]);
    assert_eq!(t.stack, vec![num(1)]);
    let t = run_asm_like(vec![push(&big), push(&num(300_000 * 8 - 1)), op(OP_RSHIFT), op(OP_BIN2NUM)]);
    // the most significant bit of 0x5a is 0, so the last bit after shifting everything but one bit out is 0
    assert_eq!(t.stack, vec![Vec::<u8>::new()]);
    let t = run_asm_like(vec![push(&big), push(&num(1)), op(OP_LSHIFT), push(&num(1)), op(OP_SPLIT), op(OP_DROP)]);
    assert_eq!(t.stack, vec![vec![0xb4u8]]);
    let t = run_asm_like(vec![push(&big), op(OP_DUP), op(OP_XOR), op(OP_BIN2NUM)]);
    assert_eq!(t.stack, vec![Vec::<u8>::new()]);
    let t = run_asm_like(vec![push(&big), op(OP_DUP), op(OP_MUL), op(OP_SIZE), op(OP_NIP)]);
    assert_eq!(t.outcome, Ok(()));
    let t = run_asm_like(vec![push(&big), op(OP_SHA256), op(OP_SIZE), op(OP_NIP)]);
    assert_eq!(t.stack, vec![num(32)]);
    want_inv.truncate(0);
}

#[test]
fn ok_coinbase_input() {
    quiet_panics();
    // the genesis block coinbase transaction
    let hex = "01000000010000000000000000000000000000000000000000000000000000000000000000ffffffff4d04ffff001d0104455468652054696d65732030332f4a616e2f32303039204368616e63656c6c6f72206f6e206272696e6b206f66207365636f6e64206261696c6f757420666f722062616e6b73ffffffff0100f2052a01000000434104678afdb0fe5548271967f1a67130b7105cd6a828e03909a67962e0ea1f61deb649f6bc3f4cef38c4f35504e51ec112de5c384df7ba0b8d578a4c702b6bf11d5fac00000000";
    let tx = Transaction::from_hex(hex).unwrap();
    let t = check_tx(&tx, 0, true).unwrap().unwrap();
    assert!(t.outcome.is_err());
    assert_eq!((t.stack, t.ok_steps), (vec![], 0));
    assert!(check_tx(&tx, 1, true).unwrap().is_none(), "no input 1: from_transaction is an error");
}

// ---------------------------------------------------------------------------------------------------------
// 13. BORDERLINE findings, demonstrated in child processes
// ---------------------------------------------------------------------------------------------------------

/// BORDERLINE. A 62 byte script that Script::from_bytes accepts, OP_1 followed by 30 x (OP_DUP OP_CAT), makes the
/// process abort ("memory allocation of ... bytes failed") instead of giving a state or an error: every round doubles
/// the top item and nothing bounds the size of an item or of the stack. Same class as the recorded OP_NUM2BIN
/// allocation abort, but no huge operand is involved: whatever memory there is, about log2(memory) rounds use it up.
/// The child runs under `ulimit -v` 1.5 GB so that the experiment stays small.
#[test]
fn violation_borderline_cat_doubling_aborts_the_process() {
    let r = run_child("child_cat_doubling", Some(1_500_000), 300, &[("HUNT_ROUNDS", "30".into())]);
    assert!(
        r.success,
        "input: script 51 followed by 30 x 767e (OP_1, 30 x OP_DUP OP_CAT), Interpreter::from_script + next(); library: the process dies with status {} (timed out: {}) after {:.1}s, stderr tail:\n{}\nexpected: every step returns a state or an error (for instance an error once an item or the stack exceeds a size limit)",
        r.status,
        r.timed_out,
        r.seconds,
        r.stderr_tail
    );
}

extern "C" {
    fn pipe(fds: *mut i32) -> i32;
    fn dup(fd: i32) -> i32;
    fn dup2(a: i32, b: i32) -> i32;
    fn close(fd: i32) -> i32;
}

/// child: standard output is a pipe whose reader has gone away (as in `program | head -1`)
#[test]
#[ignore]
fn child_stdout_is_a_broken_pipe() {
    if !is_child() {
        return;
    }
    let script = Script::from_bytes(&[0x51, 0x52, 0x93]).unwrap(); // OP_1 OP_2 OP_ADD
    let (stepped, ran);
    unsafe {
        let saved = dup(1);
        let mut fds = [0i32; 2];
        assert_eq!(pipe(fds.as_mut_ptr()), 0);
        dup2(fds[1], 1);
        close(fds[0]);
        close(fds[1]);
        stepped = catch_unwind(AssertUnwindSafe(|| {
            let mut it = Interpreter::from_script(&script);
            let mut n = 0;
            while let Some(r) = it.next() {
                r.unwrap();
                n += 1;
            }
            (n, it.state().stack.clone())
        }));
        ran = catch_unwind(AssertUnwindSafe(|| {
            let mut it = Interpreter::from_script(&script);
            let r = it.run().map_err(|e| e.to_string());
            (r, it.state().stack.clone())
        }));
        dup2(saved, 1);
        close(saved);
    }
    eprintln!("stepping: {:?}", stepped.as_ref().map_err(|p| panic_text(p)));
    eprintln!("run(): {:?}", ran.as_ref().map_err(|p| panic_text(p)));
    assert_eq!(stepped.ok(), Some((3, vec![vec![3u8]])));
    match ran {
        Ok((r, stack)) => assert_eq!((r, stack), (Ok(()), vec![vec![3u8]])),
        Err(p) => {
            eprintln!("RUN PANICKED: {}", panic_text(&p));
            std::process::exit(3);
        }
    }
}

/// BORDERLINE (the environment is not in the property's quantifier, the script is the plainest possible).
/// Interpreter::run() prints every state with println!; when standard output is a pipe whose reader has gone
/// (`program | head -1`) println! panics, so run() panics on OP_1 OP_2 OP_ADD while stepping the same script with
/// next() gives three states and the stack [3]. Stepping through OP_CHECKSIG / OP_CHECKMULTISIG prints as well.
#[test]
fn violation_borderline_run_panics_when_stdout_is_a_broken_pipe() {
    let r = run_child("child_stdout_is_a_broken_pipe", None, 120, &[]);
    assert!(
        !r.stderr_tail.contains("RUN PANICKED"),
        "input: script 515293 (OP_1 OP_2 OP_ADD) with standard output a pipe without reader; library: stepping gives 3 states and [03] but run() panics; expected: run() ends like stepping, Ok(()) with stack [03]. child stderr:\n{}",
        r.stderr_tail
    );
    assert!(r.stderr_tail.contains("stepping: Ok"), "child did not run as planned: {} {}", r.status, r.stderr_tail);
}

/// Observation, not a violation: stepping is quadratic in the length of the script (every step clones the whole element
/// list and the whole state, executed opcodes included). It stays finite, which is all C16 asks.
#[test]
fn ok_long_flat_script_terminates() {
    let r = run_child("child_long_flat_script", Some(2_000_000), 600, &[("HUNT_LEN", "10000".into())]);
    assert!(r.success, "{} {}", r.status, r.stderr_tail);
    println!("10 000 elements stepped in {:.1}s", r.seconds);
}

#[test]
fn ok_mul_squaring_small() {
    let r = run_child("child_mul_squaring", Some(2_000_000), 600, &[("HUNT_ROUNDS", "22".into())]);
    assert!(r.success, "{} {}", r.status, r.stderr_tail);
}

/// child: K hand-built conditional blocks, each holding 499 levels of plain OP_IF .. OP_ENDIF opcodes around the next one.
/// No list of elements nests deeper than the 500 levels the folding code allows, yet the folded script is K x 500 deep.
#[test]
#[ignore]
fn child_fold_limit_is_per_block() {
    if !is_child() {
        return;
    }
    let k = env_usize("HUNT_BLOCKS", 4);
    let flat = env_usize("HUNT_FLAT", 499);
    let stack_kb = env_usize("HUNT_STACK_KB", 2048);
    let handle = std::thread::Builder::new()
        .stack_size(stack_kb * 1024)
        .spawn(move || {
            let mut inner: Vec<ScriptBit> = vec![op(OpCodes::OP_7)];
            for _ in 0..k {
                let mut branch = vec![];
                for _ in 0..flat {
                    branch.extend([op(OpCodes::OP_1), op(OpCodes::OP_IF)]);
                }
                branch.extend(inner);
                for _ in 0..flat {
                    branch.push(op(OpCodes::OP_ENDIF));
                }
                inner = vec![op(OpCodes::OP_1), ScriptBit::If { code: OpCodes::OP_IF, pass: branch, fail: None }];
            }
            let script = Script::from_script_bits(inner);
            let mut it = Interpreter::from_script(&script);
            let mut steps = 0usize;
            while let Some(r) = it.next() {
                if let Err(e) = r {
                    eprintln!("ended with error after {} steps: {}", steps, e);
                    std::mem::forget(it);
                    std::mem::forget(script);
                    return;
                }
                steps += 1;
            }
            eprintln!("ended normally after {} steps, stack {:?}", steps, it.state().stack);
            std::mem::forget(it);
            std::mem::forget(script);
        })
        .unwrap();
    handle.join().expect("thread finished");
}

/// Related to the recorded finding about constructed nesting (not pursued further): the 500 level limit of the folding of
/// element-built conditionals is applied to every list of elements on its own, so two hand-built blocks that each hold
/// 499 plain levels fold into 1000 levels. That still runs on a 2 MiB thread; 8 such blocks overflow it.
#[test]
fn ok_two_blocks_of_499_plain_levels_fold_to_1000_and_run() {
    let r = run_child("child_fold_limit_is_per_block", Some(3_000_000), 600, &[("HUNT_BLOCKS", "2".into()), ("HUNT_FLAT", "499".into())]);
    assert!(r.success && r.stderr_tail.contains("ended normally after 2001 steps"), "{} {}", r.status, r.stderr_tail);
}

/// Outside C16 (it is a statement about what scripts mean, not about totality), recorded as an observation: a parsed
/// OP_VERIF / OP_VERNOTIF with a matching OP_ENDIF runs as OP_IF / OP_NOTIF, while the Bitcoin rule is that the opcode
/// invalidates the script. Every step does give a state or an error, which is what C16 asks.
#[test]
fn ok_observation_verif_runs_as_if() {
    quiet_panics();
    let t = check_bytes(&[0x51, 0x65, 0x52, 0x68], true).unwrap().unwrap();
    println!("OP_1 OP_VERIF OP_2 OP_ENDIF -> {:?}", t);
    let t = check_bytes(&[0x00, 0x66, 0x52, 0x68], true).unwrap().unwrap();
    println!("OP_0 OP_VERNOTIF OP_2 OP_ENDIF -> {:?}", t);
    // alone (cannot be folded) they are DisabledOpCode errors
    let t = check_bits(&[op(OpCodes::OP_1), op(OpCodes::OP_VERIF)], true).unwrap();
    assert!(t.outcome.is_err());
    assert_eq!(t.stack, vec![vec![1u8]]);
}

#[test]
fn ok_fuzz_asm_route() {
    quiet_panics();
    let mut rng = Rng::new(12);
    let menu = item_menu();
    let codes: Vec<OpCodes> = all_opcodes().into_iter().filter(|c| !matches!(c, OpCodes::OP_PUSHDATA1 | OpCodes::OP_PUSHDATA2 | OpCodes::OP_PUSHDATA4)).collect();
    let mut failures = vec![];
    let mut ran = 0;
    for i in 0..40_000 {
        let bits = random_program(&mut rng, &menu, &codes);
        if risky_allocation(&bits) {
            continue;
        }
        // the ASM text is only a way of writing the input down
        let asm = Script::from_script_bits(bits.clone()).to_asm_string();
        let script = match catch_unwind(|| Script::from_asm_string(&asm)) {
            Ok(Ok(s)) => s,
            Ok(Err(_)) => continue,
            Err(p) => {
                failures.push(format!("PANIC parsing asm '{}': {}", asm, panic_text(&p)));
                continue;
            }
        };
        if risky_allocation(&script.to_script_bits()) {
            continue;
        }
        ran += 1;
        if let Err(e) = check_total(move || Interpreter::from_script(&script), i % 40 == 0) {
            failures.push(format!("asm '{}': {}", asm, e));
        }
    }
    assert!(ran > 10_000, "{}", ran);
    assert!(failures.is_empty(), "{} failures, first: {:#?}", failures.len(), &failures[..failures.len().min(5)]);
}

#[test]
fn ok_iterator_adaptors_end() {
    quiet_panics();
    use OpCodes::*;
    let failing = Script::from_script_bits(vec![op(OP_1), op(OP_2), op(OP_0), op(OP_VERIFY), op(OP_3), op(OP_4)]);
    // three good steps, one error, then the end
    assert_eq!(Interpreter::from_script(&failing).count(), 4);
    assert!(Interpreter::from_script(&failing).last().unwrap().is_err());
    let collected: Vec<_> = Interpreter::from_script(&failing).collect();
    assert_eq!(collected.iter().filter(|r| r.is_ok()).count(), 3);
    let good = Script::from_script_bits(vec![op(OP_1), op(OP_IF), op(OP_2), op(OP_ELSE), op(OP_3), op(OP_ENDIF), op(OP_RETURN), op(OP_5)]);
    // OP_1, the conditional, OP_2, OP_RETURN
    assert_eq!(Interpreter::from_script(&good).count(), 4);
    assert_eq!(Interpreter::from_script(&good).last().unwrap().unwrap().stack, vec![vec![2u8]]);
    // by_ref / fuse / chained use
    let mut it = Interpreter::from_script(&good);
    assert_eq!(it.by_ref().take(2).count(), 2);
    assert_eq!(it.by_ref().count(), 2);
    assert_eq!(it.by_ref().count(), 0);
    assert!(it.run().is_ok());
    assert_eq!(it.state().stack, vec![vec![2u8]]);
}
