// Second-pass hunt for property C16 (interpreter is total; stepping equals run; stacks survive an error).
// Public API only.
#![allow(clippy::all)]
#![allow(dead_code)]

use bsv::*;
use num_bigint::{BigInt, Sign};
use num_traits::{FromPrimitive, Zero};
use std::panic::{catch_unwind, AssertUnwindSafe};

// ---------------------------------------------------------------------------------------------
// helpers
// ---------------------------------------------------------------------------------------------

struct Rng(u64);
impl Rng {
    fn next(&mut self) -> u64 {
        // xorshift64*
        let mut x = self.0;
        x ^= x >> 12;
        x ^= x << 25;
        x ^= x >> 27;
        self.0 = x;
        x.wrapping_mul(0x2545F4914F6CDD1D)
    }
    fn below(&mut self, n: u64) -> u64 {
        self.next() % n
    }
    fn bytes(&mut self, n: usize) -> Vec<u8> {
        (0..n).map(|_| self.next() as u8).collect()
    }
}

type Stacks = (Vec<Vec<u8>>, Vec<Vec<u8>>);

fn stacks(i: &Interpreter) -> Stacks {
    let s = i.state();
    (s.stack.clone(), s.alt_stack.clone())
}

/// Outcome of driving an interpreter by single steps: final stacks, whether an error was met, number of items yielded.
/// Checks on the way: every Ok state equals interpreter.state(); after an Err the stacks are those of the last Ok state
/// (or the initial ones); the iteration ends (None) right after the Err and stays ended.
fn drive_by_steps(mut i: Interpreter, max_steps: usize) -> (Stacks, bool, usize) {
    let mut last_good = stacks(&i);
    let mut steps = 0;
    let mut failed = false;
    loop {
        assert!(steps <= max_steps, "did not terminate within {} steps", max_steps);
        match i.next() {
            None => break,
            Some(Ok(state)) => {
                steps += 1;
                assert!(!failed, "a state was returned after an error");
                let now = stacks(&i);
                assert_eq!((state.stack.clone(), state.alt_stack.clone()), now, "returned state differs from interpreter.state()");
                last_good = now;
            }
            Some(Err(_)) => {
                steps += 1;
                assert!(!failed, "a second error was returned");
                failed = true;
                assert_eq!(stacks(&i), last_good, "stacks changed by a failing step");
            }
        }
    }
    // stays ended
    assert!(i.next().is_none());
    assert!(i.next().is_none());
    assert_eq!(stacks(&i), last_good, "stacks changed after the end");
    (last_good, failed, steps)
}

fn drive_by_run(mut i: Interpreter) -> (Stacks, bool) {
    let r = i.run();
    (stacks(&i), r.is_err())
}

/// step == run, no panic; returns (stacks, failed)
fn check_total(i: &Interpreter, max_steps: usize, what: &str) -> (Stacks, bool) {
    let a = i.clone();
    let b = i.clone();
    let stepped = catch_unwind(AssertUnwindSafe(|| drive_by_steps(a, max_steps)));
    let ran = catch_unwind(AssertUnwindSafe(|| drive_by_run(b)));
    let stepped = match stepped {
        Ok(v) => v,
        Err(e) => panic!("PANIC while stepping {}: {:?}", what, e.downcast_ref::<String>().cloned().or_else(|| e.downcast_ref::<&str>().map(|s| s.to_string()))),
    };
    let ran = match ran {
        Ok(v) => v,
        Err(e) => panic!("PANIC while running {}: {:?}", what, e.downcast_ref::<String>().cloned().or_else(|| e.downcast_ref::<&str>().map(|s| s.to_string()))),
    };
    assert_eq!(stepped.0, ran.0, "final stacks differ between stepping and run for {}", what);
    assert_eq!(stepped.1, ran.1, "outcome differs between stepping and run for {}", what);
    (stepped.0, stepped.1)
}

fn all_opcodes() -> Vec<OpCodes> {
    (0u16..=255).filter_map(|b| OpCodes::from_u8(b as u8)).collect()
}

// script numbers, by the specification: little-endian sign-magnitude, minimal on output
fn num_decode(b: &[u8]) -> BigInt {
    if b.is_empty() {
        return BigInt::zero();
    }
    let mut m = b.to_vec();
    let neg = m[m.len() - 1] & 0x80 != 0;
    let l = m.len();
    m[l - 1] &= 0x7f;
    let v = BigInt::from_bytes_le(Sign::Plus, &m);
    if neg {
        -v
    } else {
        v
    }
}

fn num_encode(v: &BigInt) -> Vec<u8> {
    if v.is_zero() {
        return vec![];
    }
    let (sign, mut m) = v.to_bytes_le();
    if m[m.len() - 1] & 0x80 != 0 {
        m.push(if sign == Sign::Minus { 0x80 } else { 0 });
    } else if sign == Sign::Minus {
        let l = m.len();
        m[l - 1] |= 0x80;
    }
    m
}

fn truthy(b: &[u8]) -> bool {
    for (i, x) in b.iter().enumerate() {
        if *x != 0 {
            return !(i == b.len() - 1 && *x == 0x80);
        }
    }
    false
}

fn push_bit(data: &[u8]) -> ScriptBit {
    match data.len() {
        0 => ScriptBit::OpCode(OpCodes::OP_0),
        1..=75 => ScriptBit::Push(data.to_vec()),
        76..=255 => ScriptBit::PushData(OpCodes::OP_PUSHDATA1, data.to_vec()),
        256..=65535 => ScriptBit::PushData(OpCodes::OP_PUSHDATA2, data.to_vec()),
        _ => ScriptBit::PushData(OpCodes::OP_PUSHDATA4, data.to_vec()),
    }
}

fn interesting_operands() -> Vec<Vec<u8>> {
    let mut v: Vec<Vec<u8>> = vec![
        vec![],
        vec![0x00],
        vec![0x80],
        vec![0x01],
        vec![0x81],
        vec![0x02],
        vec![0x7f],
        vec![0xff],
        vec![0x08],
        vec![0x09],
        vec![0x00, 0x80],
        vec![0x00, 0x00, 0x00, 0x00, 0x00],
        vec![0x01, 0x00, 0x00, 0x00, 0x00, 0x00],
        vec![0xff, 0xff, 0xff, 0x7f],                   // i32::MAX
        vec![0xff, 0xff, 0xff, 0xff],                   // -i32::MAX
        vec![0x00, 0x00, 0x00, 0x80, 0x00],             // 2^31
        vec![0x00, 0x00, 0x00, 0x80, 0x80],             // -2^31
        vec![0x01, 0x00, 0x00, 0x80, 0x80],             // -2^31-1
        vec![0xff, 0xff, 0xff, 0xff, 0x00],             // 2^32-1
        vec![0xff, 0xff, 0xff, 0xff, 0xff, 0xff, 0xff, 0x7f], // i64::MAX
        vec![0xff, 0xff, 0xff, 0xff, 0xff, 0xff, 0xff, 0xff], // -i64::MAX
        vec![0x00, 0x00, 0x00, 0x00, 0x00, 0x00, 0x00, 0x80, 0x00], // 2^63
        vec![0x00, 0x00, 0x00, 0x00, 0x00, 0x00, 0x00, 0x00, 0x01], // 2^64
        vec![0x00, 0x00, 0x00, 0x00, 0x00, 0x00, 0x00, 0x00, 0x81], // -2^64
        vec![0xab; 20],
        vec![0xab; 33],
        b"hello".to_vec(),
    ];
    v.push(vec![0x55; 300]);
    v
}

// ---------------------------------------------------------------------------------------------
// E1: every opcode value the parser accepts, at every stack depth 0..=6, over boundary operands
// ---------------------------------------------------------------------------------------------

#[test]
fn e01_every_opcode_every_depth_boundary_operands() {
    let ops = all_opcodes();
    let operands = interesting_operands();
    let mut rng = Rng(0x1234_5678_9abc_def1);
    let mut cases = 0usize;
    for op in &ops {
        // conditionals are exercised elsewhere in nested form; here they run as lone opcodes as well
        for depth in 0..=6usize {
            let reps = if depth == 0 { 1 } else { 60 };
            for _ in 0..reps {
                let mut bits = vec![];
                for _ in 0..depth {
                    let o = &operands[rng.below(operands.len() as u64) as usize];
                    bits.push(push_bit(o));
                }
                // guard against the (separately reported) giant allocations: NUM2BIN with a huge size operand
                if *op == OpCodes::OP_NUM2BIN {
                    let top = match bits.last() {
                        Some(ScriptBit::Push(top)) | Some(ScriptBit::PushData(_, top)) => top.clone(),
                        _ => vec![],
                    };
                    if num_decode(&top) > BigInt::from(100_000) {
                        continue;
                    }
                }
                bits.push(ScriptBit::OpCode(*op));
                let script = Script::from_script_bits(bits.clone());
                let i = Interpreter::from_script(&script);
                check_total(&i, 100, &format!("{:?}", script.to_asm_string()));
                cases += 1;
                // the same through the byte parser, when it parses
                if let Ok(parsed) = Script::from_bytes(&script.to_bytes()) {
                    let i = Interpreter::from_script(&parsed);
                    check_total(&i, 100, &format!("parsed {:?}", script.to_asm_string()));
                }
            }
        }
    }
    eprintln!("e01: {} opcodes, {} cases", ops.len(), cases);
    assert!(ops.len() > 100);
}

/// Pre-screens a case by guarded stepping: false when the script would ask for a giant allocation
/// (OP_NUM2BIN with a size operand above 100 000, or any item above 1 MB). Those are the subject of a separate experiment.
fn safe_to_run(i: &Interpreter, max_steps: usize) -> bool {
    let mut i = i.clone();
    for _ in 0..max_steps {
        let bits = i.script_bits();
        let st = i.state();
        if st.stack.iter().chain(st.alt_stack.iter()).any(|x| x.len() > 1_000_000) {
            return false;
        }
        if let Some(ScriptBit::OpCode(OpCodes::OP_NUM2BIN)) = bits.get(i.script_index()) {
            if let Some(top) = st.stack.last() {
                if num_decode(top) > BigInt::from(100_000) {
                    return false;
                }
            }
        }
        match i.next() {
            None => return true,
            Some(Err(_)) => return true,
            Some(Ok(_)) => {}
        }
    }
    false
}

// ---------------------------------------------------------------------------------------------
// E2: random byte strings and random opcode sequences through the byte parser
// ---------------------------------------------------------------------------------------------

#[test]
fn e02_random_scripts_step_equals_run_and_no_panic() {
    let mut rng = Rng(0xdead_beef_cafe_f00d);
    let ops = all_opcodes();
    let operands = interesting_operands();
    let mut parsed_ok = 0;
    let mut ran = 0;
    for round in 0..6000 {
        let mut bytes = vec![];
        let n = 1 + rng.below(30) as usize;
        for _ in 0..n {
            match rng.below(10) {
                0 => bytes.push(rng.next() as u8), // any byte at all
                1..=3 => {
                    let o = &operands[rng.below(operands.len() as u64 - 1) as usize];
                    bytes.extend(Script::from_script_bits(vec![push_bit(o)]).to_bytes());
                }
                4 => {
                    let l = rng.below(5) as usize;
                    let d = rng.bytes(l);
                    bytes.extend(Script::from_script_bits(vec![push_bit(&d)]).to_bytes());
                }
                _ => bytes.push(ops[rng.below(ops.len() as u64) as usize] as u8),
            }
        }
        // make conditionals more likely to balance
        if round % 3 == 0 {
            let opens = bytes.iter().filter(|b| **b == 0x63 || **b == 0x64).count();
            for _ in 0..opens {
                bytes.push(0x68);
            }
        }
        let script = match catch_unwind(|| Script::from_bytes(&bytes)) {
            Ok(Ok(s)) => s,
            Ok(Err(_)) => continue,
            Err(_) => panic!("parser panicked on {}", hex::encode(&bytes)),
        };
        parsed_ok += 1;
        let i = Interpreter::from_script(&script);
        if !safe_to_run(&i, 500) {
            continue;
        }
        ran += 1;
        check_total(&i, 500, &hex::encode(&bytes));
    }
    eprintln!("e02: parsed {}, ran {}", parsed_ok, ran);
    assert!(ran > 1000);
}

// ---------------------------------------------------------------------------------------------
// E3: differential test against a reference interpreter written from the specification
//     (flat execution with a condition stack, as the node does it)
// ---------------------------------------------------------------------------------------------

#[derive(Clone, Debug, PartialEq)]
enum Tok {
    Push(Vec<u8>),
    Op(OpCodes),
}

#[derive(Debug, PartialEq)]
enum RefOutcome {
    Ok(Stacks),
    Fail,
}

fn ref_shift_left(x: &[u8], n: usize) -> Vec<u8> {
    // bit string, byte 0 most significant
    let total = x.len() * 8;
    let mut out = vec![0u8; x.len()];
    for dst in 0..total {
        let src = dst + n;
        if src < total && (x[src / 8] >> (7 - src % 8)) & 1 == 1 {
            out[dst / 8] |= 1 << (7 - dst % 8);
        }
    }
    out
}

fn ref_shift_right(x: &[u8], n: usize) -> Vec<u8> {
    let total = x.len() * 8;
    let mut out = vec![0u8; x.len()];
    for dst in 0..total {
        if dst >= n {
            let src = dst - n;
            if (x[src / 8] >> (7 - src % 8)) & 1 == 1 {
                out[dst / 8] |= 1 << (7 - dst % 8);
            }
        }
    }
    out
}

fn ref_run(toks: &[Tok]) -> RefOutcome {
    use OpCodes::*;
    let mut st: Vec<Vec<u8>> = vec![];
    let mut alt: Vec<Vec<u8>> = vec![];
    let mut vf_exec: Vec<bool> = vec![];
    let mut vf_else: Vec<bool> = vec![];
    let mut non_top_level_return = false;

    macro_rules! pop {
        () => {
            match st.pop() {
                Some(v) => v,
                None => return RefOutcome::Fail,
            }
        };
    }
    macro_rules! popn {
        () => {
            num_decode(&pop!())
        };
    }
    macro_rules! need {
        ($n:expr) => {
            if st.len() < $n {
                return RefOutcome::Fail;
            }
        };
    }

    for tok in toks {
        let is_cond = matches!(tok, Tok::Op(OP_IF) | Tok::Op(OP_NOTIF) | Tok::Op(OP_ELSE) | Tok::Op(OP_ENDIF));
        let f_exec = vf_exec.iter().all(|b| *b) && (!non_top_level_return || *tok == Tok::Op(OP_RETURN));
        if !f_exec && !is_cond {
            continue;
        }
        match tok {
            Tok::Push(d) => st.push(d.clone()),
            Tok::Op(op) => match op {
                OP_0 => st.push(vec![]),
                OP_1NEGATE => st.push(vec![0x81]),
                OP_1 | OP_2 | OP_3 | OP_4 | OP_5 | OP_6 | OP_7 | OP_8 | OP_9 | OP_10 | OP_11 | OP_12 | OP_13 | OP_14 | OP_15 | OP_16 => st.push(vec![*op as u8 - 80]),
                OP_NOP | OP_NOP1 | OP_NOP4 | OP_NOP5 | OP_NOP6 | OP_NOP7 | OP_NOP8 | OP_NOP9 | OP_NOP10 => {}
                OP_IF | OP_NOTIF => {
                    let mut v = false;
                    if f_exec {
                        let top = pop!();
                        v = truthy(&top);
                        if *op == OP_NOTIF {
                            v = !v;
                        }
                    }
                    vf_exec.push(v);
                    vf_else.push(false);
                }
                OP_ELSE => {
                    if vf_exec.is_empty() || *vf_else.last().unwrap() {
                        return RefOutcome::Fail;
                    }
                    let l = vf_exec.len();
                    vf_exec[l - 1] = !vf_exec[l - 1];
                    vf_else[l - 1] = true;
                }
                OP_ENDIF => {
                    if vf_exec.is_empty() {
                        return RefOutcome::Fail;
                    }
                    vf_exec.pop();
                    vf_else.pop();
                }
                OP_VERIFY => {
                    if !truthy(&pop!()) {
                        return RefOutcome::Fail;
                    }
                }
                OP_RETURN => {
                    if vf_exec.is_empty() {
                        return RefOutcome::Ok((st, alt));
                    }
                    non_top_level_return = true;
                }
                OP_TOALTSTACK => {
                    let v = pop!();
                    alt.push(v);
                }
                OP_FROMALTSTACK => match alt.pop() {
                    Some(v) => st.push(v),
                    None => return RefOutcome::Fail,
                },
                OP_2DROP => {
                    need!(2);
                    st.pop();
                    st.pop();
                }
                OP_2DUP => {
                    need!(2);
                    let l = st.len();
                    let (a, b) = (st[l - 2].clone(), st[l - 1].clone());
                    st.push(a);
                    st.push(b);
                }
                OP_3DUP => {
                    need!(3);
                    let l = st.len();
                    let (a, b, c) = (st[l - 3].clone(), st[l - 2].clone(), st[l - 1].clone());
                    st.push(a);
                    st.push(b);
                    st.push(c);
                }
                OP_2OVER => {
                    need!(4);
                    let l = st.len();
                    let (a, b) = (st[l - 4].clone(), st[l - 3].clone());
                    st.push(a);
                    st.push(b);
                }
                OP_2ROT => {
                    need!(6);
                    let l = st.len();
                    let a = st.remove(l - 6);
                    let b = st.remove(l - 6);
                    st.push(a);
                    st.push(b);
                }
                OP_2SWAP => {
                    need!(4);
                    let l = st.len();
                    st.swap(l - 4, l - 2);
                    st.swap(l - 3, l - 1);
                }
                OP_IFDUP => {
                    need!(1);
                    let t = st.last().unwrap().clone();
                    if truthy(&t) {
                        st.push(t);
                    }
                }
                OP_DEPTH => {
                    let d = BigInt::from(st.len());
                    st.push(num_encode(&d));
                }
                OP_DROP => {
                    pop!();
                }
                OP_DUP => {
                    need!(1);
                    let t = st.last().unwrap().clone();
                    st.push(t);
                }
                OP_NIP => {
                    need!(2);
                    let l = st.len();
                    st.remove(l - 2);
                }
                OP_OVER => {
                    need!(2);
                    let l = st.len();
                    let t = st[l - 2].clone();
                    st.push(t);
                }
                OP_PICK | OP_ROLL => {
                    need!(2);
                    let n = popn!();
                    if n < BigInt::zero() || n >= BigInt::from(st.len()) {
                        return RefOutcome::Fail;
                    }
                    let n = n.to_usize_checked();
                    let l = st.len();
                    let v = st[l - 1 - n].clone();
                    if *op == OP_ROLL {
                        st.remove(l - 1 - n);
                    }
                    st.push(v);
                }
                OP_ROT => {
                    need!(3);
                    let l = st.len();
                    let v = st.remove(l - 3);
                    st.push(v);
                }
                OP_SWAP => {
                    need!(2);
                    let l = st.len();
                    st.swap(l - 2, l - 1);
                }
                OP_TUCK => {
                    need!(2);
                    let l = st.len();
                    let t = st[l - 1].clone();
                    st.insert(l - 2, t);
                }
                OP_CAT => {
                    need!(2);
                    let b = pop!();
                    let mut a = pop!();
                    a.extend(b);
                    st.push(a);
                }
                OP_SPLIT => {
                    need!(2);
                    let n = popn!();
                    let x = pop!();
                    if n < BigInt::zero() || n > BigInt::from(x.len()) {
                        return RefOutcome::Fail;
                    }
                    let n = n.to_usize_checked();
                    st.push(x[..n].to_vec());
                    st.push(x[n..].to_vec());
                }
                OP_NUM2BIN => {
                    need!(2);
                    let size = popn!();
                    let x = pop!();
                    if size < BigInt::zero() || size > BigInt::from(i32::MAX) {
                        return RefOutcome::Fail;
                    }
                    let size = size.to_usize_checked();
                    let mut m = num_encode(&num_decode(&x));
                    if m.len() > size {
                        return RefOutcome::Fail;
                    }
                    if m.len() < size {
                        let mut sign = 0u8;
                        if let Some(l) = m.last_mut() {
                            sign = *l & 0x80;
                            *l &= 0x7f;
                        }
                        while m.len() < size - 1 {
                            m.push(0);
                        }
                        m.push(sign);
                    }
                    st.push(m);
                }
                OP_BIN2NUM => {
                    let n = popn!();
                    st.push(num_encode(&n));
                }
                OP_SIZE => {
                    need!(1);
                    let l = BigInt::from(st.last().unwrap().len());
                    st.push(num_encode(&l));
                }
                OP_INVERT => {
                    let x = pop!();
                    st.push(x.iter().map(|b| !b).collect());
                }
                OP_AND | OP_OR | OP_XOR => {
                    need!(2);
                    let b = pop!();
                    let a = pop!();
                    if a.len() != b.len() {
                        return RefOutcome::Fail;
                    }
                    st.push(
                        a.iter()
                            .zip(b.iter())
                            .map(|(x, y)| match op {
                                OP_AND => x & y,
                                OP_OR => x | y,
                                _ => x ^ y,
                            })
                            .collect(),
                    );
                }
                OP_EQUAL | OP_EQUALVERIFY => {
                    need!(2);
                    let b = pop!();
                    let a = pop!();
                    let eq = a == b;
                    if *op == OP_EQUALVERIFY {
                        if !eq {
                            return RefOutcome::Fail;
                        }
                    } else {
                        st.push(if eq { vec![1] } else { vec![] });
                    }
                }
                OP_1ADD | OP_1SUB | OP_NEGATE | OP_ABS | OP_NOT | OP_0NOTEQUAL => {
                    let a = popn!();
                    let r = match op {
                        OP_1ADD => a + 1,
                        OP_1SUB => a - 1,
                        OP_NEGATE => -a,
                        OP_ABS => {
                            if a < BigInt::zero() {
                                -a
                            } else {
                                a
                            }
                        }
                        OP_NOT => BigInt::from(a.is_zero() as u8),
                        _ => BigInt::from(!a.is_zero() as u8),
                    };
                    st.push(num_encode(&r));
                }
                OP_ADD | OP_SUB | OP_MUL | OP_DIV | OP_MOD | OP_BOOLAND | OP_BOOLOR | OP_NUMEQUAL | OP_NUMEQUALVERIFY | OP_NUMNOTEQUAL | OP_LESSTHAN | OP_GREATERTHAN | OP_LESSTHANOREQUAL
                | OP_GREATERTHANOREQUAL | OP_MIN | OP_MAX => {
                    need!(2);
                    let b = popn!();
                    let a = popn!();
                    let boolean = |v: bool| BigInt::from(v as u8);
                    let r = match op {
                        OP_ADD => &a + &b,
                        OP_SUB => &a - &b,
                        OP_MUL => &a * &b,
                        OP_DIV => {
                            if b.is_zero() {
                                return RefOutcome::Fail;
                            }
                            ref_div_trunc(&a, &b).0
                        }
                        OP_MOD => {
                            if b.is_zero() {
                                return RefOutcome::Fail;
                            }
                            ref_div_trunc(&a, &b).1
                        }
                        OP_BOOLAND => boolean(!a.is_zero() && !b.is_zero()),
                        OP_BOOLOR => boolean(!a.is_zero() || !b.is_zero()),
                        OP_NUMEQUAL | OP_NUMEQUALVERIFY => boolean(a == b),
                        OP_NUMNOTEQUAL => boolean(a != b),
                        OP_LESSTHAN => boolean(a < b),
                        OP_GREATERTHAN => boolean(a > b),
                        OP_LESSTHANOREQUAL => boolean(a <= b),
                        OP_GREATERTHANOREQUAL => boolean(a >= b),
                        OP_MIN => {
                            if a < b {
                                a.clone()
                            } else {
                                b.clone()
                            }
                        }
                        _ => {
                            if a > b {
                                a.clone()
                            } else {
                                b.clone()
                            }
                        }
                    };
                    if *op == OP_NUMEQUALVERIFY {
                        if r.is_zero() {
                            return RefOutcome::Fail;
                        }
                    } else {
                        st.push(num_encode(&r));
                    }
                }
                OP_WITHIN => {
                    need!(3);
                    let max = popn!();
                    let min = popn!();
                    let x = popn!();
                    st.push(if x >= min && x < max { vec![1] } else { vec![] });
                }
                OP_LSHIFT | OP_RSHIFT => {
                    need!(2);
                    let n = popn!();
                    let x = pop!();
                    if n < BigInt::zero() {
                        return RefOutcome::Fail;
                    }
                    let n = if n > BigInt::from(1_000_000u32) { 1_000_000usize } else { n.to_usize_checked() };
                    st.push(if *op == OP_LSHIFT { ref_shift_left(&x, n) } else { ref_shift_right(&x, n) });
                }
                _ => return RefOutcome::Fail, // reserved / disabled / unknown words fail when executed
            },
        }
    }
    if !vf_exec.is_empty() {
        return RefOutcome::Fail;
    }
    RefOutcome::Ok((st, alt))
}

/// Truncating division and remainder on magnitudes (independent of the sign conventions of the bigint crate)
fn ref_div_trunc(a: &BigInt, b: &BigInt) -> (BigInt, BigInt) {
    let (am, bm) = (a.magnitude().clone(), b.magnitude().clone());
    let q = BigInt::from(&am / &bm);
    let r = BigInt::from(&am % &bm);
    let q = if (a.sign() == Sign::Minus) != (b.sign() == Sign::Minus) { -q } else { q };
    let r = if a.sign() == Sign::Minus { -r } else { r };
    (q, r)
}

trait ToUsizeChecked {
    fn to_usize_checked(&self) -> usize;
}
impl ToUsizeChecked for BigInt {
    fn to_usize_checked(&self) -> usize {
        let (s, d) = self.to_u64_digits();
        assert!(s != Sign::Minus && d.len() <= 1);
        d.first().cloned().unwrap_or(0) as usize
    }
}

fn toks_to_flat_bits(toks: &[Tok]) -> Vec<ScriptBit> {
    toks.iter()
        .map(|t| match t {
            Tok::Push(d) => push_bit(d),
            Tok::Op(o) => ScriptBit::OpCode(*o),
        })
        .collect()
}

fn diff_ops() -> Vec<OpCodes> {
    use OpCodes::*;
    vec![
        OP_0, OP_1NEGATE, OP_1, OP_2, OP_3, OP_4, OP_5, OP_8, OP_16, OP_NOP, OP_IF, OP_NOTIF, OP_ELSE, OP_ENDIF, OP_VERIFY, OP_RETURN, OP_TOALTSTACK, OP_FROMALTSTACK, OP_2DROP, OP_2DUP, OP_3DUP,
        OP_2OVER, OP_2ROT, OP_2SWAP, OP_IFDUP, OP_DEPTH, OP_DROP, OP_DUP, OP_NIP, OP_OVER, OP_PICK, OP_ROLL, OP_ROT, OP_SWAP, OP_TUCK, OP_CAT, OP_SPLIT, OP_NUM2BIN, OP_BIN2NUM, OP_SIZE, OP_INVERT,
        OP_AND, OP_OR, OP_XOR, OP_EQUAL, OP_EQUALVERIFY, OP_1ADD, OP_1SUB, OP_NEGATE, OP_ABS, OP_NOT, OP_0NOTEQUAL, OP_ADD, OP_SUB, OP_MUL, OP_DIV, OP_MOD, OP_LSHIFT, OP_RSHIFT, OP_BOOLAND, OP_BOOLOR,
        OP_NUMEQUAL, OP_NUMEQUALVERIFY, OP_NUMNOTEQUAL, OP_LESSTHAN, OP_GREATERTHAN, OP_LESSTHANOREQUAL, OP_GREATERTHANOREQUAL, OP_MIN, OP_MAX, OP_WITHIN, OP_RESERVED, OP_NOP1, OP_NOP10,
    ]
}

fn gen_tokens(rng: &mut Rng, ops: &[OpCodes], balanced: bool) -> Vec<Tok> {
    use OpCodes::*;
    let n = 1 + rng.below(28) as usize;
    let mut toks = vec![];
    let mut open: Vec<bool> = vec![]; // per open conditional: has an else been written
    for _ in 0..n {
        let r = rng.below(100);
        if r < 35 {
            // small numbers dominate so that index / size operands are often in range
            let d = match rng.below(8) {
                0 => vec![],
                1 => vec![rng.below(6) as u8],
                2 => vec![rng.below(6) as u8 | 0x80],
                3 => rng.bytes(1),
                4 => rng.bytes(2),
                5 => rng.bytes(4),
                6 => {
                    let l = rng.below(9) as usize;
                    rng.bytes(l)
                }
                _ => vec![0x00, 0x80],
            };
            toks.push(Tok::Push(d));
            continue;
        }
        let op = ops[rng.below(ops.len() as u64) as usize];
        if balanced {
            match op {
                OP_IF | OP_NOTIF => open.push(false),
                OP_ELSE => match open.last_mut() {
                    Some(e) if !*e => *e = true,
                    _ => continue,
                },
                OP_ENDIF => {
                    if open.pop().is_none() {
                        continue;
                    }
                }
                _ => {}
            }
        }
        toks.push(Tok::Op(op));
    }
    if balanced {
        for _ in 0..open.len() {
            toks.push(Tok::Op(OP_ENDIF));
        }
    }
    toks
}

fn lib_outcome(i: &Interpreter, what: &str) -> Option<RefOutcome> {
    if !safe_to_run(i, 2000) {
        return None;
    }
    let (st, failed) = check_total(i, 2000, what);
    Some(if failed { RefOutcome::Fail } else { RefOutcome::Ok(st) })
}

#[test]
fn e03_differential_against_reference_interpreter() {
    let mut rng = Rng(0x0bad_c0de_1357_9bdf);
    let ops = diff_ops();
    let mut compared = 0;
    let mut succeeded = 0;
    let mut mismatches: Vec<String> = vec![];
    for round in 0..30000 {
        let toks = gen_tokens(&mut rng, &ops, round % 4 != 0);
        let expected = ref_run(&toks);
        let flat = toks_to_flat_bits(&toks);
        let built = Script::from_script_bits(flat);
        let asm = built.to_asm_string();
        // route 1: assembled element by element
        let mut routes = vec![("built", Interpreter::from_script(&built))];
        // route 2: through the byte parser
        if let Ok(parsed) = Script::from_bytes(&built.to_bytes()) {
            routes.push(("parsed", Interpreter::from_script(&parsed)));
        }
        for (name, i) in routes {
            if let Some(got) = lib_outcome(&i, &asm) {
                compared += 1;
                if matches!(got, RefOutcome::Ok(_)) {
                    succeeded += 1;
                }
                if got != expected && mismatches.len() < 25 {
                    mismatches.push(format!("[{}] {}\n   expected {:?}\n   got      {:?}", name, asm, expected, got));
                }
            }
        }
    }
    eprintln!("e03: compared {}, of which successful runs {}", compared, succeeded);
    for m in &mismatches {
        eprintln!("MISMATCH {}", m);
    }
    assert!(mismatches.is_empty(), "{} mismatches", mismatches.len());
}

// ---------------------------------------------------------------------------------------------
// transaction context helpers
// ---------------------------------------------------------------------------------------------

fn test_key() -> (PrivateKey, PublicKey) {
    let k = PrivateKey::from_wif("L2WAdy8C19GHNtZDSkbsVBJrBaF9XHpPLTgmnc2N5aGyguhJf7zh").unwrap();
    let p = k.to_public_key().unwrap();
    (k, p)
}

/// A transaction with `n_in` inputs and `n_out` outputs; the input at `index` carries the locking script and value
fn make_tx(n_in: usize, n_out: usize, index: usize, locking: Option<&Script>, satoshis: Option<u64>) -> Transaction {
    let mut tx = Transaction::new(2, 0);
    for n in 0..n_in {
        let mut txin = TxIn::new(&[n as u8 + 1; 32], n as u32, &Script::default(), Some(0xffff_fff0 + n as u32));
        if n == index {
            if let Some(l) = locking {
                txin.set_locking_script(l);
            }
            if let Some(s) = satoshis {
                txin.set_satoshis(s);
            }
        }
        tx.add_input(&txin);
    }
    for n in 0..n_out {
        tx.add_output(&TxOut::new(1000 + n as u64, &Script::from_asm_string("OP_DUP OP_HASH160 b8bcb07f6344b42ab04250c86a6e8b75d3fdbbc6 OP_EQUALVERIFY OP_CHECKSIG").unwrap()));
    }
    tx
}

fn with_unlocking(tx: &Transaction, index: usize, unlocking: &Script) -> Transaction {
    let mut tx = tx.clone();
    let mut txin = tx.get_input(index).unwrap();
    txin.set_unlocking_script(unlocking);
    tx.set_input(index, &txin);
    tx
}

// ---------------------------------------------------------------------------------------------
// E5: signature opcodes with a transaction context: every flag byte, SIGHASH_SINGLE without a matching output,
//     missing value / locking script, input index beyond the inputs, garbage signatures and keys, multisig counts
// ---------------------------------------------------------------------------------------------

#[test]
fn e05_signature_opcodes_never_panic_any_flag_byte_or_context() {
    let (key, pubkey) = test_key();
    let locking = Script::from_asm_string("OP_CHECKSIG").unwrap();
    let pk = pubkey.to_bytes().unwrap();
    let mut rng = Rng(77);
    let mut cases = 0;
    // (inputs, outputs, index)
    for (n_in, n_out, index) in [(1usize, 1usize, 0usize), (2, 1, 1), (3, 0, 2), (1, 0, 0), (3, 2, 2)] {
        for (has_lock, has_value) in [(true, true), (true, false), (false, true), (false, false)] {
            let mut tx = make_tx(n_in, n_out, index, if has_lock { Some(&locking) } else { None }, if has_value { Some(5000) } else { None });
            let good = tx.sign(&key, SigHash::InputsOutputs, index, &locking, 5000).unwrap().to_bytes().unwrap();
            let der = good[..good.len() - 1].to_vec();
            for flag in 0u16..=255 {
                let mut sig = der.clone();
                sig.push(flag as u8);
                for op in [OpCodes::OP_CHECKSIG, OpCodes::OP_CHECKSIGVERIFY] {
                    let bits = vec![push_bit(&sig), push_bit(&pk), ScriptBit::OpCode(op)];
                    let i = Interpreter::from_transaction_and_script_bits(tx.clone(), index, bits);
                    check_total(&i, 10, &format!("checksig flag {:#x} ins {} outs {} idx {}", flag, n_in, n_out, index));
                    cases += 1;
                }
                for op in [OpCodes::OP_CHECKMULTISIG, OpCodes::OP_CHECKMULTISIGVERIFY] {
                    let bits = vec![ScriptBit::OpCode(OpCodes::OP_0), push_bit(&sig), ScriptBit::OpCode(OpCodes::OP_1), push_bit(&pk), ScriptBit::OpCode(OpCodes::OP_1), ScriptBit::OpCode(op)];
                    let i = Interpreter::from_transaction_and_script_bits(tx.clone(), index, bits);
                    check_total(&i, 10, &format!("multisig flag {:#x}", flag));
                    cases += 1;
                }
            }
            // through from_transaction as well (locking script joined to the unlocking script)
            if has_lock {
                for flag in [0x00u8, 0x01, 0x03, 0x40, 0x43, 0x80, 0x83, 0xc3, 0xff] {
                    let mut sig = der.clone();
                    sig.push(flag);
                    let unlocking = Script::from_script_bits(vec![push_bit(&sig), push_bit(&pk)]);
                    let tx2 = with_unlocking(&tx, index, &unlocking);
                    let i = Interpreter::from_transaction(&tx2, index).unwrap();
                    check_total(&i, 10, "from_transaction");
                    cases += 1;
                }
            }
            // input index beyond the inputs
            let bits = vec![push_bit(&good), push_bit(&pk), ScriptBit::OpCode(OpCodes::OP_CHECKSIG)];
            for beyond in [n_in, n_in + 1, usize::MAX] {
                let i = Interpreter::from_transaction_and_script_bits(tx.clone(), beyond, bits.clone());
                let (_, failed) = check_total(&i, 10, "index beyond inputs");
                assert!(failed);
            }
            // garbage signatures and keys
            for _ in 0..300 {
                let sig = match rng.below(4) {
                    0 => vec![],
                    1 => vec![rng.next() as u8],
                    2 => {
                        let mut s = good.clone();
                        let at = rng.below(s.len() as u64) as usize;
                        s[at] ^= 1 << rng.below(8);
                        s
                    }
                    _ => {
                        let l = rng.below(80) as usize;
                        rng.bytes(l)
                    }
                };
                let keyb = match rng.below(5) {
                    0 => vec![],
                    1 => vec![0x00],
                    2 => {
                        let mut k = pk.clone();
                        let at = rng.below(k.len() as u64) as usize;
                        k[at] ^= 1 << rng.below(8);
                        k
                    }
                    3 => {
                        let mut k = vec![0x04];
                        k.extend(rng.bytes(64));
                        k
                    }
                    _ => {
                        let l = rng.below(70) as usize;
                        rng.bytes(l)
                    }
                };
                let bits = vec![push_bit(&sig), push_bit(&keyb), ScriptBit::OpCode(OpCodes::OP_CHECKSIG)];
                let i = Interpreter::from_transaction_and_script_bits(tx.clone(), index, bits);
                check_total(&i, 10, "garbage sig/key");
                cases += 1;
            }
        }
    }
    // multisig counts of every size and sign against every stack depth
    let tx = make_tx(1, 1, 0, Some(&locking), Some(5000));
    let operands = interesting_operands();
    for depth in 0..6 {
        for _ in 0..400 {
            let mut bits = vec![];
            for _ in 0..depth {
                let o = &operands[rng.below(operands.len() as u64) as usize];
                bits.push(push_bit(o));
            }
            bits.push(ScriptBit::OpCode(if rng.below(2) == 0 { OpCodes::OP_CHECKMULTISIG } else { OpCodes::OP_CHECKMULTISIGVERIFY }));
            let i = Interpreter::from_transaction_and_script_bits(tx.clone(), 0, bits);
            check_total(&i, 10, "multisig counts");
            cases += 1;
        }
    }
    eprintln!("e05: {} cases", cases);
}

// ---------------------------------------------------------------------------------------------
// E6: OP_CODESEPARATOR anywhere (nested branches, else branches, NOTIF, unlocking script, last element):
//     the signature must be over the locking script from behind the last *executed* separator, by the
//     reference executor's own bookkeeping of byte offsets
// ---------------------------------------------------------------------------------------------

/// Returns (checksig executed?, index of the token just behind the last executed separator before it)
fn ref_separator(toks: &[Tok]) -> (bool, usize) {
    use OpCodes::*;
    let mut st: Vec<bool> = vec![];
    let mut vf_exec: Vec<bool> = vec![];
    let mut begin = 0;
    for (n, tok) in toks.iter().enumerate() {
        let f_exec = vf_exec.iter().all(|b| *b);
        match tok {
            Tok::Op(OP_IF) | Tok::Op(OP_NOTIF) => {
                let mut v = false;
                if f_exec {
                    v = st.pop().expect("generator keeps a condition on the stack");
                    if *tok == Tok::Op(OP_NOTIF) {
                        v = !v;
                    }
                }
                vf_exec.push(v);
            }
            Tok::Op(OP_ELSE) => {
                let l = vf_exec.len();
                vf_exec[l - 1] = !vf_exec[l - 1];
            }
            Tok::Op(OP_ENDIF) => {
                vf_exec.pop();
            }
            _ if !f_exec => {}
            Tok::Op(OP_0) => st.push(false),
            Tok::Op(OP_1) => st.push(true),
            Tok::Op(OP_CODESEPARATOR) => begin = n + 1,
            Tok::Op(OP_CHECKSIGVERIFY) => return (true, begin),
            _ => {}
        }
    }
    (false, begin)
}

fn gen_separator_script(rng: &mut Rng) -> Vec<Tok> {
    use OpCodes::*;
    let mut toks = vec![];
    let mut open: Vec<bool> = vec![];
    let n = 3 + rng.below(25);
    for _ in 0..n {
        match rng.below(10) {
            0 | 1 => {
                toks.push(Tok::Op(if rng.below(2) == 0 { OP_0 } else { OP_1 }));
                toks.push(Tok::Op(if rng.below(3) == 0 { OP_NOTIF } else { OP_IF }));
                open.push(false);
            }
            2 => {
                if let Some(e) = open.last_mut() {
                    if !*e {
                        *e = true;
                        toks.push(Tok::Op(OP_ELSE));
                    }
                }
            }
            3 => {
                if open.pop().is_some() {
                    toks.push(Tok::Op(OP_ENDIF));
                }
            }
            4 | 5 | 6 => toks.push(Tok::Op(OP_CODESEPARATOR)),
            _ => toks.push(Tok::Op(OP_NOP)),
        }
    }
    for _ in 0..open.len() {
        toks.push(Tok::Op(OP_ENDIF));
    }
    // one OP_CHECKSIGVERIFY somewhere, not between a condition push and its IF
    loop {
        let at = rng.below(toks.len() as u64 + 1) as usize;
        let splits_pair = at > 0 && at < toks.len() && matches!(toks[at], Tok::Op(OP_IF) | Tok::Op(OP_NOTIF));
        if !splits_pair {
            toks.insert(at, Tok::Op(OP_CHECKSIGVERIFY));
            break;
        }
    }
    toks
}

#[test]
fn e06_codeseparator_subscript_matches_reference_bookkeeping() {
    let (key, pubkey) = test_key();
    let pk = pubkey.to_bytes().unwrap();
    let mut rng = Rng(4242);
    let mut executed = 0;
    let mut bad: Vec<String> = vec![];
    for round in 0..1500 {
        let toks = gen_separator_script(&mut rng);
        let (runs, begin) = ref_separator(&toks);
        let flat = toks_to_flat_bits(&toks);
        let locking_flat = Script::from_script_bits(flat.clone());
        let locking_parsed = Script::from_bytes(&locking_flat.to_bytes()).unwrap();
        // the subscript by the reference: the written-out tokens from `begin`
        let subscript = Script::from_script_bits(flat[begin..].to_vec());
        let sighash = match round % 3 {
            0 => SigHash::InputsOutputs,
            1 => SigHash::ALL,
            _ => SigHash::Input,
        };
        for (route, locking) in [("parsed", &locking_parsed), ("built", &locking_flat)] {
            let mut tx = make_tx(2, 2, 1, Some(locking), Some(777));
            let sig = tx.sign(&key, sighash, 1, &subscript, 777).unwrap().to_bytes().unwrap();
            // the unlocking script may hold separators and balanced conditionals of its own; they must not matter
            let mut unlocking_bits = vec![];
            if round % 2 == 0 {
                unlocking_bits.push(ScriptBit::OpCode(OpCodes::OP_CODESEPARATOR));
            }
            if round % 5 == 0 {
                unlocking_bits.extend(vec![ScriptBit::OpCode(OpCodes::OP_1), ScriptBit::OpCode(OpCodes::OP_IF), ScriptBit::OpCode(OpCodes::OP_CODESEPARATOR), ScriptBit::OpCode(OpCodes::OP_ENDIF)]);
            }
            unlocking_bits.push(push_bit(&sig));
            unlocking_bits.push(push_bit(&pk));
            if round % 7 == 0 {
                unlocking_bits.push(ScriptBit::OpCode(OpCodes::OP_CODESEPARATOR));
            }
            let unlocking = Script::from_script_bits(unlocking_bits);
            let tx = with_unlocking(&tx, 1, &unlocking);
            let i = Interpreter::from_transaction(&tx, 1).unwrap();
            let (st, failed) = check_total(&i, 500, &locking_flat.to_asm_string());
            if runs {
                executed += 1;
                if failed || !st.0.is_empty() {
                    if bad.len() < 10 {
                        bad.push(format!("[{} {:?}] {} | begin {} | failed {} stack {:?}", route, sighash, locking_flat.to_asm_string(), begin, failed, st.0.len()));
                    }
                }
            } else {
                // the signature and key stay on the stack, the script itself ends without an error
                if failed || st.0.len() != 2 {
                    if bad.len() < 10 {
                        bad.push(format!("[{} not executed] {} failed {} stack {}", route, locking_flat.to_asm_string(), failed, st.0.len()));
                    }
                }
            }
        }
    }
    eprintln!("e06: checksig executed in {} runs", executed);
    for b in &bad {
        eprintln!("BAD {}", b);
    }
    assert!(bad.is_empty());
    assert!(executed > 500);
}

// ---------------------------------------------------------------------------------------------
// E7: every kind of failing step (conditional without operand, repeated else, lone else / endif, coinbase element,
//     failure inside a spliced branch, failure behind alt-stack traffic) keeps both stacks and ends the iteration
// ---------------------------------------------------------------------------------------------

#[test]
fn e07_failing_steps_of_every_kind_keep_the_stacks_and_end_iteration() {
    use OpCodes::*;
    let op = ScriptBit::OpCode;
    let p = |d: &[u8]| push_bit(d);
    // (script, expected main stack at the end, expected alt stack) — by hand
    let cases: Vec<(Vec<ScriptBit>, Vec<Vec<u8>>, Vec<Vec<u8>>)> = vec![
        (vec![op(OP_IF), op(OP_ENDIF)], vec![], vec![]),
        (vec![p(&[7]), op(OP_TOALTSTACK), op(OP_IF), op(OP_ENDIF)], vec![], vec![vec![7]]),
        (vec![p(&[7]), op(OP_1), op(OP_IF), op(OP_ELSE), op(OP_ELSE), op(OP_ENDIF)], vec![vec![7], vec![1]], vec![]),
        (vec![p(&[7]), op(OP_0), op(OP_IF), op(OP_1), op(OP_IF), op(OP_ELSE), op(OP_ELSE), op(OP_ENDIF), op(OP_ENDIF)], vec![vec![7], vec![]], vec![]),
        (vec![p(&[7]), op(OP_ELSE)], vec![vec![7]], vec![]),
        (vec![p(&[7]), op(OP_ENDIF)], vec![vec![7]], vec![]),
        (vec![p(&[7]), op(OP_1), op(OP_IF), p(&[8]), op(OP_TOALTSTACK), op(OP_ADD), op(OP_ENDIF), op(OP_1)], vec![vec![7]], vec![vec![8]]),
        (vec![p(&[7]), op(OP_0), op(OP_NOTIF), p(&[8]), p(&[9]), op(OP_2DROP), op(OP_2DROP), op(OP_ENDIF)], vec![vec![7]], vec![]),
        (vec![p(&[7]), ScriptBit::Coinbase(vec![1, 2, 3]), op(OP_1)], vec![vec![7]], vec![]),
        (vec![p(&[7]), p(&[2]), op(OP_PICK)], vec![vec![7], vec![2]], vec![]),
        (vec![p(&[7]), p(&[9]), p(&[3]), op(OP_SPLIT)], vec![vec![7], vec![9], vec![3]], vec![]),
        (vec![p(&[7]), p(&[9]), op(OP_0), op(OP_DIV)], vec![vec![7], vec![9], vec![]], vec![]),
        (vec![p(&[7]), op(OP_FROMALTSTACK)], vec![vec![7]], vec![]),
        (vec![p(&[7]), op(OP_0), op(OP_VERIFY)], vec![vec![7], vec![]], vec![]),
        (vec![p(&[7]), p(&[8]), op(OP_EQUALVERIFY)], vec![vec![7], vec![8]], vec![]),
        (vec![p(&[7]), op(OP_CHECKSIG)], vec![vec![7]], vec![]),
        (vec![p(&[7]), op(OP_VERIF), op(OP_ENDIF), op(OP_VER)], vec![], vec![]), // OP_VERIF is read as a conditional by the library; OP_VER then fails
        (vec![p(&[7]), op(OP_PUBKEY)], vec![vec![7]], vec![]),
        (vec![p(&[7]), op(OP_PUSHDATA1)], vec![vec![7]], vec![]),
        (vec![p(&[1]), p(&[2]), p(&[3]), op(OP_2SWAP)], vec![vec![1], vec![2], vec![3]], vec![]),
        (vec![p(&[1]), p(&[1, 2]), op(OP_AND)], vec![vec![1], vec![1, 2]], vec![]),
        (vec![p(&[1]), p(&[0x81]), op(OP_LSHIFT)], vec![vec![1], vec![0x81]], vec![]),
        (vec![p(&[1, 2, 3]), p(&[2]), op(OP_NUM2BIN)], vec![vec![1, 2, 3], vec![2]], vec![]),
    ];
    for (bits, main, alt) in cases {
        let script = Script::from_script_bits(bits);
        let i = Interpreter::from_script(&script);
        let (st, failed) = check_total(&i, 100, &script.to_asm_string());
        assert!(failed, "{} should fail", script.to_asm_string());
        assert_eq!(st, (main, alt), "{}", script.to_asm_string());
        // a for loop over the interpreter ends
        let mut count = 0;
        for _ in Interpreter::from_script(&script) {
            count += 1;
            assert!(count < 100);
        }
    }
}

// ---------------------------------------------------------------------------------------------
// E8: an interpreter saved in the middle of a run (JSON, CBOR, clone) and restored goes on exactly like the original
// ---------------------------------------------------------------------------------------------

fn final_of(mut i: Interpreter) -> (Stacks, bool, usize) {
    let mut failed = false;
    let mut n = 0;
    while let Some(r) = i.next() {
        n += 1;
        assert!(n < 5000);
        if r.is_err() {
            failed = true;
        }
    }
    (stacks(&i), failed, n)
}

#[test]
fn e08_saved_and_restored_mid_run_continues_identically() {
    let (key, pubkey) = test_key();
    let pk = pubkey.to_bytes().unwrap();
    let mut rng = Rng(99);
    let ops = diff_ops();
    let mut checked = 0;
    for round in 0..1500 {
        let i = if round % 10 == 0 {
            // with a transaction and separators inside conditionals
            let toks = gen_separator_script(&mut rng);
            let (_, begin) = ref_separator(&toks);
            let flat = toks_to_flat_bits(&toks);
            let locking = Script::from_bytes(&Script::from_script_bits(flat.clone()).to_bytes()).unwrap();
            let mut tx = make_tx(1, 1, 0, Some(&locking), Some(777));
            let sig = tx.sign(&key, SigHash::InputsOutputs, 0, &Script::from_script_bits(flat[begin..].to_vec()), 777).unwrap().to_bytes().unwrap();
            let tx = with_unlocking(&tx, 0, &Script::from_script_bits(vec![push_bit(&sig), push_bit(&pk)]));
            Interpreter::from_transaction(&tx, 0).unwrap()
        } else {
            let toks = gen_tokens(&mut rng, &ops, true);
            Interpreter::from_script(&Script::from_script_bits(toks_to_flat_bits(&toks)))
        };
        if !safe_to_run(&i, 2000) {
            continue;
        }
        let reference = final_of(i.clone());
        // stop after k steps
        let k = rng.below(reference.2 as u64 + 1) as usize;
        let mut part = i.clone();
        let mut failed_before = false;
        for _ in 0..k {
            if let Some(Err(_)) = part.next() {
                failed_before = true;
            }
        }
        let json = serde_json::to_string(&part).unwrap();
        let from_json: Interpreter = serde_json::from_str(&json).unwrap();
        let mut cbor = vec![];
        ciborium::ser::into_writer(&part, &mut cbor).unwrap();
        let from_cbor: Interpreter = ciborium::de::from_reader(&cbor[..]).unwrap();
        for (name, restored) in [("json", from_json), ("cbor", from_cbor), ("clone", part.clone())] {
            assert_eq!(stacks(&restored), stacks(&part), "{} restored stacks", name);
            let rest = final_of(restored.clone());
            assert_eq!(rest.0, reference.0, "{}: final stacks differ after restoring at step {}", name, k);
            assert_eq!(rest.1 || failed_before, reference.1, "{}: outcome differs after restoring at step {}", name, k);
            // and run() from the restored state
            let (st, failed) = drive_by_run(restored);
            assert_eq!(st, reference.0);
            assert_eq!(failed || failed_before, reference.1);
        }
        checked += 1;
    }
    eprintln!("e08: {}", checked);
    assert!(checked > 1000);
}

// ---------------------------------------------------------------------------------------------
// E9: conditionals at the depth limit of the parsers, on a small native stack (the default 2 MB of a spawned thread,
//     and 512 kB): parse, build, run, step, clone, compare, serialise, drop
// ---------------------------------------------------------------------------------------------

fn nested_bytes(depth: usize, taken: bool, with_else: bool) -> Vec<u8> {
    let mut b = vec![];
    for _ in 0..depth {
        b.push(if taken { 0x51 } else { 0x00 });
        b.push(0x63);
        if !taken && with_else {
            b.push(0x67);
        }
    }
    b.push(0x55);
    for _ in 0..depth {
        if taken && with_else {
            b.push(0x67);
            b.push(0x56);
        }
        b.push(0x68);
    }
    b
}

#[test]
fn e09_depth_limit_runs_on_small_native_stacks() {
    for stack_kb in [2048usize, 512] {
        let h = std::thread::Builder::new()
            .stack_size(stack_kb * 1024)
            .spawn(move || {
                for (taken, with_else) in [(true, false), (true, true), (false, true)].into_iter().take(if stack_kb < 1024 { 1 } else { 3 }) {
                    let bytes = nested_bytes(MAX_IF_NESTING, taken, with_else);
                    let script = Script::from_bytes(&bytes).unwrap();
                    assert_eq!(script.to_bytes(), bytes);
                    let i = Interpreter::from_script(&script);
                    let (st, failed) = check_total(&i, 5000, "depth limit");
                    assert!(!failed);
                    assert_eq!(st.0, vec![vec![5u8]]);
                    // the same assembled from plain opcodes
                    let flat: Vec<ScriptBit> = bytes.iter().map(|b| ScriptBit::OpCode(OpCodes::from_u8(*b).unwrap())).collect();
                    let built = Script::from_script_bits(flat);
                    let i = Interpreter::from_script(&built);
                    let (st, failed) = check_total(&i, 5000, "depth limit built");
                    assert!(!failed);
                    assert_eq!(st.0, vec![vec![5u8]]);
                    // with a transaction and a signature check at the bottom
                    let _ = script.to_asm_string();
                }
                // one level more is refused by the parser, and the flat form fails cleanly when run
                let bytes = nested_bytes(MAX_IF_NESTING + 1, true, false);
                assert!(Script::from_bytes(&bytes).is_err());
                let flat: Vec<ScriptBit> = bytes.iter().map(|b| ScriptBit::OpCode(OpCodes::from_u8(*b).unwrap())).collect();
                let i = Interpreter::from_script(&Script::from_script_bits(flat));
                let (_, failed) = check_total(&i, 5000, "over the limit, built");
                assert!(failed);
            })
            .unwrap();
        h.join().expect("thread died");
    }
}

// ---------------------------------------------------------------------------------------------
// E10: signature check at the bottom of the deepest conditionals, separators on every level
// ---------------------------------------------------------------------------------------------

#[test]
fn e10_checksig_below_deepest_conditionals_with_separators() {
    let (key, pubkey) = test_key();
    let pk = pubkey.to_bytes().unwrap();
    let depth = MAX_IF_NESTING;
    let mut bytes = vec![];
    for _ in 0..depth {
        bytes.extend([0x51, 0x63, 0xab]); // OP_1 OP_IF OP_CODESEPARATOR
    }
    let begin = bytes.len();
    bytes.push(0xad); // OP_CHECKSIGVERIFY
    for _ in 0..depth {
        bytes.push(0x68);
    }
    let locking = Script::from_bytes(&bytes).unwrap();
    let subscript = Script::from_bytes(&bytes[begin..]).unwrap();
    assert_eq!(subscript.to_bytes(), bytes[begin..].to_vec());
    let mut tx = make_tx(1, 1, 0, Some(&locking), Some(1));
    let sig = tx.sign(&key, SigHash::InputsOutputs, 0, &subscript, 1).unwrap().to_bytes().unwrap();
    let tx = with_unlocking(&tx, 0, &Script::from_script_bits(vec![push_bit(&sig), push_bit(&pk)]));
    let h = std::thread::Builder::new()
        .stack_size(2048 * 1024)
        .spawn(move || {
            let i = Interpreter::from_transaction(&tx, 0).unwrap();
            let (st, failed) = check_total(&i, 5000, "deep checksig");
            assert!(!failed);
            assert!(st.0.is_empty());
        })
        .unwrap();
    h.join().expect("thread died");
}

// ---------------------------------------------------------------------------------------------
// E11: operands of any length and sign for every opcode that reads an index, position, size or count: hand oracle
// ---------------------------------------------------------------------------------------------

#[test]
fn e11_huge_and_negative_operands_by_hand() {
    use OpCodes::*;
    let op = ScriptBit::OpCode;
    let big_pos: Vec<Vec<u8>> = vec![
        vec![0xff, 0xff, 0xff, 0x7f],
        vec![0x00, 0x00, 0x00, 0x80, 0x00],
        vec![0x00; 8].into_iter().chain(vec![0x01]).collect(),
        vec![0xff; 19].into_iter().chain(vec![0x7f]).collect(),
        vec![0x11; 70],
    ];
    let big_neg: Vec<Vec<u8>> = vec![vec![0x81], vec![0xff, 0xff, 0xff, 0xff], vec![0x00, 0x00, 0x00, 0x80, 0x80], vec![0xff; 20], vec![0x00, 0x00, 0x00, 0x00, 0x00, 0x00, 0x00, 0x00, 0x81]];
    for o in [OP_PICK, OP_ROLL, OP_SPLIT, OP_CHECKMULTISIG] {
        for n in big_pos.iter().chain(big_neg.iter()) {
            let script = Script::from_script_bits(vec![push_bit(&[1, 2, 3]), push_bit(&[4]), push_bit(n), op(o)]);
            let (st, failed) = check_total(&Interpreter::from_script(&script), 10, &script.to_asm_string());
            assert!(failed, "{}", script.to_asm_string());
            assert_eq!(st.0, vec![vec![1, 2, 3], vec![4], n.clone()]);
        }
    }
    // negative size / count fail, positive huge shift counts empty the item but keep its length
    for n in &big_neg {
        for o in [OP_NUM2BIN, OP_LSHIFT, OP_RSHIFT] {
            let script = Script::from_script_bits(vec![push_bit(&[1, 2, 3]), push_bit(n), op(o)]);
            let (st, failed) = check_total(&Interpreter::from_script(&script), 10, &script.to_asm_string());
            assert!(failed);
            assert_eq!(st.0, vec![vec![1, 2, 3], n.clone()]);
        }
    }
    for n in &big_pos {
        for o in [OP_LSHIFT, OP_RSHIFT] {
            let script = Script::from_script_bits(vec![push_bit(&[0xff, 0xff, 0xff]), push_bit(n), op(o)]);
            let (st, failed) = check_total(&Interpreter::from_script(&script), 10, &script.to_asm_string());
            assert!(!failed);
            assert_eq!(st.0, vec![vec![0, 0, 0]]);
        }
    }
    // non-minimal but small operands are honoured
    let script = Script::from_script_bits(vec![push_bit(&[9]), push_bit(&[8]), push_bit(&[1, 0, 0, 0, 0, 0, 0, 0, 0, 0]), op(OP_PICK)]);
    let (st, failed) = check_total(&Interpreter::from_script(&script), 10, "non-minimal pick");
    assert!(!failed);
    assert_eq!(st.0, vec![vec![9], vec![8], vec![9]]);
    // negative zero of any length is zero
    let script = Script::from_script_bits(vec![push_bit(&[9]), push_bit(&[8]), push_bit(&[0, 0, 0, 0, 0, 0x80]), op(OP_ROLL)]);
    let (st, failed) = check_total(&Interpreter::from_script(&script), 10, "negative zero roll");
    assert!(!failed);
    assert_eq!(st.0, vec![vec![9], vec![8]]);
}

// ---------------------------------------------------------------------------------------------
// E12: shifts against a bit-by-bit reference, counts around every byte boundary and beyond the item
// ---------------------------------------------------------------------------------------------

#[test]
fn e12_shifts_bit_by_bit() {
    let mut rng = Rng(5);
    for len in 0..6usize {
        for _ in 0..8 {
            let x = rng.bytes(len);
            for n in 0..(len * 8 + 20) {
                for (o, f) in [(OpCodes::OP_LSHIFT, ref_shift_left as fn(&[u8], usize) -> Vec<u8>), (OpCodes::OP_RSHIFT, ref_shift_right as fn(&[u8], usize) -> Vec<u8>)] {
                    let script = Script::from_script_bits(vec![push_bit(&x), push_bit(&num_encode(&BigInt::from(n))), ScriptBit::OpCode(o)]);
                    let mut i = Interpreter::from_script(&script);
                    let mut last = None;
                    while let Some(r) = i.next() {
                        last = Some(r.unwrap());
                    }
                    assert_eq!(last.unwrap().stack, vec![f(&x, n)], "{:?} {} by {}", o, hex::encode(&x), n);
                }
            }
        }
    }
}

// ---------------------------------------------------------------------------------------------
// E13: after the end: further steps give None, run() gives Ok, nothing moves; run() after partial stepping
// ---------------------------------------------------------------------------------------------

#[test]
fn e13_after_the_end_and_run_after_partial_stepping() {
    let script = Script::from_asm_string("OP_1 OP_IF OP_2 OP_TOALTSTACK OP_3 OP_RETURN OP_4 OP_ENDIF OP_5 OP_ENDIF").unwrap();
    // OP_RETURN inside a taken branch ends the run; the stray OP_ENDIF behind it is never met
    let mut i = Interpreter::from_script(&script);
    let mut n = 0;
    while let Some(r) = i.next() {
        r.unwrap();
        n += 1;
    }
    assert_eq!(n, 6);
    assert_eq!(stacks(&i), (vec![vec![3]], vec![vec![2]]));
    assert!(i.next().is_none());
    assert!(i.run().is_ok());
    assert_eq!(stacks(&i), (vec![vec![3]], vec![vec![2]]));
    for k in 0..=6 {
        let mut j = Interpreter::from_script(&script);
        for _ in 0..k {
            j.next().unwrap().unwrap();
        }
        j.run().unwrap();
        assert_eq!(stacks(&j), (vec![vec![3]], vec![vec![2]]));
    }
}

// ---------------------------------------------------------------------------------------------
// Process-level experiments. The parent test re-runs this test binary as a child process (one `child_*` test,
// selected by name and switched on by an environment variable) so that the death of the process can be observed.
// ---------------------------------------------------------------------------------------------

fn child_switch() -> Option<String> {
    std::env::var("HUNT_C16_CHILD").ok()
}

/// Runs `child_test` of this binary in a shell, with `prelude` (e.g. an ulimit) before it and `redirect` behind it
fn spawn_child(child_test: &str, mode: &str, prelude: &str, redirect: &str) -> std::process::Output {
    let exe = std::env::current_exe().unwrap();
    let cmd = format!("{} exec '{}' --exact {} --nocapture --test-threads=1 {}", prelude, exe.display(), child_test, redirect);
    std::process::Command::new("sh").arg("-c").arg(cmd).env("HUNT_C16_CHILD", mode).output().unwrap()
}

fn doubling_script(doublings: usize) -> Script {
    // OP_1 then `doublings` times OP_DUP OP_CAT: the item on the stack is 2^doublings bytes long at the end
    let mut bytes = vec![0x51];
    for _ in 0..doublings {
        bytes.extend([0x76, 0x7e]);
    }
    Script::from_bytes(&bytes).unwrap()
}

#[test]
fn child_memory() {
    let mode = match child_switch() {
        Some(m) => m,
        None => return,
    };
    let script = match mode.as_str() {
        "num2bin" => Script::from_hex("5104ffffff7f80").unwrap(), // OP_1 <2^31-1> OP_NUM2BIN
        "doubling" => doubling_script(33),
        "doubling_small" => doubling_script(20),
        _ => unreachable!(),
    };
    eprintln!("CHILD script of {} bytes", script.to_bytes().len());
    let mut i = Interpreter::from_script(&script);
    let mut outcome = "finished";
    // single steps only: nothing is printed, nothing but the interpreter's own copies is held
    while let Some(r) = i.next() {
        match r {
            Ok(state) => drop(state),
            Err(e) => {
                eprintln!("CHILD error: {:?}", e);
                outcome = "error";
            }
        }
    }
    eprintln!("CHILD RETURNED {}", outcome);
}

/// The address space of a wasm32 module (the crate's main target) is 4 GiB; the same cap is put on the child.
const CAP: &str = "ulimit -v 4194304;";

#[test]
fn e14_control_child_with_a_modest_item_returns() {
    // control for the two violation tests below: 20 doublings (1 MiB item) under the same cap come back with a state
    let out = spawn_child("child_memory", "doubling_small", CAP, "");
    let err = String::from_utf8_lossy(&out.stderr).to_string();
    assert!(out.status.success(), "{}", err);
    assert!(err.contains("CHILD RETURNED finished"), "{}", err);
}

#[test]
fn violation_num2bin_size_operand_kills_the_process() {
    // 7-byte script: OP_1 <ff ff ff 7f> OP_NUM2BIN. The size operand is a valid script number (2^31-1).
    // C16: the step returns a state or an error. Observed: the process is aborted by the allocator.
    let out = spawn_child("child_memory", "num2bin", CAP, "");
    let err = String::from_utf8_lossy(&out.stderr).to_string();
    eprintln!("child status {:?}\n{}", out.status, err);
    assert!(err.contains("CHILD RETURNED"), "the step neither returned a state nor an error; the child process ended with {:?}: {}", out.status, err.lines().last().unwrap_or(""));
}

#[test]
fn violation_doubling_script_kills_the_process() {
    // 67-byte script: OP_1 (OP_DUP OP_CAT) x 33. Every operand is produced by the script itself.
    let out = spawn_child("child_memory", "doubling", CAP, "");
    let err = String::from_utf8_lossy(&out.stderr).to_string();
    eprintln!("child status {:?}\n{}", out.status, err);
    assert!(err.contains("CHILD RETURNED"), "the step neither returned a state nor an error; the child process ended with {:?}: {}", out.status, err.lines().last().unwrap_or(""));
}

#[test]
fn child_stdout() {
    if child_switch().is_none() {
        return;
    }
    // wait until the parent has closed its end of our stdout (it tells us by closing our stdin)
    let mut sink = String::new();
    let _ = std::io::Read::read_to_string(&mut std::io::stdin(), &mut sink);
    let stepped = catch_unwind(|| {
        let mut i = Interpreter::from_script(&Script::from_hex("51").unwrap()); // OP_1
        let mut n = 0;
        while let Some(r) = i.next() {
            r.unwrap();
            n += 1;
        }
        (n, i.state().stack.clone())
    });
    eprintln!("CHILD STEPPED {:?}", stepped.as_ref().map_err(|_| "panic"));
    let ran = catch_unwind(|| {
        let mut i = Interpreter::from_script(&Script::from_hex("51").unwrap());
        let r = i.run().is_ok();
        (r, i.state().stack.clone())
    });
    eprintln!("CHILD RAN {:?}", ran.as_ref().map_err(|_| "panic"));
    // single steps print as well once a signature opcode is reached under a transaction context
    let stepped_checksig = catch_unwind(|| {
        let locking = Script::from_asm_string("OP_CHECKSIG").unwrap();
        let tx = make_tx(1, 1, 0, Some(&locking), Some(1));
        let bits = vec![push_bit(&[0x30, 0x01]), push_bit(&[0x02; 33]), ScriptBit::OpCode(OpCodes::OP_CHECKSIG)];
        let mut i = Interpreter::from_transaction_and_script_bits(tx, 0, bits);
        let mut n = 0;
        while let Some(_) = i.next() {
            n += 1;
        }
        n
    });
    eprintln!("CHILD STEPPED CHECKSIG {:?}", stepped_checksig.as_ref().map_err(|_| "panic"));
}

#[test]
fn violation_run_panics_where_stepping_does_not_when_stdout_is_a_closed_pipe() {
    // The child's stdout is a pipe whose reading end is closed before the interpreter is used (what `tool | head -1` does).
    use std::io::Read;
    use std::process::{Command, Stdio};
    let exe = std::env::current_exe().unwrap();
    let mut child = Command::new(exe)
        .args(["--exact", "child_stdout", "--nocapture", "--test-threads=1"])
        .env("HUNT_C16_CHILD", "x")
        .stdin(Stdio::piped())
        .stdout(Stdio::piped())
        .stderr(Stdio::piped())
        .spawn()
        .unwrap();
    // let the test harness write its own header ("running 1 test", "test child_stdout ... "), then close the pipe
    let mut out = child.stdout.take().unwrap();
    let mut seen = vec![];
    let mut byte = [0u8; 1];
    while !String::from_utf8_lossy(&seen).contains("child_stdout ...") {
        if out.read(&mut byte).unwrap() == 0 {
            break;
        }
        seen.push(byte[0]);
    }
    drop(out);
    drop(child.stdin.take());
    let mut err = String::new();
    child.stderr.take().unwrap().read_to_string(&mut err).unwrap();
    let _ = child.wait();
    eprintln!("{}", err);
    assert!(err.contains("CHILD STEPPED Ok((1, [[1]]))"), "stepping: {}", err);
    // by hand: two pushes, then OP_CHECKSIG fails on the flag byte 0x01 / the malformed signature: three items, no panic
    let checksig_ok = err.contains("CHILD STEPPED CHECKSIG Ok(3)");
    assert!(
        err.contains("CHILD RAN Ok((true, [[1]]))") && checksig_ok,
        "run() on the script OP_1 did not come back like stepping did: {}",
        err.lines().filter(|l| l.contains("CHILD RAN") || l.contains("panicked") || l.contains("failed printing")).collect::<Vec<_>>().join(" | ")
    );
}

// ---------------------------------------------------------------------------------------------
// Observations (pass): behaviour outside the wording of C16 that a reader may still want to know
// ---------------------------------------------------------------------------------------------

#[test]
fn obs_from_transaction_with_an_input_index_beyond_the_inputs_panics() {
    let tx = make_tx(1, 1, 0, Some(&Script::from_asm_string("OP_1").unwrap()), Some(1));
    let r = catch_unwind(|| Interpreter::from_transaction(&tx, 1).is_ok());
    assert!(r.is_err(), "from_transaction(tx, index beyond inputs) used to panic on Option::unwrap (src/interpreter/mod.rs:176)");
}

#[test]
fn obs_after_a_failed_run_a_second_run_reports_ok_and_status_finished() {
    let mut i = Interpreter::from_script(&Script::from_asm_string("OP_1 OP_RESERVED").unwrap());
    assert!(i.run().is_err());
    assert!(i.run().is_ok());
    assert!(i.state().status == Status::Finished);
    assert_eq!(i.state().stack, vec![vec![1u8]]);
}

#[test]
fn obs_verif_and_vernotif_run_as_working_conditionals() {
    let mut i = Interpreter::from_script(&Script::from_hex("51655268").unwrap()); // OP_1 OP_VERIF OP_2 OP_ENDIF
    assert!(i.run().is_ok());
    assert_eq!(i.state().stack, vec![vec![2u8]]);
}

#[test]
fn obs_conditional_opcodes_inside_a_built_if_block_are_not_folded() {
    // If { pass: [OP_1 OP_IF OP_2 OP_ENDIF] } built by hand serialises to 63 51 63 52 68 68, which runs when parsed,
    // but fails as built (the fix for element-built scripts folds the top level only). Both routes return an error or a state: not a C16 matter.
    let inner = vec![ScriptBit::OpCode(OpCodes::OP_1), ScriptBit::OpCode(OpCodes::OP_IF), ScriptBit::OpCode(OpCodes::OP_2), ScriptBit::OpCode(OpCodes::OP_ENDIF)];
    let built = Script::from_script_bits(vec![ScriptBit::OpCode(OpCodes::OP_1), ScriptBit::If { code: OpCodes::OP_IF, pass: inner, fail: None }]);
    let parsed = Script::from_bytes(&built.to_bytes()).unwrap();
    let (a, fa) = check_total(&Interpreter::from_script(&built), 20, "built");
    let (b, fb) = check_total(&Interpreter::from_script(&parsed), 20, "parsed");
    assert!(fa && !fb);
    assert_eq!(a.0, vec![vec![1u8]]); // the inner OP_1 ran, the plain OP_IF behind it failed
    assert_eq!(b.0, vec![vec![2u8]]);
}

// ---------------------------------------------------------------------------------------------
// E15: hand-made DER signatures and key encodings at the edges (zero, group order, negative, over-long, compact / hybrid tags)
// ---------------------------------------------------------------------------------------------

#[test]
fn e15_der_and_key_edge_cases_under_checksig() {
    let (_, pubkey) = test_key();
    let pk = pubkey.to_bytes().unwrap();
    let locking = Script::from_asm_string("OP_CHECKSIG").unwrap();
    let tx = make_tx(1, 1, 0, Some(&locking), Some(5000));
    let n = hex::decode("fffffffffffffffffffffffffffffffebaaedce6af48a03bbfd25e8cd0364141").unwrap();
    let der = |r: &[u8], s: &[u8]| {
        let mut body = vec![0x02, r.len() as u8];
        body.extend(r);
        body.push(0x02);
        body.push(s.len() as u8);
        body.extend(s);
        let mut out = vec![0x30, body.len() as u8];
        out.extend(body);
        out
    };
    let mut n_padded = vec![0u8];
    n_padded.extend(&n);
    let ints: Vec<Vec<u8>> = vec![vec![], vec![0], vec![1], vec![0x80], vec![0x00, 0x80], n.clone(), n_padded.clone(), vec![0xff; 32], vec![0x00; 33], vec![0x7f; 33], vec![0x01; 40]];
    let mut sigs = vec![];
    for r in &ints {
        for s in &ints {
            for flag in [0x41u8, 0x01, 0xc3] {
                let mut d = der(r, s);
                d.push(flag);
                sigs.push(d);
            }
        }
    }
    sigs.push(vec![0x30, 0x00, 0x41]);
    sigs.push(vec![0x30, 0x81, 0x00, 0x41]);
    sigs.push(vec![0x30, 0x06, 0x02, 0x01, 0x01, 0x02, 0x01, 0x01, 0x00, 0x41]); // trailing byte inside
    sigs.push(vec![0x30, 0x84, 0xff, 0xff, 0xff, 0xff, 0x41]);
    let mut keys: Vec<Vec<u8>> = vec![pk.clone(), vec![0x00], vec![0x05; 33], vec![0x06; 65], vec![0x07; 65], vec![0x04; 65], vec![0x02; 33], vec![0x03; 32], vec![0x02; 34]];
    let mut x_p = vec![0x02];
    x_p.extend(hex::decode("fffffffffffffffffffffffffffffffffffffffffffffffffffffffefffffc2f").unwrap()); // x = p
    keys.push(x_p);
    let mut cases = 0;
    for sig in &sigs {
        for key in &keys {
            let bits = vec![push_bit(sig), push_bit(key), ScriptBit::OpCode(OpCodes::OP_CHECKSIG)];
            let i = Interpreter::from_transaction_and_script_bits(tx.clone(), 0, bits);
            let (st, failed) = check_total(&i, 10, "der edge");
            // none of these is a valid signature by the test key: either an error, or false on the stack
            assert!(failed || st.0 == vec![Vec::<u8>::new()], "accepted sig {} key {}", hex::encode(sig), hex::encode(key));
            cases += 1;
        }
    }
    eprintln!("e15: {}", cases);
}

// ---------------------------------------------------------------------------------------------
// E16: long flat scripts end; the cost per step grows with the script (whole script and whole state cloned every step)
// ---------------------------------------------------------------------------------------------

#[test]
fn e16_long_flat_scripts_end_cost_is_quadratic() {
    let mut times = vec![];
    for n in [2000usize, 4000, 8000] {
        let script = Script::from_bytes(&vec![0x61u8; n]).unwrap();
        let t = std::time::Instant::now();
        let mut i = Interpreter::from_script(&script);
        let mut steps = 0;
        while let Some(r) = i.next() {
            r.unwrap();
            steps += 1;
        }
        assert_eq!(steps, n);
        times.push((n, t.elapsed().as_millis()));
    }
    eprintln!("e16: steps / ms {:?}", times);
    // many small conditionals in a row (each is spliced into the element list)
    let mut bytes = vec![];
    for _ in 0..2000 {
        bytes.extend([0x51, 0x63, 0x61, 0x67, 0x61, 0x68]);
    }
    let i = Interpreter::from_script(&Script::from_bytes(&bytes).unwrap());
    let (st, failed, steps) = drive_by_steps(i, 100_000);
    assert!(!failed);
    assert!(st.0.is_empty());
    assert_eq!(steps, 2000 * 3);
}
