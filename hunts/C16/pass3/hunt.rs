// Hunt for violations of C16 (the interpreter is total; stepping equals running; state kept after an error).
// Public API only. Oracles: invariants stated by the property + hand computed expectations.
#![allow(dead_code)]
use bsv::*;
use num_traits::FromPrimitive;
use std::panic::{catch_unwind, AssertUnwindSafe};

// ------------------------------------------------------------------------------------------------
// tiny deterministic PRNG (xorshift64*), so that failures can be reproduced
// ------------------------------------------------------------------------------------------------
struct Rng(u64);
impl Rng {
    fn next(&mut self) -> u64 {
        let mut x = self.0;
        x ^= x >> 12;
        x ^= x << 25;
        x ^= x >> 27;
        self.0 = x;
        x.wrapping_mul(0x2545F4914F6CDD1D)
    }
    fn below(&mut self, n: usize) -> usize {
        (self.next() % n as u64) as usize
    }
    fn chance(&mut self, percent: usize) -> bool {
        self.below(100) < percent
    }
}

// ------------------------------------------------------------------------------------------------
// independent helpers
// ------------------------------------------------------------------------------------------------

/// Upper bound for the number of steps: every element (at any depth) runs at most once.
fn count_elements(bits: &[ScriptBit]) -> usize {
    bits.iter()
        .map(|b| match b {
            ScriptBit::If { pass, fail, .. } => 1 + count_elements(pass) + fail.as_ref().map_or(0, |f| count_elements(f)),
            _ => 1,
        })
        .sum()
}

/// Script number encoding written from the specification (little endian magnitude, sign bit in the last byte).
fn scriptnum(v: i128) -> Vec<u8> {
    if v == 0 {
        return vec![];
    }
    let neg = v < 0;
    let mut m = v.unsigned_abs();
    let mut out = vec![];
    while m > 0 {
        out.push((m & 0xff) as u8);
        m >>= 8;
    }
    if out.last().unwrap() & 0x80 != 0 {
        out.push(if neg { 0x80 } else { 0 });
    } else if neg {
        *out.last_mut().unwrap() |= 0x80;
    }
    out
}

fn push(data: Vec<u8>) -> ScriptBit {
    match data.len() {
        0..=75 => ScriptBit::Push(data),
        76..=255 => ScriptBit::PushData(OpCodes::OP_PUSHDATA1, data),
        256..=65535 => ScriptBit::PushData(OpCodes::OP_PUSHDATA2, data),
        _ => ScriptBit::PushData(OpCodes::OP_PUSHDATA4, data),
    }
}
fn num(v: i128) -> ScriptBit {
    push(scriptnum(v))
}
fn op(o: OpCodes) -> ScriptBit {
    ScriptBit::OpCode(o)
}

fn all_opcodes() -> Vec<OpCodes> {
    (0u16..=255).filter_map(|b| OpCodes::from_u8(b as u8)).collect()
}

#[derive(Debug, Clone, PartialEq)]
struct Outcome {
    ok: bool,
    err: String,
    stack: Vec<Vec<u8>>,
    alt: Vec<Vec<u8>>,
}

/// Single-steps the interpreter, checking the invariants of the property on the way. Err(text) is a violation.
fn step_all(mut it: Interpreter) -> Result<Outcome, String> {
    let bound = count_elements(&it.script_bits()) + 2;
    let mut last_stack = it.state().stack.clone();
    let mut last_alt = it.state().alt_stack.clone();
    let mut steps = 0usize;
    loop {
        steps += 1;
        if steps > bound + 2 {
            return Err(format!("more than {} steps", bound));
        }
        match it.next() {
            Some(Ok(s)) => {
                if s.stack != it.state().stack || s.alt_stack != it.state().alt_stack {
                    return Err("returned state differs from state()".into());
                }
                last_stack = s.stack.clone();
                last_alt = s.alt_stack.clone();
            }
            Some(Err(e)) => {
                let st = it.state();
                if st.stack != last_stack || st.alt_stack != last_alt {
                    return Err(format!("after error {} the stacks are {:?}/{:?}, last returned {:?}/{:?}", e, st.stack, st.alt_stack, last_stack, last_alt));
                }
                // the iteration has to end now
                match it.next() {
                    None => {}
                    Some(r) => return Err(format!("step after an error returned Some({:?})", r.map(|_| ()).map_err(|e| e.to_string()))),
                }
                let st = it.state();
                if st.stack != last_stack || st.alt_stack != last_alt {
                    return Err("stacks changed by the step after the error".into());
                }
                return Ok(Outcome { ok: false, err: e.to_string(), stack: last_stack, alt: last_alt });
            }
            None => {
                let st = it.state();
                if st.stack != last_stack || st.alt_stack != last_alt {
                    return Err("final stacks differ from the last returned state".into());
                }
                if it.next().is_some() {
                    return Err("step after the end returned Some".into());
                }
                return Ok(Outcome { ok: true, err: String::new(), stack: last_stack, alt: last_alt });
            }
        }
    }
}

fn run_all(mut it: Interpreter) -> Outcome {
    match it.run() {
        Ok(()) => Outcome { ok: true, err: String::new(), stack: it.state().stack.clone(), alt: it.state().alt_stack.clone() },
        Err(e) => Outcome { ok: false, err: e.to_string(), stack: it.state().stack.clone(), alt: it.state().alt_stack.clone() },
    }
}

/// k single steps and then run()
fn mixed(mut it: Interpreter, k: usize) -> Outcome {
    for _ in 0..k {
        match it.next() {
            Some(Ok(_)) => {}
            Some(Err(e)) => return Outcome { ok: false, err: e.to_string(), stack: it.state().stack.clone(), alt: it.state().alt_stack.clone() },
            None => break,
        }
    }
    run_all(it)
}

/// Checks everything the property promises for one interpreter. Returns a description of the violation.
fn check(it: &Interpreter, with_run: bool, k: usize) -> Result<Outcome, String> {
    let a = match catch_unwind(AssertUnwindSafe(|| step_all(it.clone()))) {
        Ok(r) => r?,
        Err(p) => return Err(format!("PANIC while stepping: {}", panic_text(p))),
    };
    if with_run {
        let b = match catch_unwind(AssertUnwindSafe(|| run_all(it.clone()))) {
            Ok(r) => r,
            Err(p) => return Err(format!("PANIC while running: {}", panic_text(p))),
        };
        if a != b {
            return Err(format!("stepping gives {:?}, run gives {:?}", a, b));
        }
        let c = match catch_unwind(AssertUnwindSafe(|| mixed(it.clone(), k))) {
            Ok(r) => r,
            Err(p) => return Err(format!("PANIC while step+run: {}", panic_text(p))),
        };
        if a != c {
            return Err(format!("stepping gives {:?}, {} steps + run gives {:?}", a, k, c));
        }
    }
    Ok(a)
}

fn panic_text(p: Box<dyn std::any::Any + Send>) -> String {
    if let Some(s) = p.downcast_ref::<&str>() {
        s.to_string()
    } else if let Some(s) = p.downcast_ref::<String>() {
        s.clone()
    } else {
        "?".into()
    }
}

fn interesting_numbers() -> Vec<i128> {
    let mut v: Vec<i128> = vec![0, 1, -1, 2, -2, 3, 4, 5, 6, 7, 8, 9, 15, 16, 17, 31, 32, 33, 63, 64, 65, 127, 128, 129, 255, 256, 257, 32767, 32768, 65535, 65536];
    for e in [23u32, 24, 31, 32, 33, 39, 40, 47, 48, 63, 64, 65, 71, 72, 100, 126] {
        let p = 1i128 << e;
        v.extend([p - 1, p, p + 1, -(p - 1), -p, -(p + 1)]);
    }
    v
}

fn interesting_items(rng: &mut Rng) -> Vec<u8> {
    match rng.below(14) {
        0 => vec![],
        1 => vec![0x80],
        2 => vec![0x00],
        3 => vec![0x00, 0x80],
        4 => vec![0x00, 0x00, 0x00, 0x00, 0x00, 0x80],
        5 => vec![0xff; rng.below(12)],
        6 => {
            let n = interesting_numbers();
            scriptnum(n[rng.below(n.len())])
        }
        7 => {
            // non minimal number
            let n = interesting_numbers();
            let mut b = scriptnum(n[rng.below(n.len())]);
            let sign = b.last().map_or(0, |l| l & 0x80);
            if let Some(l) = b.last_mut() {
                *l &= 0x7f;
            }
            for _ in 0..rng.below(4) {
                b.push(0);
            }
            b.push(sign);
            b
        }
        8 => (0..rng.below(80)).map(|_| rng.next() as u8).collect(),
        9 => (0..rng.below(600)).map(|_| rng.next() as u8).collect(),
        10 => scriptnum(rng.below(12) as i128),
        11 => scriptnum(-(rng.below(12) as i128)),
        12 => vec![0; rng.below(40)],
        _ => scriptnum((rng.next() as i64) as i128),
    }
}

/// Element list over every opcode the parser accepts. OP_NUM2BIN is always given a small size (the absence of a bound
/// on item sizes is a known finding and would only exhaust the memory of the test).
fn random_flat_bits(rng: &mut Rng, ops: &[OpCodes], extra: &[Vec<u8>], len: usize) -> Vec<ScriptBit> {
    let mut bits = vec![];
    // initial stack
    for _ in 0..rng.below(7) {
        bits.push(push(interesting_items(rng)));
    }
    for _ in 0..len {
        match rng.below(10) {
            0..=2 => bits.push(push(interesting_items(rng))),
            3 if !extra.is_empty() => bits.push(push(extra[rng.below(extra.len())].clone())),
            4 => {
                // conditionals somewhat more often than by chance
                let c = [OpCodes::OP_IF, OpCodes::OP_NOTIF, OpCodes::OP_ELSE, OpCodes::OP_ENDIF, OpCodes::OP_RETURN, OpCodes::OP_VERIF, OpCodes::OP_VERNOTIF, OpCodes::OP_CODESEPARATOR];
                bits.push(op(c[rng.below(c.len())]));
            }
            _ => {
                let o = ops[rng.below(ops.len())];
                if o == OpCodes::OP_NUM2BIN {
                    bits.push(op(OpCodes::OP_DROP));
                    bits.push(num(rng.below(20) as i128));
                    bits.push(op(OpCodes::OP_NUM2BIN));
                } else if o == OpCodes::OP_CAT && rng.chance(50) {
                    // keep item growth modest
                    bits.push(op(OpCodes::OP_NOP));
                } else {
                    bits.push(op(o));
                }
            }
        }
    }
    bits
}

fn has_opcode(bits: &[ScriptBit], o: OpCodes) -> bool {
    bits.iter().any(|b| match b {
        ScriptBit::OpCode(c) => *c == o,
        ScriptBit::If { pass, fail, .. } => has_opcode(pass, o) || fail.as_ref().map_or(false, |f| has_opcode(f, o)),
        _ => false,
    })
}

// ------------------------------------------------------------------------------------------------
// transaction context
// ------------------------------------------------------------------------------------------------
struct Ctx {
    key: PrivateKey,
    pubkey: Vec<u8>,
}
fn ctx() -> Ctx {
    let key = PrivateKey::from_wif("L2WAdy8C19GHNtZDSkbsVBJrBaF9XHpPLTgmnc2N5aGyguhJf7zh").unwrap();
    let pubkey = key.to_public_key().unwrap().to_bytes().unwrap();
    Ctx { key, pubkey }
}

/// A transaction with `nin` inputs and `nout` outputs; input `i` has the given locking script / value when asked for.
fn make_tx(nin: usize, nout: usize, locking: Option<&Script>, satoshis: Option<u64>, unlocking: &Script) -> Transaction {
    let mut tx = Transaction::new(2, 0);
    for i in 0..nin {
        let mut txin = TxIn::new(&[i as u8 + 1; 32], i as u32, unlocking, Some(0xfffffffe));
        if let Some(l) = locking {
            txin.set_locking_script(l);
        }
        if let Some(s) = satoshis {
            txin.set_satoshis(s);
        }
        tx.add_input(&txin);
    }
    for i in 0..nout {
        tx.add_output(&TxOut::new(1000 + i as u64, &Script::from_asm_string("OP_DUP OP_HASH160 0000000000000000000000000000000000000000 OP_EQUALVERIFY OP_CHECKSIG").unwrap()));
    }
    tx
}

const FLAGS: [u8; 14] = [0x40, 0x01, 0x02, 0x03, 0x80, 0x41, 0x42, 0x43, 0xc1, 0xc2, 0xc3, 0x81, 0x82, 0x83];

/// signature-like and key-like items
fn sig_items(c: &Ctx, rng: &mut Rng) -> Vec<Vec<u8>> {
    let mut items = vec![];
    let locking = Script::from_asm_string("OP_CHECKSIG").unwrap();
    let mut tx = make_tx(2, 2, Some(&locking), Some(5000), &Script::default());
    for f in FLAGS {
        let flag = SigHash::try_from(f).unwrap();
        if let Ok(sig) = tx.sign(&c.key, flag, 0, &locking, 5000) {
            items.push(sig.to_bytes().unwrap());
        }
    }
    // a DER signature with every flag value, including invalid ones
    let der = items[0][..items[0].len() - 1].to_vec();
    for f in [0x00u8, 0x04, 0x44, 0xff, 0x7f, 0x21] {
        let mut s = der.clone();
        s.push(f);
        items.push(s);
    }
    items.push(der.clone()); // no flag at all
    items.push(vec![0x01]); // only a flag
    items.push(vec![0x41]);
    items.push(vec![0x30, 0x06, 0x02, 0x01, 0x00, 0x02, 0x01, 0x00, 0x41]); // r = s = 0
    items.push(vec![0x30, 0x06, 0x02, 0x01, 0x01, 0x02, 0x01, 0x01, 0x41]); // r = s = 1
    items.push(vec![0x30, 0x06, 0x02, 0x01, 0x01, 0x02, 0x01, 0x01, 0x03]); // SINGLE legacy
    items.push(vec![0x30, 0x06, 0x02, 0x01, 0x01, 0x02, 0x01, 0x01, 0x43]);
    items.push(vec![0x30, 0x06, 0x02, 0x01, 0x01, 0x02, 0x01, 0x01, 0x83]);
    items.push(vec![0x30, 0x06, 0x02, 0x01, 0x01, 0x02, 0x01, 0x01, 0xc3]);
    // keys
    items.push(c.pubkey.clone());
    let unc = PublicKey::from_bytes(&c.pubkey).unwrap().to_decompressed().unwrap().to_bytes().unwrap();
    items.push(unc.clone());
    let mut hybrid = unc.clone();
    hybrid[0] = 0x06;
    items.push(hybrid.clone());
    hybrid[0] = 0x07;
    items.push(hybrid);
    let mut bad = unc.clone();
    bad[64] ^= 1;
    items.push(bad); // not on the curve
    let mut nopoint = vec![0x02];
    nopoint.extend([0u8; 31]);
    nopoint.push(5);
    items.push(nopoint); // x = 5 has no point
    items.push(vec![0x00]); // identity encoding
    items.push(vec![0x02; 33]);
    items.push(vec![0x04; 65]);
    items.push(vec![0x02]);
    items.push(vec![]);
    let mut big = vec![0x02];
    big.extend([0xffu8; 32]);
    items.push(big); // x >= p
    let _ = rng;
    items
}

// ================================================================================================
// E01 random element lists over all opcodes, without a transaction
// ================================================================================================
#[test]
fn e01_fuzz_flat_no_tx() {
    let ops = all_opcodes();
    eprintln!("HUNT e01: {} opcodes", ops.len());
    let mut rng = Rng(0x1234_5678_9abc_def1);
    let mut oks = 0;
    for i in 0..400_000 {
        let len = 1 + rng.below(25);
        let bits = random_flat_bits(&mut rng, &ops, &[], len);
        let it = Interpreter::from_script(&Script::from_script_bits(bits.clone()));
        let with_run = i % 20 == 0;
        match check(&it, with_run, rng.below(8)) {
            Ok(o) => oks += o.ok as usize,
            Err(v) => panic!("HUNT e01 violation: {}\nscript: {:?}", v, bits),
        }
    }
    eprintln!("HUNT e01: {} scripts ran to the end without error", oks);
}

// ================================================================================================
// E02 random byte strings through the parser
// ================================================================================================
#[test]
fn e02_fuzz_bytes_no_tx() {
    let mut rng = Rng(0xfeed_beef_0bad_cafe);
    let mut parsed = 0;
    for i in 0..2_000_000 {
        let len = rng.below(40);
        let bytes: Vec<u8> = (0..len)
            .map(|_| match rng.below(4) {
                0 => [0x63u8, 0x64, 0x67, 0x68, 0x6a, 0x00, 0x51, 0x65, 0x66][rng.below(9)],
                1 => rng.below(6) as u8,
                _ => rng.next() as u8,
            })
            .collect();
        let script = match catch_unwind(|| Script::from_bytes(&bytes)) {
            Ok(Ok(s)) => s,
            Ok(Err(_)) => continue,
            Err(_) => panic!("HUNT e02 parser panicked on {}", hex::encode(&bytes)),
        };
        if has_opcode(&script.to_script_bits(), OpCodes::OP_NUM2BIN) {
            continue;
        }
        parsed += 1;
        let it = Interpreter::from_script(&script);
        if let Err(v) = check(&it, i % 50 == 0, rng.below(6)) {
            panic!("HUNT e02 violation: {}\nscript: {}", v, hex::encode(&bytes));
        }
    }
    eprintln!("HUNT e02: {} scripts parsed", parsed);
}

// ================================================================================================
// E03 random element lists with a transaction context (signature opcodes reachable)
// ================================================================================================
#[test]
fn e03_fuzz_flat_with_tx() {
    let ops = all_opcodes();
    let c = ctx();
    let mut rng = Rng(0x0dd_ba11_5eed_0003);
    let extra = sig_items(&c, &mut rng);
    let sigops = [OpCodes::OP_CHECKSIG, OpCodes::OP_CHECKSIGVERIFY, OpCodes::OP_CHECKMULTISIG, OpCodes::OP_CHECKMULTISIGVERIFY, OpCodes::OP_CODESEPARATOR];
    for i in 0..200_000 {
        let mut bits = vec![];
        for _ in 0..rng.below(8) {
            match rng.below(3) {
                0 => bits.push(push(extra[rng.below(extra.len())].clone())),
                1 => bits.push(num(rng.below(5) as i128)),
                _ => bits.push(push(interesting_items(&mut rng))),
            }
        }
        let n = 1 + rng.below(10);
        for _ in 0..n {
            match rng.below(4) {
                0 => bits.push(op(sigops[rng.below(sigops.len())])),
                1 => bits.push(push(extra[rng.below(extra.len())].clone())),
                2 => bits.push(num(rng.below(4) as i128)),
                _ => bits.extend(random_flat_bits(&mut rng, &ops, &extra, 1)),
            }
        }
        let locking = match rng.below(4) {
            0 => None,
            1 => Some(Script::from_asm_string("OP_CHECKSIG").unwrap()),
            2 => Some(Script::from_asm_string("OP_1 OP_IF OP_CODESEPARATOR OP_CHECKSIG OP_ELSE OP_CODESEPARATOR OP_ENDIF OP_CODESEPARATOR").unwrap()),
            _ => Some(Script::from_script_bits(bits.clone())),
        };
        let sat = if rng.chance(80) { Some(5000) } else { None };
        let nin = rng.below(3);
        let nout = rng.below(3);
        let tx = make_tx(nin, nout, locking.as_ref(), sat, &Script::default());
        let index = rng.below(4);
        let it = Interpreter::from_transaction_and_script_bits(tx, index, bits.clone());
        if let Err(v) = check(&it, i % 25 == 0, rng.below(6)) {
            panic!("HUNT e03 violation: {}\nscript: {:?}\nnin {} nout {} index {}", v, bits, nin, nout, index);
        }
    }
}

// ================================================================================================
// E04 Interpreter::from_transaction: random unlocking and locking element lists (balanced or not), OP_RETURN and
// conditionals on either side of the join
// ================================================================================================
#[test]
fn e04_fuzz_from_transaction() {
    let c = ctx();
    let mut rng = Rng(0xabcdef0123456789);
    let extra = sig_items(&c, &mut rng);
    let pool = |rng: &mut Rng| -> ScriptBit {
        match rng.below(16) {
            0 => op(OpCodes::OP_IF),
            1 => op(OpCodes::OP_NOTIF),
            2 => op(OpCodes::OP_ELSE),
            3 | 4 => op(OpCodes::OP_ENDIF),
            5 | 6 => op(OpCodes::OP_RETURN),
            7 => op(OpCodes::OP_CODESEPARATOR),
            8 => op(OpCodes::OP_CHECKSIG),
            9 => op(OpCodes::OP_0),
            10 | 11 => op(OpCodes::OP_1),
            12 => push(extra[rng.below(extra.len())].clone()),
            13 => op(OpCodes::OP_DUP),
            14 => op(OpCodes::OP_CHECKMULTISIG),
            _ => op(OpCodes::OP_VERIFY),
        }
    };
    for i in 0..400_000 {
        let unlocking: Vec<ScriptBit> = (0..rng.below(8)).map(|_| pool(&mut rng)).collect();
        let locking: Vec<ScriptBit> = (0..rng.below(8)).map(|_| pool(&mut rng)).collect();
        // half of the time use the nested (parsed) form when it parses
        let to_script = |bits: &Vec<ScriptBit>, rng: &mut Rng| -> Script {
            let s = Script::from_script_bits(bits.clone());
            if rng.chance(50) {
                if let Ok(p) = Script::from_bytes(&s.to_bytes()) {
                    return p;
                }
            }
            s
        };
        let us = to_script(&unlocking, &mut rng);
        let ls = to_script(&locking, &mut rng);
        let tx = make_tx(1 + rng.below(2), rng.below(3), if rng.chance(90) { Some(&ls) } else { None }, if rng.chance(90) { Some(1) } else { None }, &us);
        let index = rng.below(tx.get_ninputs());
        let it = match catch_unwind(AssertUnwindSafe(|| Interpreter::from_transaction(&tx, index))) {
            Ok(Ok(it)) => it,
            Ok(Err(_)) => continue,
            Err(p) => panic!("HUNT e04 from_transaction panicked: {}\nunlocking {:?}\nlocking {:?}", panic_text(p), unlocking, locking),
        };
        if let Err(v) = check(&it, i % 25 == 0, rng.below(6)) {
            panic!("HUNT e04 violation: {}\nunlocking {:?}\nlocking {:?}", v, unlocking, locking);
        }
    }
}

// ================================================================================================
// E05 hand built element trees: conditional blocks with any opcode as their code, conditional opcodes left flat inside
// branches, coinbase elements, PushData with any opcode as its size code
// ================================================================================================
fn random_tree(rng: &mut Rng, ops: &[OpCodes], depth: usize) -> Vec<ScriptBit> {
    let n = rng.below(6);
    (0..n)
        .map(|_| match rng.below(12) {
            0 | 1 if depth < 5 => ScriptBit::If {
                code: if rng.chance(70) { [OpCodes::OP_IF, OpCodes::OP_NOTIF, OpCodes::OP_VERIF, OpCodes::OP_VERNOTIF][rng.below(4)] } else { ops[rng.below(ops.len())] },
                pass: random_tree(rng, ops, depth + 1),
                fail: if rng.chance(50) { Some(random_tree(rng, ops, depth + 1)) } else { None },
            },
            2 => ScriptBit::Coinbase(interesting_items(rng)),
            3 => ScriptBit::PushData(ops[rng.below(ops.len())], interesting_items(rng)),
            4 => op([OpCodes::OP_IF, OpCodes::OP_NOTIF, OpCodes::OP_ELSE, OpCodes::OP_ENDIF, OpCodes::OP_RETURN][rng.below(5)]),
            5 | 6 => op(OpCodes::OP_1),
            7 => op(OpCodes::OP_0),
            8 => op(OpCodes::OP_RETURN),
            9 => push(interesting_items(rng)),
            _ => {
                let o = ops[rng.below(ops.len())];
                if o == OpCodes::OP_NUM2BIN || o == OpCodes::OP_CAT {
                    op(OpCodes::OP_NOP)
                } else {
                    op(o)
                }
            }
        })
        .collect()
}

#[test]
fn e05_fuzz_trees() {
    let ops = all_opcodes();
    let mut rng = Rng(0x7777_1111_2222_3333);
    let ls = Script::from_asm_string("OP_1 OP_1 OP_1").unwrap();
    let us = Script::from_asm_string("OP_1 OP_IF OP_1 OP_ENDIF").unwrap();
    for i in 0..400_000 {
        let bits = random_tree(&mut rng, &ops, 0);
        let it = if rng.chance(50) {
            Interpreter::from_script(&Script::from_script_bits(bits.clone()))
        } else {
            Interpreter::from_transaction_and_script_bits(make_tx(1, 1, Some(&ls), Some(1), &us), 0, bits.clone())
        };
        if let Err(v) = check(&it, i % 25 == 0, rng.below(6)) {
            panic!("HUNT e05 violation: {}\nscript: {:?}", v, bits);
        }
    }
}

// ================================================================================================
// E06 every opcode on every stack depth 0..=7 with every kind of operand on top (exhaustive, no randomness in the
// opcode / depth choice)
// ================================================================================================
#[test]
fn e06_every_opcode_every_depth() {
    let ops = all_opcodes();
    let c = ctx();
    let mut rng = Rng(99);
    let extra = sig_items(&c, &mut rng);
    let numbers = interesting_numbers();
    let mut tops: Vec<Vec<u8>> = numbers.iter().cloned().map(scriptnum).collect();
    tops.extend([vec![0x80], vec![0, 0x80], vec![0; 10], vec![0xff; 9], vec![0xff; 520]]);
    let locking = Script::from_asm_string("OP_CHECKSIG").unwrap();
    for o in &ops {
        for depth in 0..=7usize {
            for (ti, top) in tops.iter().enumerate() {
                if *o == OpCodes::OP_NUM2BIN && ti < numbers.len() && numbers[ti] > 100_000 {
                    // size operand: only the small and the negative ones
                    continue;
                }
                let mut bits: Vec<ScriptBit> = vec![];
                for d in 0..depth {
                    if d + 1 == depth {
                        bits.push(push(top.clone()));
                    } else if d % 2 == 0 {
                        bits.push(push(extra[(d + ti) % extra.len()].clone()));
                    } else {
                        bits.push(push(tops[(d * 7 + ti) % tops.len()].clone()));
                    }
                }
                bits.push(op(*o));
                let it = Interpreter::from_script(&Script::from_script_bits(bits.clone()));
                if let Err(v) = check(&it, false, 0) {
                    panic!("HUNT e06 violation (no tx): {}\nscript: {:?}", v, bits);
                }
                let it = Interpreter::from_transaction_and_script_bits(make_tx(1, 1, Some(&locking), Some(5000), &Script::default()), 0, bits.clone());
                if let Err(v) = check(&it, false, 0) {
                    panic!("HUNT e06 violation (tx): {}\nscript: {:?}", v, bits);
                }
            }
        }
    }
}

// ================================================================================================
// E07 the deepest nesting the parsers accept (500 levels), run on threads with the default (2 MiB) and small stacks
// ================================================================================================
fn nested_script_bytes(depth: usize, with_else: bool) -> Vec<u8> {
    // OP_1 OP_IF OP_1 OP_IF ... <OP_2> [OP_ELSE OP_3] OP_ENDIF ... OP_ENDIF
    let mut b = vec![];
    for _ in 0..depth {
        b.push(0x51);
        b.push(0x63);
    }
    b.push(0x52);
    for _ in 0..depth {
        if with_else {
            b.push(0x67);
            b.push(0x53);
        }
        b.push(0x68);
    }
    b
}

fn on_thread<F: FnOnce() -> String + Send + 'static>(stack: usize, f: F) -> Result<String, String> {
    std::thread::Builder::new().stack_size(stack).spawn(f).unwrap().join().map_err(panic_text)
}

#[test]
fn e07_max_nesting_runs_on_default_stack() {
    for with_else in [false, true] {
        let bytes = nested_script_bytes(500, with_else);
        assert!(Script::from_bytes(&nested_script_bytes(501, with_else)).is_err());
        let r = on_thread(2 * 1024 * 1024, move || {
            let script = Script::from_bytes(&bytes).unwrap();
            let it = Interpreter::from_script(&script);
            let o = check(&it, true, 250).unwrap();
            format!("{:?}", o)
        })
        .unwrap();
        // oracle: every OP_IF sees OP_1, so only the innermost OP_2 stays
        assert_eq!(r, format!("{:?}", Outcome { ok: true, err: String::new(), stack: vec![vec![2]], alt: vec![] }));
    }
    // the else-chain form: OP_0 OP_IF OP_ELSE OP_0 OP_IF OP_ELSE ... nested through the else branches
    let mut b = vec![];
    for _ in 0..500 {
        b.extend([0x00, 0x63, 0x67]);
    }
    b.push(0x55);
    for _ in 0..500 {
        b.push(0x68);
    }
    let r = on_thread(2 * 1024 * 1024, move || {
        let script = Script::from_bytes(&b).unwrap();
        let it = Interpreter::from_script(&script);
        format!("{:?}", check(&it, true, 700).unwrap())
    })
    .unwrap();
    assert_eq!(r, format!("{:?}", Outcome { ok: true, err: String::new(), stack: vec![vec![5]], alt: vec![] }));
}

// ================================================================================================
// E08 an interpreter written to JSON / CBOR in the middle of a run and read back goes on like the original
// ================================================================================================
#[test]
fn e08_serde_roundtrip_mid_run() {
    let c = ctx();
    let locking = Script::from_asm_string("OP_1 OP_IF OP_CODESEPARATOR OP_NOP OP_ELSE OP_2 OP_ENDIF OP_CHECKSIG").unwrap();
    let mut tx = make_tx(1, 1, Some(&locking), Some(5000), &Script::default());
    // what follows the executed OP_CODESEPARATOR in the script as written (it starts inside the conditional)
    let sub = Script::from_script_bits(vec![op(OpCodes::OP_NOP), op(OpCodes::OP_ELSE), op(OpCodes::OP_2), op(OpCodes::OP_ENDIF), op(OpCodes::OP_CHECKSIG)]);
    assert_eq!(sub.to_bytes(), vec![0x61, 0x67, 0x52, 0x68, 0xac]);
    let sig = tx.sign(&c.key, SigHash::InputsOutputs, 0, &sub, 5000).unwrap().to_bytes().unwrap();
    let unlocking = Script::from_script_bits(vec![push(sig), push(c.pubkey.clone()), push(vec![]), op(OpCodes::OP_IF), op(OpCodes::OP_RETURN), op(OpCodes::OP_ENDIF)]);
    let mut txin = tx.get_input(0).unwrap();
    txin.set_unlocking_script(&unlocking);
    tx.set_input(0, &txin);
    let scripts: Vec<Interpreter> = vec![
        Interpreter::from_transaction(&tx, 0).unwrap(),
        Interpreter::from_script(&Script::from_asm_string("OP_1 OP_IF OP_2 OP_0 OP_IF OP_3 OP_ELSE OP_4 OP_TOALTSTACK OP_ENDIF OP_ELSE OP_5 OP_ENDIF 0011 OP_SIZE OP_RETURN OP_7").unwrap()),
        Interpreter::from_script(&Script::from_script_bits(vec![push(vec![]), ScriptBit::PushData(OpCodes::OP_PUSHDATA1, vec![]), ScriptBit::PushData(OpCodes::OP_PUSHDATA4, vec![1, 2]), op(OpCodes::OP_CAT), op(OpCodes::OP_0), op(OpCodes::OP_ADD)])),
    ];
    for (n, it) in scripts.iter().enumerate() {
        let reference = check(it, true, 2).unwrap();
        if n == 0 {
            // oracle: the signature commits to what follows the OP_CODESEPARATOR, so the check gives true
            assert_eq!(reference, Outcome { ok: true, err: String::new(), stack: vec![vec![1]], alt: vec![] });
        }
        for k in 0..12 {
            let mut a = it.clone();
            for _ in 0..k {
                let _ = a.next();
            }
            let json = serde_json::to_string(&a).unwrap();
            let back: Interpreter = serde_json::from_str(&json).unwrap();
            let o = mixed(back, 0);
            assert_eq!(o, reference, "json round trip after {} steps of script {}", k, n);
            let mut cbor = vec![];
            ciborium::ser::into_writer(&a, &mut cbor).unwrap();
            let back: Interpreter = ciborium::de::from_reader(&cbor[..]).unwrap();
            let o = mixed(back, 0);
            assert_eq!(o, reference, "cbor round trip after {} steps of script {}", k, n);
        }
    }
}

// ================================================================================================
// E09 DER signature mutations and public key encodings through OP_CHECKSIG / OP_CHECKMULTISIG
// ================================================================================================
#[test]
fn e09_fuzz_der_and_keys() {
    let c = ctx();
    let mut rng = Rng(0x5151_5151_0909_0909);
    let locking = Script::from_asm_string("OP_CHECKSIG").unwrap();
    let mut tx = make_tx(2, 1, Some(&locking), Some(5000), &Script::default());
    let good = tx.sign(&c.key, SigHash::InputsOutputs, 0, &locking, 5000).unwrap().to_bytes().unwrap();
    let unc = PublicKey::from_bytes(&c.pubkey).unwrap().to_decompressed().unwrap().to_bytes().unwrap();
    let mut trues = 0;
    for i in 0..150_000 {
        // signature
        let sig: Vec<u8> = match rng.below(4) {
            0 => {
                let mut s = good.clone();
                for _ in 0..rng.below(3) {
                    let p = rng.below(s.len());
                    s[p] = rng.next() as u8;
                }
                s
            }
            1 => {
                // structured: 30 L 02 rl r 02 sl s flag, lengths not necessarily truthful
                let rl = rng.below(36);
                let sl = rng.below(36);
                let mut r: Vec<u8> = (0..rl).map(|_| [0u8, 0xff, 0x80, 0x7f, 1][rng.below(5)]).collect();
                let mut s: Vec<u8> = (0..sl).map(|_| rng.next() as u8).collect();
                if rng.chance(30) {
                    r.insert(0, 0);
                }
                if rng.chance(30) {
                    s.insert(0, 0);
                }
                let mut b = vec![0x30, 0];
                b.push(0x02);
                b.push(if rng.chance(80) { r.len() as u8 } else { rng.next() as u8 });
                b.extend(&r);
                b.push(0x02);
                b.push(if rng.chance(80) { s.len() as u8 } else { rng.next() as u8 });
                b.extend(&s);
                b[1] = if rng.chance(80) { (b.len() - 2) as u8 } else { rng.next() as u8 };
                if rng.chance(10) {
                    b[1] = 0x81;
                    b.insert(2, (b.len() - 2) as u8);
                }
                b.push(FLAGS[rng.below(FLAGS.len())]);
                b
            }
            2 => {
                let mut s = good.clone();
                let l = s.len();
                s.truncate(rng.below(l + 1));
                if rng.chance(50) {
                    s.push(FLAGS[rng.below(FLAGS.len())]);
                }
                s
            }
            _ => {
                let mut s = good.clone();
                let l = s.len();
                s[l - 1] = rng.next() as u8;
                s
            }
        };
        // key
        let key: Vec<u8> = match rng.below(5) {
            0 => c.pubkey.clone(),
            1 => unc.clone(),
            2 => {
                let len = [0usize, 1, 32, 33, 34, 64, 65, 66][rng.below(8)];
                let mut k: Vec<u8> = (0..len).map(|_| rng.next() as u8).collect();
                if len > 0 {
                    k[0] = [0u8, 2, 3, 4, 5, 6, 7][rng.below(7)];
                }
                k
            }
            3 => {
                let mut k = c.pubkey.clone();
                k[0] = [0u8, 2, 3, 4, 5, 6, 7][rng.below(7)];
                k
            }
            _ => {
                let mut k = unc.clone();
                k[0] = [0u8, 2, 3, 4, 5, 6, 7][rng.below(7)];
                if rng.chance(50) {
                    let p = 1 + rng.below(64);
                    k[p] ^= 1 << rng.below(8);
                }
                k
            }
        };
        let bits = match rng.below(3) {
            0 => vec![push(sig.clone()), push(key.clone()), op(OpCodes::OP_CHECKSIG)],
            1 => vec![op(OpCodes::OP_0), push(sig.clone()), op(OpCodes::OP_1), push(key.clone()), push(c.pubkey.clone()), op(OpCodes::OP_2), op(OpCodes::OP_CHECKMULTISIG)],
            _ => vec![op(OpCodes::OP_0), push(good.clone()), push(sig.clone()), op(OpCodes::OP_2), push(key.clone()), push(c.pubkey.clone()), push(key.clone()), op(OpCodes::OP_3), op(OpCodes::OP_CHECKMULTISIGVERIFY)],
        };
        let it = Interpreter::from_transaction_and_script_bits(tx.clone(), rng.below(3), bits.clone());
        match check(&it, i % 100 == 0, 2) {
            Ok(o) => trues += (o.ok && o.stack.last() == Some(&vec![1u8])) as usize,
            Err(v) => panic!("HUNT e09 violation: {}\nsig {} key {}", v, hex::encode(&sig), hex::encode(&key)),
        }
    }
    eprintln!("HUNT e09: {} signature checks were true", trues);
    assert!(trues > 0);
}

// ================================================================================================
// E10 Interpreter::from_transaction with an input index the transaction does not have
// ================================================================================================
#[test]
fn e10_from_transaction_missing_input() {
    let tx = make_tx(1, 1, None, None, &Script::from_asm_string("OP_1").unwrap());
    let r = catch_unwind(AssertUnwindSafe(|| Interpreter::from_transaction(&tx, 1).map(|_| ()).map_err(|e| e.to_string())));
    eprintln!("HUNT e10: from_transaction(tx with 1 input, 1) -> {:?}", r.as_ref().map_err(|_| "PANIC"));
    let tx0 = Transaction::new(1, 0);
    let r0 = catch_unwind(AssertUnwindSafe(|| Interpreter::from_transaction(&tx0, 0).map(|_| ()).map_err(|e| e.to_string())));
    eprintln!("HUNT e10: from_transaction(tx without inputs, 0) -> {:?}", r0.as_ref().map_err(|_| "PANIC"));
}

// ================================================================================================
// E11 hand computed expectations for operands at the edges of the new operand reader (pop_number clamps)
// ================================================================================================
fn run_bits(bits: Vec<ScriptBit>) -> Outcome {
    let it = Interpreter::from_script(&Script::from_script_bits(bits));
    check(&it, true, 1).unwrap()
}

#[test]
fn e11_edge_operands() {
    let big = 1i128 << 100;
    // shifts by 2^100 bits give all zeros, same length
    let o = run_bits(vec![push(vec![0xff, 0xff, 0xff]), num(big), op(OpCodes::OP_LSHIFT)]);
    assert_eq!((o.ok, o.stack.clone()), (true, vec![vec![0, 0, 0]]));
    let o = run_bits(vec![push(vec![0xff, 0xff, 0xff]), num(big), op(OpCodes::OP_RSHIFT)]);
    assert_eq!((o.ok, o.stack.clone()), (true, vec![vec![0, 0, 0]]));
    // by 2^31-1 and 2^31
    for n in [(1i128 << 31) - 1, 1i128 << 31, (1i128 << 32) + 1, (1i128 << 64) + 3] {
        let o = run_bits(vec![push(vec![0x80, 0x01]), num(n), op(OpCodes::OP_RSHIFT)]);
        assert_eq!((o.ok, o.stack.clone()), (true, vec![vec![0, 0]]), "rshift {}", n);
        let o = run_bits(vec![push(vec![]), num(n), op(OpCodes::OP_LSHIFT)]);
        assert_eq!((o.ok, o.stack.clone()), (true, vec![vec![]]), "lshift empty {}", n);
        // 2^32+1 must not be read as 1
        let o = run_bits(vec![num(7), num(8), num(n), op(OpCodes::OP_PICK)]);
        assert!(!o.ok, "pick {}", n);
        assert_eq!(o.stack, vec![vec![7], vec![8], scriptnum(n)]);
        let o = run_bits(vec![num(7), num(8), num(n), op(OpCodes::OP_ROLL)]);
        assert!(!o.ok);
        let o = run_bits(vec![push(vec![1, 2, 3]), num(n), op(OpCodes::OP_SPLIT)]);
        assert!(!o.ok);
        let o = run_bits(vec![push(vec![1, 2, 3]), num(-n), op(OpCodes::OP_SPLIT)]);
        assert!(!o.ok);
        let o = run_bits(vec![push(vec![1, 2, 3]), num(-n), op(OpCodes::OP_NUM2BIN)]);
        assert!(!o.ok);
        let o = run_bits(vec![push(vec![1, 2, 3]), num(-n), op(OpCodes::OP_LSHIFT)]);
        assert!(!o.ok);
        let o = run_bits(vec![push(vec![1, 2, 3]), num(-n), op(OpCodes::OP_PICK)]);
        assert!(!o.ok);
    }
    // non minimal operands: 1 written in nine bytes
    let one9 = vec![1, 0, 0, 0, 0, 0, 0, 0, 0];
    let o = run_bits(vec![num(7), num(8), push(one9.clone()), op(OpCodes::OP_PICK)]);
    assert_eq!((o.ok, o.stack.clone()), (true, vec![vec![7], vec![8], vec![7]]));
    // minus zero in nine bytes is zero
    let mz = vec![0, 0, 0, 0, 0, 0, 0, 0, 0x80];
    let o = run_bits(vec![num(7), num(8), push(mz.clone()), op(OpCodes::OP_ROLL)]);
    assert_eq!((o.ok, o.stack.clone()), (true, vec![vec![7], vec![8]]));
    let o = run_bits(vec![push(vec![1, 2, 3]), push(mz.clone()), op(OpCodes::OP_SPLIT)]);
    assert_eq!((o.ok, o.stack.clone()), (true, vec![vec![], vec![1, 2, 3]]));
    // split at the length
    let o = run_bits(vec![push(vec![1, 2, 3]), num(3), op(OpCodes::OP_SPLIT)]);
    assert_eq!((o.ok, o.stack.clone()), (true, vec![vec![1, 2, 3], vec![]]));
    let o = run_bits(vec![push(vec![1, 2, 3]), num(4), op(OpCodes::OP_SPLIT)]);
    assert!(!o.ok);
    // OP_NUM2BIN size 0 of zero, and of minus zero
    let o = run_bits(vec![push(vec![0x80]), num(0), op(OpCodes::OP_NUM2BIN)]);
    assert_eq!((o.ok, o.stack.clone()), (true, vec![vec![]]));
    let o = run_bits(vec![push(vec![0, 0, 0x80]), num(1), op(OpCodes::OP_NUM2BIN)]);
    assert_eq!((o.ok, o.stack.clone()), (true, vec![vec![0]]));
    // -1 in 4 bytes
    let o = run_bits(vec![num(-1), num(4), op(OpCodes::OP_NUM2BIN)]);
    assert_eq!((o.ok, o.stack.clone()), (true, vec![vec![1, 0, 0, 0x80]]));
    // multisig counts beyond i32
    let tx = make_tx(1, 1, Some(&Script::default()), Some(1), &Script::default());
    for n in [big, -big, (1i128 << 32) + 1] {
        let it = Interpreter::from_transaction_and_script_bits(tx.clone(), 0, vec![op(OpCodes::OP_0), num(1), num(1), num(n), op(OpCodes::OP_CHECKMULTISIG)]);
        assert!(!check(&it, true, 1).unwrap().ok);
        let it = Interpreter::from_transaction_and_script_bits(tx.clone(), 0, vec![op(OpCodes::OP_0), num(1), num(n), num(1), num(1), op(OpCodes::OP_CHECKMULTISIG)]);
        assert!(!check(&it, true, 1).unwrap().ok);
    }
}

// ================================================================================================
// E12 run() called again after it returned an error; next() after run(); observations on the outcome
// ================================================================================================
#[test]
fn e12_run_after_error() {
    let mut it = Interpreter::from_script(&Script::from_asm_string("OP_1 OP_2 OP_0 OP_VERIFY OP_3").unwrap());
    let first = it.run().map_err(|e| e.to_string());
    let stack1 = it.state().stack.clone();
    let second = it.run().map_err(|e| e.to_string());
    let stack2 = it.state().stack.clone();
    eprintln!("HUNT e12: first run {:?}, second run {:?}, stacks {:?} {:?}, finished: {}", first, second, stack1, stack2, it.state().status == Status::Finished);
    assert!(first.is_err());
    // the last returned state is OP_1 OP_2 OP_0 on the stack (OP_VERIFY failed)
    assert_eq!(stack1, vec![vec![1], vec![2], vec![]]);
    assert_eq!(stack2, stack1);
    assert!(it.next().is_none());
}

// ================================================================================================
// E13 time of a long flat script (every step copies the element list)
// ================================================================================================
#[test]
fn e13_long_script_time() {
    for n in [5_000usize, 10_000, 20_000] {
        let bytes = vec![0x61u8; n];
        let script = Script::from_bytes(&bytes).unwrap();
        let mut it = Interpreter::from_script(&script);
        let t = std::time::Instant::now();
        let mut steps = 0;
        while let Some(r) = it.next() {
            r.unwrap();
            steps += 1;
        }
        eprintln!("HUNT e13: {} OP_NOP: {} steps in {:?}", n, steps, t.elapsed());
        assert_eq!(steps, n);
    }
}


// ================================================================================================
// E14 memory and time of nested conditionals that the parser accepts (at most 500 levels): every taken conditional
// stays in the element list with its whole body while a copy of the body is spliced in behind it, and every step
// copies the whole list
// ================================================================================================
fn vm_hwm_kb() -> usize {
    std::fs::read_to_string("/proc/self/status")
        .ok()
        .and_then(|s| s.lines().find(|l| l.starts_with("VmHWM")).and_then(|l| l.split_whitespace().nth(1).and_then(|v| v.parse().ok())))
        .unwrap_or(0)
}

/// depth x (OP_1 OP_IF), n x OP_NOP, depth x OP_ENDIF
fn nested_nops(depth: usize, n: usize) -> Vec<u8> {
    let mut bytes = vec![];
    for _ in 0..depth {
        bytes.extend([0x51, 0x63]);
    }
    bytes.extend(vec![0x61u8; n]);
    bytes.extend(vec![0x68u8; depth]);
    bytes
}

#[test]
fn e14_nested_conditionals_memory_and_time() {
    for (d, n) in [(100usize, 1000usize), (200, 1000), (400, 1000), (499, 1000), (499, 2000)] {
        let bytes = nested_nops(d, n);
        let script = Script::from_bytes(&bytes).unwrap();
        let mut it = Interpreter::from_script(&script);
        let before = vm_hwm_kb();
        let t = std::time::Instant::now();
        for _ in 0..2 * d {
            it.next().unwrap().unwrap();
        }
        let held = count_elements(&it.script_bits());
        eprintln!(
            "HUNT e14: depth {} nops {} ({} script bytes, {} elements): {} steps took {:?}; the interpreter now holds {} elements; VmHWM {} kB -> {} kB",
            d,
            n,
            bytes.len(),
            count_elements(&script.to_script_bits()),
            2 * d,
            t.elapsed(),
            held,
            before,
            vm_hwm_kb()
        );
    }
}

/// Child process of the two tests below: steps down to the innermost conditional and three steps further.
#[test]
fn helper_nested_descent() {
    let (d, n) = match (std::env::var("HUNT_D"), std::env::var("HUNT_N")) {
        (Ok(d), Ok(n)) => (d.parse::<usize>().unwrap(), n.parse::<usize>().unwrap()),
        _ => return,
    };
    let bytes = nested_nops(d, n);
    let script = Script::from_bytes(&bytes).unwrap();
    let mut it = Interpreter::from_script(&script);
    for _ in 0..2 * d + 3 {
        it.next().unwrap().unwrap();
    }
    eprintln!("HUNT helper: done, VmHWM {} kB", vm_hwm_kb());
}

fn run_limited(d: usize, n: usize, limit_kb: usize) -> (bool, String) {
    let exe = std::env::current_exe().unwrap();
    let out = std::process::Command::new("sh")
        .arg("-c")
        .arg(format!("ulimit -v {}; exec '{}' helper_nested_descent --exact --nocapture --test-threads 1", limit_kb, exe.display()))
        .env("HUNT_D", d.to_string())
        .env("HUNT_N", n.to_string())
        .output()
        .unwrap();
    let err = String::from_utf8_lossy(&out.stderr).to_string();
    let tail: String = err.lines().filter(|l| l.contains("HUNT") || l.contains("memory allocation") || l.contains("panicked")).collect::<Vec<_>>().join(" | ");
    (out.status.success(), format!("{:?}: {}", out.status, tail))
}

/// Control: the same 20 000 OP_NOP inside ONE conditional step fine in a process limited to 1 GiB of address space.
#[test]
fn e15_shallow_script_fits_in_one_gib() {
    let (ok, text) = run_limited(1, 20_000, 1024 * 1024);
    eprintln!("HUNT e15: {}", text);
    assert!(ok, "{}", text);
}

/// A 21 KB script that the parser accepts (499 nested OP_1 OP_IF around 20 000 OP_NOP): the steps must return states or
/// an error. In a process limited to 1 GiB of address space the process is aborted (memory allocation failed) instead.
#[test]
fn violation_nested_conditionals_exhaust_memory() {
    assert_eq!(nested_nops(499, 20_000).len(), 21_497);
    let (ok, text) = run_limited(499, 20_000, 1024 * 1024);
    eprintln!("HUNT violation_nested: {}", text);
    assert!(ok, "stepping a 21 497 byte script aborted the process: {}", text);
}

/// Interpreter::from_transaction returns a Result, and there is an error for it (InterpreterError::NoTxInProvided), but an
/// input index the transaction does not have panics (unwrap of None in src/interpreter/mod.rs:176).
#[test]
fn violation_from_transaction_missing_input_panics() {
    let tx = make_tx(1, 1, None, None, &Script::from_asm_string("OP_1").unwrap());
    // the input that exists is fine
    assert!(Interpreter::from_transaction(&tx, 0).is_ok());
    let r = catch_unwind(AssertUnwindSafe(|| Interpreter::from_transaction(&tx, 1).map(|_| ())));
    match r {
        Ok(Err(_)) => {}
        Ok(Ok(())) => panic!("an interpreter for an input that does not exist"),
        Err(p) => panic!("from_transaction panicked: {}", panic_text(p)),
    }
}

// ================================================================================================
// E16 differential test of the control flow against a small reference interpreter written from the specification
// (execution-flag stack as in the node; no splicing, no nesting): parsed scripts over conditionals and simple stack opcodes
// ================================================================================================
fn ref_truth(v: &[u8]) -> bool {
    for (i, b) in v.iter().enumerate() {
        if *b != 0 {
            return !(i == v.len() - 1 && *b == 0x80);
        }
    }
    false
}
fn ref_num(v: &[u8]) -> i128 {
    if v.is_empty() {
        return 0;
    }
    let mut m: i128 = 0;
    for (i, b) in v.iter().enumerate() {
        let b = if i == v.len() - 1 { b & 0x7f } else { *b };
        m |= (b as i128) << (8 * i);
    }
    if v[v.len() - 1] & 0x80 != 0 {
        -m
    } else {
        m
    }
}

/// Ok(final stacks) or Err(()) when the script fails
fn reference_run(code: &[u8]) -> Result<(Vec<Vec<u8>>, Vec<Vec<u8>>), ()> {
    let mut stack: Vec<Vec<u8>> = vec![];
    let mut alt: Vec<Vec<u8>> = vec![];
    let mut exec: Vec<bool> = vec![];
    let mut seen_else: Vec<bool> = vec![];
    for &b in code {
        let executing = exec.iter().all(|e| *e);
        match b {
            0x63 | 0x64 => {
                let mut value = false;
                if executing {
                    let top = stack.pop().ok_or(())?;
                    value = ref_truth(&top);
                    if b == 0x64 {
                        value = !value;
                    }
                }
                exec.push(value);
                seen_else.push(false);
            }
            0x67 => {
                if exec.is_empty() || *seen_else.last().unwrap() {
                    return Err(());
                }
                let l = exec.len() - 1;
                exec[l] = !exec[l];
                seen_else[l] = true;
            }
            0x68 => {
                if exec.is_empty() {
                    return Err(());
                }
                exec.pop();
                seen_else.pop();
            }
            _ if !executing => {}
            0x00 => stack.push(vec![]),
            0x4f => stack.push(vec![0x81]),
            0x51..=0x60 => stack.push(vec![b - 0x50]),
            0x61 => {}
            0x69 => {
                let top = stack.pop().ok_or(())?;
                if !ref_truth(&top) {
                    return Err(());
                }
            }
            0x6b => alt.push(stack.pop().ok_or(())?),
            0x6c => stack.push(alt.pop().ok_or(())?),
            0x73 => {
                let top = stack.last().cloned().ok_or(())?;
                if ref_truth(&top) {
                    stack.push(top);
                }
            }
            0x74 => stack.push(scriptnum(stack.len() as i128)),
            0x75 => {
                stack.pop().ok_or(())?;
            }
            0x76 => {
                let top = stack.last().cloned().ok_or(())?;
                stack.push(top);
            }
            0x7c => {
                if stack.len() < 2 {
                    return Err(());
                }
                let l = stack.len();
                stack.swap(l - 1, l - 2);
            }
            0x91 => {
                let a = ref_num(&stack.pop().ok_or(())?);
                stack.push(if a == 0 { vec![1] } else { vec![] });
            }
            0x93 | 0x94 => {
                let b2 = ref_num(&stack.pop().ok_or(())?);
                let a = ref_num(&stack.pop().ok_or(())?);
                stack.push(scriptnum(if b == 0x93 { a + b2 } else { a - b2 }));
            }
            _ => return Err(()),
        }
    }
    if !exec.is_empty() {
        return Err(());
    }
    Ok((stack, alt))
}

#[test]
fn e16_differential_control_flow() {
    let alphabet: [u8; 26] = [0x63, 0x63, 0x64, 0x67, 0x67, 0x68, 0x68, 0x68, 0x00, 0x00, 0x51, 0x51, 0x52, 0x4f, 0x61, 0x69, 0x6b, 0x6c, 0x73, 0x74, 0x75, 0x76, 0x7c, 0x91, 0x93, 0x94];
    let mut rng = Rng(0x1616_1616_1616_1616);
    let (mut parsed, mut oks) = (0, 0);
    for _ in 0..400_000 {
        let len = rng.below(16);
        let code: Vec<u8> = (0..len).map(|_| alphabet[rng.below(alphabet.len())]).collect();
        let script = match Script::from_bytes(&code) {
            Ok(s) => s,
            Err(_) => continue, // unbalanced to the parser (the reference fails these as well)
        };
        parsed += 1;
        let expected = reference_run(&code);
        let it = Interpreter::from_script(&script);
        let got = check(&it, false, 0).unwrap_or_else(|v| panic!("HUNT e16 violation {} for {}", v, hex::encode(&code)));
        match (&expected, got.ok) {
            (Ok((s, a)), true) => {
                oks += 1;
                assert_eq!((s, a), (&got.stack, &got.alt), "final stacks of {}", hex::encode(&code));
            }
            (Err(()), false) => {}
            _ => panic!("HUNT e16: script {} reference {:?} library {:?}", hex::encode(&code), expected, got),
        }
        // the same elements assembled flat, one by one, run alike
        let flat: Vec<ScriptBit> = code.iter().map(|b| op(OpCodes::from_u8(*b).unwrap())).collect();
        let got_flat = check(&Interpreter::from_script(&Script::from_script_bits(flat)), false, 0).unwrap();
        assert_eq!(got_flat, got, "flat form of {}", hex::encode(&code));
    }
    eprintln!("HUNT e16: {} parsed, {} ran to the end", parsed, oks);
    assert!(oks > 1000);
}
