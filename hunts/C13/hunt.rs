// Hunt for violations of C13: hash / HMAC / PBKDF2 equal the standard algorithms on every input.
// Oracles: reference implementations written from the specifications (FIPS 180-4, RIPEMD-160 paper,
// RFC 2104, RFC 8018) inside this file; constants for SHA-2 are derived from prime roots with big integers,
// RIPEMD-160 word orders are derived from the rho / pi permutations; the references are themselves
// validated against published test vectors.
#![allow(clippy::needless_range_loop)]
use bsv::hash::hash160_digest::Hash160;
use bsv::hash::sha256d_digest::Sha256d;
use bsv::*;
use digest::{Digest, DynDigest};
use num_bigint::BigUint;

// ---------------------------------------------------------------- helpers
fn hx(b: &[u8]) -> String {
    hex::encode(b)
}
fn unhex(s: &str) -> Vec<u8> {
    hex::decode(s).unwrap()
}
struct Lcg(u64);
impl Lcg {
    fn next(&mut self) -> u64 {
        self.0 = self.0.wrapping_mul(6364136223846793005).wrapping_add(1442695040888963407);
        self.0 >> 33
    }
    fn bytes(&mut self, n: usize) -> Vec<u8> {
        (0..n).map(|_| self.next() as u8).collect()
    }
}
fn patterns(n: usize, seed: u64) -> Vec<Vec<u8>> {
    let mut l = Lcg(seed ^ (n as u64).wrapping_mul(0x9E3779B97F4A7C15));
    vec![vec![0u8; n], vec![0xffu8; n], vec![0x80u8; n], (0..n).map(|i| i as u8).collect(), l.bytes(n)]
}
fn primes(n: usize) -> Vec<u32> {
    let mut v = vec![];
    let mut c = 2u32;
    while v.len() < n {
        if (2..c).take_while(|d| d * d <= c).all(|d| c % d != 0) {
            v.push(c);
        }
        c += 1;
    }
    v
}
fn low_u64(b: &BigUint) -> u64 {
    let d = b.to_u64_digits();
    if d.is_empty() {
        0
    } else {
        d[0]
    }
}

// ---------------------------------------------------------------- reference SHA-256
struct Sha256Consts {
    k: [u32; 64],
    h: [u32; 8],
}
fn sha256_consts() -> Sha256Consts {
    let p = primes(64);
    let mut k = [0u32; 64];
    let mut h = [0u32; 8];
    for i in 0..64 {
        k[i] = low_u64(&(BigUint::from(p[i]) << 96usize).cbrt()) as u32;
    }
    for i in 0..8 {
        h[i] = low_u64(&(BigUint::from(p[i]) << 64usize).sqrt()) as u32;
    }
    Sha256Consts { k, h }
}
fn sha256_compress(c: &Sha256Consts, st: &mut [u32; 8], block: &[u8]) {
    let mut w = [0u32; 64];
    for t in 0..16 {
        w[t] = u32::from_be_bytes([block[4 * t], block[4 * t + 1], block[4 * t + 2], block[4 * t + 3]]);
    }
    for t in 16..64 {
        let s0 = w[t - 15].rotate_right(7) ^ w[t - 15].rotate_right(18) ^ (w[t - 15] >> 3);
        let s1 = w[t - 2].rotate_right(17) ^ w[t - 2].rotate_right(19) ^ (w[t - 2] >> 10);
        w[t] = w[t - 16].wrapping_add(s0).wrapping_add(w[t - 7]).wrapping_add(s1);
    }
    let [mut a, mut b, mut cc, mut d, mut e, mut f, mut g, mut hh] = *st;
    for t in 0..64 {
        let s1 = e.rotate_right(6) ^ e.rotate_right(11) ^ e.rotate_right(25);
        let ch = (e & f) ^ (!e & g);
        let t1 = hh.wrapping_add(s1).wrapping_add(ch).wrapping_add(c.k[t]).wrapping_add(w[t]);
        let s0 = a.rotate_right(2) ^ a.rotate_right(13) ^ a.rotate_right(22);
        let maj = (a & b) ^ (a & cc) ^ (b & cc);
        let t2 = s0.wrapping_add(maj);
        hh = g;
        g = f;
        f = e;
        e = d.wrapping_add(t1);
        d = cc;
        cc = b;
        b = a;
        a = t1.wrapping_add(t2);
    }
    let add = [a, b, cc, d, e, f, g, hh];
    for i in 0..8 {
        st[i] = st[i].wrapping_add(add[i]);
    }
}
// Merkle-Damgard padding shared by the references: 0x80, zeros, length field of `lenbytes` bytes.
fn md_tail(msg: &[u8], block: usize, lenbytes: usize, big_endian: bool) -> Vec<u8> {
    let full = msg.len() / block * block;
    let mut tail = msg[full..].to_vec();
    tail.push(0x80);
    while tail.len() % block != block - lenbytes {
        tail.push(0);
    }
    let bits = (msg.len() as u128) * 8;
    if big_endian {
        tail.extend_from_slice(&bits.to_be_bytes()[16 - lenbytes..]);
    } else {
        tail.extend_from_slice(&bits.to_le_bytes()[..lenbytes]);
    }
    tail
}
thread_local! {
    static C256: Sha256Consts = sha256_consts();
    static C512: Sha512Consts = sha512_consts();
    static RMD: RmdTables = rmd_tables();
}
fn sha256_ref(msg: &[u8]) -> Vec<u8> {
    C256.with(|c| {
        let mut st = c.h;
        let full = msg.len() / 64 * 64;
        for b in msg[..full].chunks(64) {
            sha256_compress(c, &mut st, b);
        }
        for b in md_tail(msg, 64, 8, true).chunks(64) {
            sha256_compress(c, &mut st, b);
        }
        st.iter().flat_map(|w| w.to_be_bytes()).collect()
    })
}
fn sha256d_ref(msg: &[u8]) -> Vec<u8> {
    sha256_ref(&sha256_ref(msg))
}

// ---------------------------------------------------------------- reference SHA-512
struct Sha512Consts {
    k: [u64; 80],
    h: [u64; 8],
}
fn sha512_consts() -> Sha512Consts {
    let p = primes(80);
    let mut k = [0u64; 80];
    let mut h = [0u64; 8];
    for i in 0..80 {
        k[i] = low_u64(&(BigUint::from(p[i]) << 192usize).cbrt());
    }
    for i in 0..8 {
        h[i] = low_u64(&(BigUint::from(p[i]) << 128usize).sqrt());
    }
    Sha512Consts { k, h }
}
fn sha512_ref(msg: &[u8]) -> Vec<u8> {
    C512.with(|c| {
        let mut st = c.h;
        let full = msg.len() / 128 * 128;
        let mut all: Vec<&[u8]> = msg[..full].chunks(128).collect();
        let tail = md_tail(msg, 128, 16, true);
        all.extend(tail.chunks(128));
        for block in all {
            let mut w = [0u64; 80];
            for t in 0..16 {
                let mut x = [0u8; 8];
                x.copy_from_slice(&block[8 * t..8 * t + 8]);
                w[t] = u64::from_be_bytes(x);
            }
            for t in 16..80 {
                let s0 = w[t - 15].rotate_right(1) ^ w[t - 15].rotate_right(8) ^ (w[t - 15] >> 7);
                let s1 = w[t - 2].rotate_right(19) ^ w[t - 2].rotate_right(61) ^ (w[t - 2] >> 6);
                w[t] = w[t - 16].wrapping_add(s0).wrapping_add(w[t - 7]).wrapping_add(s1);
            }
            let [mut a, mut b, mut cc, mut d, mut e, mut f, mut g, mut hh] = st;
            for t in 0..80 {
                let s1 = e.rotate_right(14) ^ e.rotate_right(18) ^ e.rotate_right(41);
                let ch = (e & f) ^ (!e & g);
                let t1 = hh.wrapping_add(s1).wrapping_add(ch).wrapping_add(c.k[t]).wrapping_add(w[t]);
                let s0 = a.rotate_right(28) ^ a.rotate_right(34) ^ a.rotate_right(39);
                let maj = (a & b) ^ (a & cc) ^ (b & cc);
                let t2 = s0.wrapping_add(maj);
                hh = g;
                g = f;
                f = e;
                e = d.wrapping_add(t1);
                d = cc;
                cc = b;
                b = a;
                a = t1.wrapping_add(t2);
            }
            let add = [a, b, cc, d, e, f, g, hh];
            for i in 0..8 {
                st[i] = st[i].wrapping_add(add[i]);
            }
        }
        st.iter().flat_map(|w| w.to_be_bytes()).collect()
    })
}

// ---------------------------------------------------------------- reference SHA-1
fn sha1_ref(msg: &[u8]) -> Vec<u8> {
    let mut st: [u32; 5] = [0x67452301, 0xEFCDAB89, 0x98BADCFE, 0x10325476, 0xC3D2E1F0];
    let full = msg.len() / 64 * 64;
    let mut all: Vec<&[u8]> = msg[..full].chunks(64).collect();
    let tail = md_tail(msg, 64, 8, true);
    all.extend(tail.chunks(64));
    for block in all {
        let mut w = [0u32; 80];
        for t in 0..16 {
            w[t] = u32::from_be_bytes([block[4 * t], block[4 * t + 1], block[4 * t + 2], block[4 * t + 3]]);
        }
        for t in 16..80 {
            w[t] = (w[t - 3] ^ w[t - 8] ^ w[t - 14] ^ w[t - 16]).rotate_left(1);
        }
        let [mut a, mut b, mut c, mut d, mut e] = st;
        for t in 0..80 {
            let (f, k) = match t / 20 {
                0 => ((b & c) | (!b & d), 0x5A827999u32),
                1 => (b ^ c ^ d, 0x6ED9EBA1),
                2 => ((b & c) | (b & d) | (c & d), 0x8F1BBCDC),
                _ => (b ^ c ^ d, 0xCA62C1D6),
            };
            let tmp = a.rotate_left(5).wrapping_add(f).wrapping_add(e).wrapping_add(k).wrapping_add(w[t]);
            e = d;
            d = c;
            c = b.rotate_left(30);
            b = a;
            a = tmp;
        }
        let add = [a, b, c, d, e];
        for i in 0..5 {
            st[i] = st[i].wrapping_add(add[i]);
        }
    }
    st.iter().flat_map(|w| w.to_be_bytes()).collect()
}

// ---------------------------------------------------------------- reference RIPEMD-160
struct RmdTables {
    r: [usize; 80],
    rp: [usize; 80],
}
fn rmd_tables() -> RmdTables {
    // rho and pi permutations from the RIPEMD-160 paper; rows are rho^j and rho^j . pi
    let rho: [usize; 16] = [7, 4, 13, 1, 10, 6, 15, 3, 12, 0, 9, 5, 2, 14, 11, 8];
    let mut r = [0usize; 80];
    let mut rp = [0usize; 80];
    for i in 0..16 {
        r[i] = i;
        rp[i] = (9 * i + 5) % 16;
    }
    for j in 1..5 {
        for i in 0..16 {
            r[16 * j + i] = rho[r[16 * (j - 1) + i]];
            rp[16 * j + i] = rho[rp[16 * (j - 1) + i]];
        }
    }
    RmdTables { r, rp }
}
const RMD_S: [u32; 80] = [
    11, 14, 15, 12, 5, 8, 7, 9, 11, 13, 14, 15, 6, 7, 9, 8, 7, 6, 8, 13, 11, 9, 7, 15, 7, 12, 15, 9, 11, 7, 13, 12, 11, 13, 6, 7, 14, 9, 13, 15, 14, 8, 13, 6, 5, 12, 7, 5, 11, 12, 14, 15, 14, 15, 9,
    8, 9, 14, 5, 6, 8, 6, 5, 12, 9, 15, 5, 11, 6, 8, 13, 12, 5, 12, 13, 14, 11, 8, 5, 6,
];
const RMD_SP: [u32; 80] = [
    8, 9, 9, 11, 13, 15, 15, 5, 7, 7, 8, 11, 14, 14, 12, 6, 9, 13, 15, 7, 12, 8, 9, 11, 7, 7, 12, 7, 6, 15, 13, 11, 9, 7, 15, 11, 8, 6, 6, 14, 12, 13, 5, 14, 13, 13, 7, 5, 15, 5, 8, 11, 14, 14, 6, 14,
    6, 9, 12, 9, 12, 5, 15, 8, 8, 5, 12, 9, 12, 5, 14, 6, 8, 13, 6, 5, 15, 13, 11, 11,
];
fn rmd_f(j: usize, x: u32, y: u32, z: u32) -> u32 {
    match j {
        0 => x ^ y ^ z,
        1 => (x & y) | (!x & z),
        2 => (x | !y) ^ z,
        3 => (x & z) | (y & !z),
        _ => x ^ (y | !z),
    }
}
fn ripemd160_ref(msg: &[u8]) -> Vec<u8> {
    RMD.with(|tb| {
        const K: [u32; 5] = [0, 0x5A827999, 0x6ED9EBA1, 0x8F1BBCDC, 0xA953FD4E];
        const KP: [u32; 5] = [0x50A28BE6, 0x5C4DD124, 0x6D703EF3, 0x7A6D76E9, 0];
        let mut h: [u32; 5] = [0x67452301, 0xEFCDAB89, 0x98BADCFE, 0x10325476, 0xC3D2E1F0];
        let full = msg.len() / 64 * 64;
        let mut all: Vec<&[u8]> = msg[..full].chunks(64).collect();
        let tail = md_tail(msg, 64, 8, false);
        all.extend(tail.chunks(64));
        for block in all {
            let mut x = [0u32; 16];
            for t in 0..16 {
                x[t] = u32::from_le_bytes([block[4 * t], block[4 * t + 1], block[4 * t + 2], block[4 * t + 3]]);
            }
            let [mut a, mut b, mut c, mut d, mut e] = h;
            let [mut ap, mut bp, mut cp, mut dp, mut ep] = h;
            for j in 0..80 {
                let t = a.wrapping_add(rmd_f(j / 16, b, c, d)).wrapping_add(x[tb.r[j]]).wrapping_add(K[j / 16]).rotate_left(RMD_S[j]).wrapping_add(e);
                a = e;
                e = d;
                d = c.rotate_left(10);
                c = b;
                b = t;
                let t = ap.wrapping_add(rmd_f(4 - j / 16, bp, cp, dp)).wrapping_add(x[tb.rp[j]]).wrapping_add(KP[j / 16]).rotate_left(RMD_SP[j]).wrapping_add(ep);
                ap = ep;
                ep = dp;
                dp = cp.rotate_left(10);
                cp = bp;
                bp = t;
            }
            let t = h[1].wrapping_add(c).wrapping_add(dp);
            h[1] = h[2].wrapping_add(d).wrapping_add(ep);
            h[2] = h[3].wrapping_add(e).wrapping_add(ap);
            h[3] = h[4].wrapping_add(a).wrapping_add(bp);
            h[4] = h[0].wrapping_add(b).wrapping_add(cp);
            h[0] = t;
        }
        h.iter().flat_map(|w| w.to_le_bytes()).collect()
    })
}
fn hash160_ref(msg: &[u8]) -> Vec<u8> {
    ripemd160_ref(&sha256_ref(msg))
}

// ---------------------------------------------------------------- reference HMAC (RFC 2104) and PBKDF2 (RFC 8018)
type H = fn(&[u8]) -> Vec<u8>;
fn hmac_ref(h: H, block: usize, key: &[u8], msg: &[u8]) -> Vec<u8> {
    let mut k = if key.len() > block { h(key) } else { key.to_vec() };
    k.resize(block, 0);
    let mut inner: Vec<u8> = k.iter().map(|b| b ^ 0x36).collect();
    inner.extend_from_slice(msg);
    let mut outer: Vec<u8> = k.iter().map(|b| b ^ 0x5c).collect();
    outer.extend_from_slice(&h(&inner));
    h(&outer)
}
fn pbkdf2_ref(h: H, block: usize, pw: &[u8], salt: &[u8], c: u32, dklen: usize) -> Vec<u8> {
    assert!(c >= 1);
    let mut out = vec![];
    let mut i = 1u32;
    while out.len() < dklen {
        let mut s = salt.to_vec();
        s.extend_from_slice(&i.to_be_bytes());
        let mut u = hmac_ref(h, block, pw, &s);
        let mut t = u.clone();
        for _ in 1..c {
            u = hmac_ref(h, block, pw, &u);
            for (a, b) in t.iter_mut().zip(u.iter()) {
                *a ^= b;
            }
        }
        out.extend_from_slice(&t);
        i += 1;
    }
    out.truncate(dklen);
    out
}

// ================================================================ E01: the references themselves against published vectors,
// and the library against the same vectors
#[test]
fn e01_published_vectors() {
    let abc = b"abc";
    let cases: Vec<(&str, H, fn(&[u8]) -> Hash, &[u8], &str)> = vec![
        ("sha1", sha1_ref, Hash::sha_1, abc, "a9993e364706816aba3e25717850c26c9cd0d89d"),
        ("sha1", sha1_ref, Hash::sha_1, b"", "da39a3ee5e6b4b0d3255bfef95601890afd80709"),
        ("sha256", sha256_ref, Hash::sha_256, abc, "ba7816bf8f01cfea414140de5dae2223b00361a396177a9cb410ff61f20015ad"),
        ("sha256", sha256_ref, Hash::sha_256, b"", "e3b0c44298fc1c149afbf4c8996fb92427ae41e4649b934ca495991b7852b855"),
        (
            "sha256",
            sha256_ref,
            Hash::sha_256,
            b"abcdbcdecdefdefgefghfghighijhijkijkljklmklmnlmnomnopnopq",
            "248d6a61d20638b8e5c026930c3e6039a33ce45964ff2167f6ecedd419db06c1",
        ),
        (
            "sha512",
            sha512_ref,
            Hash::sha_512,
            abc,
            "ddaf35a193617abacc417349ae20413112e6fa4e89a97ea20a9eeee64b55d39a2192992a274fc1a836ba3c23a3feebbd454d4423643ce80e2a9ac94fa54ca49f",
        ),
        (
            "sha512",
            sha512_ref,
            Hash::sha_512,
            b"",
            "cf83e1357eefb8bdf1542850d66d8007d620e4050b5715dc83f4a921d36ce9ce47d0d13c5d85f2b0ff8318d2877eec2f63b931bd47417a81a538327af927da3e",
        ),
        ("rmd160", ripemd160_ref, Hash::ripemd_160, b"", "9c1185a5c5e9fc54612808977ee8f548b2258d31"),
        ("rmd160", ripemd160_ref, Hash::ripemd_160, abc, "8eb208f7e05d987a9b044a8e98c6b087f15a0bfc"),
        ("rmd160", ripemd160_ref, Hash::ripemd_160, b"message digest", "5d0689ef49d2fae572b881b123a85ffa21595f36"),
        ("rmd160", ripemd160_ref, Hash::ripemd_160, b"abcdefghijklmnopqrstuvwxyz", "f71c27109c692c1b56bbdceb5b9d2865b3708dbc"),
        (
            "rmd160",
            ripemd160_ref,
            Hash::ripemd_160,
            b"abcdbcdecdefdefgefghfghighijhijkijkljklmklmnlmnomnopnopq",
            "12a053384a9c0c88e405a06c27dcf49ada62eb2b",
        ),
        ("sha256d", sha256d_ref, Hash::sha_256d, b"hello", "9595c9df90075148eb06860365df33584b75bff782a510c6cd4883a419833d50"),
        ("hash160", hash160_ref, Hash::hash_160, b"", "b472a266d0bd89c13706a4132ccfb16f7c3b9fcb"),
    ];
    for (name, r, l, m, want) in cases {
        assert_eq!(hx(&r(m)), want, "reference {} on {:?}", name, m);
        assert_eq!(l(m).to_hex(), want, "library {} on {:?}", name, m);
    }
    let a_million = vec![b'a'; 1_000_000];
    assert_eq!(hx(&ripemd160_ref(&a_million)), "52783243c1697bdbe16d37f97f68f08325dc1528");
    assert_eq!(Hash::ripemd_160(&a_million).to_hex(), "52783243c1697bdbe16d37f97f68f08325dc1528");
    assert_eq!(hx(&sha1_ref(&a_million)), "34aa973cd4c4daa4f61eeb2bdbad27316534016f");
    assert_eq!(Hash::sha_1(&a_million).to_hex(), "34aa973cd4c4daa4f61eeb2bdbad27316534016f");
    assert_eq!(hx(&sha256_ref(&a_million)), "cdc76e5c9914fb9281a1c7e284d73e67f1809a48a497200e046d39ccc7112cd0");
    assert_eq!(Hash::sha_256(&a_million).to_hex(), "cdc76e5c9914fb9281a1c7e284d73e67f1809a48a497200e046d39ccc7112cd0");
    assert_eq!(
        hx(&sha512_ref(&a_million)),
        "e718483d0ce769644e2e42c7bc15b4638e1f98b13b2044285632a803afa973ebde0ff244877ea60a4cb0432ce577c31beb009c5c2c49aa2e4eadb217ad8cc09b"
    );
    assert_eq!(Hash::sha_512(&a_million).to_bytes(), sha512_ref(&a_million));

    // HMAC: RFC 2202 / RFC 4231 / RFC 2286 test case 1 and the long-key case
    let k = vec![0x0bu8; 20];
    assert_eq!(hx(&hmac_ref(sha1_ref, 64, &k, b"Hi There")), "b617318655057264e28bc0b6fb378c8ef146be00");
    assert_eq!(Hash::sha_1_hmac(b"Hi There", &k).to_hex(), "b617318655057264e28bc0b6fb378c8ef146be00");
    assert_eq!(hx(&hmac_ref(sha256_ref, 64, &k, b"Hi There")), "b0344c61d8db38535ca8afceaf0bf12b881dc200c9833da726e9376c2e32cff7");
    assert_eq!(Hash::sha_256_hmac(b"Hi There", &k).to_hex(), "b0344c61d8db38535ca8afceaf0bf12b881dc200c9833da726e9376c2e32cff7");
    let w512 = "87aa7cdea5ef619d4ff0b4241a1d6cb02379f4e2ce4ec2787ad0b30545e17cdedaa833b7d6b8a702038b274eaea3f4e4be9d914eeb61f1702e696c203a126854";
    assert_eq!(hx(&hmac_ref(sha512_ref, 128, &k, b"Hi There")), w512);
    assert_eq!(Hash::sha_512_hmac(b"Hi There", &k).to_hex(), w512);
    assert_eq!(hx(&hmac_ref(ripemd160_ref, 64, &k, b"Hi There")), "24cb4bd67d20fc1a5d2ed7732dcc39377f0a5668");
    assert_eq!(Hash::ripemd_160_hmac(b"Hi There", &k).to_hex(), "24cb4bd67d20fc1a5d2ed7732dcc39377f0a5668");
    // RFC 4231 test case 6: 131-byte key
    let k131 = vec![0xaau8; 131];
    let m6 = b"Test Using Larger Than Block-Size Key - Hash Key First";
    assert_eq!(hx(&hmac_ref(sha256_ref, 64, &k131, m6)), "60e431591ee0b67f0d8a26aacbf5b77f8e0bc6213728c5140546040f0ee37f54");
    assert_eq!(Hash::sha_256_hmac(m6, &k131).to_hex(), "60e431591ee0b67f0d8a26aacbf5b77f8e0bc6213728c5140546040f0ee37f54");
    let w6 = "80b24263c7c1a3ebb71493c1dd7be8b49b46d1f41b4aeec1121b013783f8f3526b56d037e05f2598bd0fd2215d6a1e5295e64f73f63f0aec8b915a985d786598";
    assert_eq!(hx(&hmac_ref(sha512_ref, 128, &k131, m6)), w6);
    assert_eq!(Hash::sha_512_hmac(m6, &k131).to_hex(), w6);

    // PBKDF2: RFC 6070 (SHA-1), RFC 7914 section 11 (SHA-256), BIP39 TREZOR vector (SHA-512)
    let v: Vec<(&[u8], &[u8], u32, usize, &str)> = vec![
        (b"password", b"salt", 1, 20, "0c60c80f961f0e71f3a9b524af6012062fe037a6"),
        (b"password", b"salt", 2, 20, "ea6c014dc72d6f8ccd1ed92ace1d41f0d8de8957"),
        (b"password", b"salt", 4096, 20, "4b007901b765489abead49d926f721d065a429c1"),
        (b"passwordPASSWORDpassword", b"saltSALTsaltSALTsaltSALTsaltSALTsalt", 4096, 25, "3d2eec4fe41c849b80c8d83662c0e44a8b291a964cf2f07038"),
        (b"pass\0word", b"sa\0lt", 4096, 16, "56fa6aa75548099dcc37d7f03425e0c3"),
    ];
    for (p, s, c, l, want) in v {
        assert_eq!(hx(&pbkdf2_ref(sha1_ref, 64, p, s, c, l)), want);
        assert_eq!(KDF::pbkdf2(p, Some(s.to_vec()), PBKDF2Hashes::SHA1, c, l).get_hash().to_hex(), want);
    }
    let w = "55ac046e56e3089fec1691c22544b605f94185216dde0465e68b9d57c20dacbc49ca9cccf179b645991664b39d77ef317c71b845b1e30bd509112041d3a19783";
    assert_eq!(hx(&pbkdf2_ref(sha256_ref, 64, b"passwd", b"salt", 1, 64)), w);
    assert_eq!(KDF::pbkdf2(b"passwd", Some(b"salt".to_vec()), PBKDF2Hashes::SHA256, 1, 64).get_hash().to_hex(), w);
    let mn = b"abandon abandon abandon abandon abandon abandon abandon abandon abandon abandon abandon about";
    let w = "c55257c360c07c72029aebc1b53c05ed0362ada38ead3e3e9efa3708e53495531f09a6987599d18264c1e1c92f2cf141630c7a3c4ab7c81b2f001698e7463b04";
    assert_eq!(hx(&pbkdf2_ref(sha512_ref, 128, mn, b"mnemonicTREZOR", 2048, 64)), w);
    assert_eq!(KDF::pbkdf2(mn, Some(b"mnemonicTREZOR".to_vec()), PBKDF2Hashes::SHA512, 2048, 64).get_hash().to_hex(), w);
}

// ================================================================ E02: plain hashes, every length 0..=400, five byte patterns
#[test]
fn e02_plain_hashes_every_length() {
    let fns: Vec<(&str, H, fn(&[u8]) -> Hash, usize)> = vec![
        ("sha1", sha1_ref, Hash::sha_1, 20),
        ("sha256", sha256_ref, Hash::sha_256, 32),
        ("sha256d", sha256d_ref, Hash::sha_256d, 32),
        ("sha512", sha512_ref, Hash::sha_512, 64),
        ("ripemd160", ripemd160_ref, Hash::ripemd_160, 20),
        ("hash160", hash160_ref, Hash::hash_160, 20),
    ];
    let mut n_checked = 0;
    for n in 0..=400usize {
        for m in patterns(n, 1) {
            for (name, r, l, outlen) in &fns {
                let got = l(&m);
                assert_eq!(got.to_bytes().len(), *outlen);
                assert_eq!(got.to_bytes(), r(&m), "{} len {} msg {}", name, n, hx(&m));
                assert_eq!(got.to_hex(), hx(&r(&m)));
                n_checked += 1;
            }
        }
    }
    println!("E02 compared {} digests", n_checked);
}

// ================================================================ E03: HMAC, key lengths 0..=300 x message lengths over the boundaries
#[test]
fn e03_hmac_all_variants() {
    let fns: Vec<(&str, H, usize, fn(&[u8], &[u8]) -> Hash)> = vec![
        ("sha1", sha1_ref, 64, Hash::sha_1_hmac),
        ("sha256", sha256_ref, 64, Hash::sha_256_hmac),
        ("sha256d", sha256d_ref, 64, Hash::sha_256d_hmac),
        ("sha512", sha512_ref, 128, Hash::sha_512_hmac),
        ("ripemd160", ripemd160_ref, 64, Hash::ripemd_160_hmac),
        ("hash160", hash160_ref, 64, Hash::hash_160_hmac),
    ];
    let msg_lens = [0usize, 1, 54, 55, 56, 57, 63, 64, 65, 110, 111, 112, 113, 119, 120, 127, 128, 129, 183, 184, 192, 247, 256, 300];
    let mut rng = Lcg(77);
    let mut n = 0;
    for klen in 0..=300usize {
        let keys = [rng.bytes(klen), vec![0u8; klen], vec![0x36u8; klen], vec![0x5cu8; klen]];
        for (ki, key) in keys.iter().enumerate() {
            for &ml in &msg_lens {
                if ki > 0 && ml > 65 && klen % 16 != 0 {
                    continue;
                }
                let msg = rng.bytes(ml);
                for (name, r, b, l) in &fns {
                    assert_eq!(l(&msg, key).to_bytes(), hmac_ref(*r, *b, key, &msg), "hmac-{} key {} msg {}", name, hx(key), hx(&msg));
                    n += 1;
                }
            }
        }
    }
    // every message length 0..=300 with keys of length block-1, block, block+1
    for ml in 0..=300usize {
        let msg = rng.bytes(ml);
        for (name, r, b, l) in &fns {
            for kl in [*b - 1, *b, *b + 1, 2 * *b, 2 * *b + 1] {
                let key = rng.bytes(kl);
                assert_eq!(l(&msg, &key).to_bytes(), hmac_ref(*r, *b, &key, &msg), "hmac-{} keylen {} msglen {}", name, kl, ml);
                n += 1;
            }
        }
    }
    println!("E03 compared {} MACs", n);
}

// ================================================================ E04: an HMAC key longer than a block equals the MAC under the hashed key; a key padded with zeros equals the short key
#[test]
fn e04_hmac_key_equivalences() {
    let mut rng = Lcg(5);
    let msg = rng.bytes(100);
    let k = rng.bytes(200);
    assert_eq!(Hash::sha_256_hmac(&msg, &k), Hash::sha_256_hmac(&msg, &sha256_ref(&k)));
    assert_eq!(Hash::sha_256d_hmac(&msg, &k), Hash::sha_256d_hmac(&msg, &sha256d_ref(&k)));
    assert_eq!(Hash::hash_160_hmac(&msg, &k), Hash::hash_160_hmac(&msg, &hash160_ref(&k)));
    assert_eq!(Hash::ripemd_160_hmac(&msg, &k), Hash::ripemd_160_hmac(&msg, &ripemd160_ref(&k)));
    assert_eq!(Hash::sha_1_hmac(&msg, &k), Hash::sha_1_hmac(&msg, &sha1_ref(&k)));
    assert_eq!(Hash::sha_512_hmac(&msg, &k), Hash::sha_512_hmac(&msg, &sha512_ref(&k)));
    // 128-byte key is NOT hashed for sha512 but is for sha256
    let k128 = rng.bytes(128);
    assert_ne!(Hash::sha_512_hmac(&msg, &k128), Hash::sha_512_hmac(&msg, &sha512_ref(&k128)));
    assert_eq!(Hash::sha_256_hmac(&msg, &k128), Hash::sha_256_hmac(&msg, &sha256_ref(&k128)));
    let short = rng.bytes(10);
    let mut padded = short.clone();
    padded.resize(64, 0);
    assert_eq!(Hash::sha_256_hmac(&msg, &short), Hash::sha_256_hmac(&msg, &padded));
    assert_eq!(Hash::hash_160_hmac(&msg, &short), Hash::hash_160_hmac(&msg, &padded));
}

// ================================================================ E05: PBKDF2, every output length 0..=200 (several hash blocks), small round counts
#[test]
fn e05_pbkdf2_output_lengths() {
    let algos: Vec<(PBKDF2Hashes, H, usize)> = vec![(PBKDF2Hashes::SHA1, sha1_ref, 64), (PBKDF2Hashes::SHA256, sha256_ref, 64), (PBKDF2Hashes::SHA512, sha512_ref, 128)];
    let mut rng = Lcg(11);
    let mut n = 0;
    for (a, r, b) in &algos {
        for dklen in 0..=200usize {
            for c in [1u32, 2, 3, 7] {
                let pw = rng.bytes((dklen * 7 + c as usize) % 40);
                let salt = rng.bytes((dklen * 3) % 50);
                let got = KDF::pbkdf2(&pw, Some(salt.clone()), *a, c, dklen);
                assert_eq!(got.get_hash().to_bytes(), pbkdf2_ref(*r, *b, &pw, &salt, c, dklen), "{:?} c={} dklen={} pw={} salt={}", a, c, dklen, hx(&pw), hx(&salt));
                assert_eq!(got.get_salt(), salt);
                let got2 = KDF::pbkdf2_impl(&pw, &salt, *a, c, dklen);
                assert_eq!(got2, got);
                n += 1;
            }
        }
    }
    println!("E05 compared {} derived keys", n);
}

// ================================================================ E06: PBKDF2, password / salt lengths across the block size, larger round counts
#[test]
fn e06_pbkdf2_password_and_salt_lengths() {
    let algos: Vec<(PBKDF2Hashes, H, usize, usize)> = vec![(PBKDF2Hashes::SHA1, sha1_ref, 64, 20), (PBKDF2Hashes::SHA256, sha256_ref, 64, 32), (PBKDF2Hashes::SHA512, sha512_ref, 128, 64)];
    let mut rng = Lcg(12);
    for (a, r, b, hl) in &algos {
        for pwlen in [0usize, 1, 55, 56, 63, 64, 65, 111, 112, 127, 128, 129, 200, 257] {
            for saltlen in [0usize, 1, 50, 51, 52, 59, 60, 64, 107, 108, 115, 116, 124, 128, 200] {
                let pw = rng.bytes(pwlen);
                let salt = rng.bytes(saltlen);
                let dklen = 2 * hl + 3;
                let c = 1 + (pwlen as u32 + saltlen as u32) % 4;
                let got = KDF::pbkdf2(&pw, Some(salt.clone()), *a, c, dklen).get_hash().to_bytes();
                assert_eq!(got, pbkdf2_ref(*r, *b, &pw, &salt, c, dklen), "{:?} pwlen {} saltlen {}", a, pwlen, saltlen);
            }
        }
        for c in [10u32, 100, 1000, 4097] {
            let pw = rng.bytes(70);
            let salt = rng.bytes(16);
            let dklen = hl + 1;
            assert_eq!(KDF::pbkdf2(&pw, Some(salt.clone()), *a, c, dklen).get_hash().to_bytes(), pbkdf2_ref(*r, *b, &pw, &salt, c, dklen), "{:?} c {}", a, c);
        }
        // a password longer than a block is equivalent to its hash
        let pw = rng.bytes(150);
        let salt = rng.bytes(8);
        assert_eq!(KDF::pbkdf2(&pw, Some(salt.clone()), *a, 3, 40).get_hash(), KDF::pbkdf2(&r(&pw), Some(salt.clone()), *a, 3, 40).get_hash());
        // prefix property: a shorter output is a prefix of a longer one
        let long = KDF::pbkdf2(&pw, Some(salt.clone()), *a, 3, 300).get_hash().to_bytes();
        for l in [0usize, 1, 19, 20, 21, 32, 33, 64, 65, 128, 299] {
            assert_eq!(KDF::pbkdf2(&pw, Some(salt.clone()), *a, 3, l).get_hash().to_bytes(), long[..l].to_vec());
        }
    }
}

// ================================================================ E07: PBKDF2 with a random salt: reported salt reproduces the reported hash; serde forms keep both
#[test]
fn e07_pbkdf2_random_salt_and_serde() {
    let mut salts = std::collections::HashSet::new();
    for (a, r, b) in [(PBKDF2Hashes::SHA1, sha1_ref as H, 64usize), (PBKDF2Hashes::SHA256, sha256_ref, 64), (PBKDF2Hashes::SHA512, sha512_ref, 128)] {
        for i in 0..8 {
            let k = KDF::pbkdf2(b"pw", None, a, 2, 70 + i);
            let salt = k.get_salt();
            assert!(!salt.is_empty());
            salts.insert(salt.clone());
            assert_eq!(k.get_hash().to_bytes(), pbkdf2_ref(r, b, b"pw", &salt, 2, 70 + i));
            let k2 = KDF::pbkdf2_random_salt_impl(b"pw", a, 2, 33);
            assert_eq!(k2.get_hash().to_bytes(), pbkdf2_ref(r, b, b"pw", &k2.get_salt(), 2, 33));
            let json = serde_json::to_string(&k).unwrap();
            let back: KDF = serde_json::from_str(&json).unwrap();
            assert_eq!(back, k);
            assert_eq!(back.get_hash().to_bytes(), k.get_hash().to_bytes());
            let mut cb = vec![];
            ciborium::ser::into_writer(&k, &mut cb).unwrap();
            let back: KDF = ciborium::de::from_reader(&cb[..]).unwrap();
            assert_eq!(back, k);
        }
    }
    assert_eq!(salts.len(), 24, "random salts repeat");
    // Hash serde forms
    let h = Hash::sha_256(b"x");
    let j = serde_json::to_string(&h).unwrap();
    assert_eq!(j, format!("\"{}\"", hx(&sha256_ref(b"x"))));
    let back: Hash = serde_json::from_str(&j).unwrap();
    assert_eq!(back, h);
}

// ================================================================ E08 (observation, outside the domain): iteration count 0
#[test]
fn e08_pbkdf2_zero_rounds_observation() {
    // RFC 8018 requires a positive iteration count, so c = 0 is outside the algorithm's domain; just record what happens.
    let k0 = KDF::pbkdf2(b"password", Some(b"salt".to_vec()), PBKDF2Hashes::SHA1, 0, 20);
    let k1 = KDF::pbkdf2(b"password", Some(b"salt".to_vec()), PBKDF2Hashes::SHA1, 1, 20);
    println!("E08 c=0 -> {} ; c=1 -> {}", k0.get_hash().to_hex(), k1.get_hash().to_hex());
}

// ---------------------------------------------------------------- streaming adapters
// A small abstraction so the same chunking experiments run over the three adapters.
trait Adapter: Digest + Clone + Default + ReversibleDigest + digest::Update + digest::FixedOutput + digest::Reset {
    const NAME: &'static str;
    fn oracle(m: &[u8]) -> Vec<u8>;
}
impl Adapter for Sha256r {
    const NAME: &'static str = "Sha256r";
    fn oracle(m: &[u8]) -> Vec<u8> {
        sha256_ref(m)
    }
}
impl Adapter for Sha256d {
    const NAME: &'static str = "Sha256d";
    fn oracle(m: &[u8]) -> Vec<u8> {
        sha256d_ref(m)
    }
}
impl Adapter for Hash160 {
    const NAME: &'static str = "Hash160";
    fn oracle(m: &[u8]) -> Vec<u8> {
        hash160_ref(m)
    }
}
fn rev(mut v: Vec<u8>) -> Vec<u8> {
    v.reverse();
    v
}
fn feed<A: Adapter>(d: &mut A, chunks: &[&[u8]], how: usize) {
    for c in chunks {
        match how % 3 {
            0 => Digest::update(d, c),
            1 => digest::Update::update(d, c),
            _ => {
                let mut e = d.clone();
                digest::Update::update(&mut e, c);
                *d = e;
            }
        }
    }
}
fn fin<A: Adapter>(d: A) -> Vec<u8> {
    Digest::finalize(d).to_vec()
}

fn chunking_all<A: Adapter>() {
    let mut rng = Lcg(99);
    let mut n = 0u64;
    // (a) every composition (all chunkings) of inputs of length 0..=11, including across nothing special
    for len in 0..=11usize {
        let m = rng.bytes(len);
        let want = A::oracle(&m);
        let cuts = if len == 0 { 1 } else { 1u32 << (len - 1) };
        for mask in 0..cuts {
            let mut d = A::default();
            let mut start = 0;
            for i in 1..len {
                if mask & (1 << (i - 1)) != 0 {
                    feed(&mut d, &[&m[start..i]], i);
                    start = i;
                }
            }
            feed(&mut d, &[&m[start..]], mask as usize);
            assert_eq!(fin(d), want, "{} all-compositions len {} mask {}", A::NAME, len, mask);
            n += 1;
        }
    }
    // (b) every 2-split and every 3-split of inputs of length 0..=140 and some longer ones, empty chunks included
    let lens: Vec<usize> = (0..=140).chain([183, 184, 191, 192, 193, 200, 256, 257]).collect();
    for &len in &lens {
        let m = rng.bytes(len);
        let want = A::oracle(&m);
        let wantr = rev(want.clone());
        for i in 0..=len {
            for j in i..=len {
                let mut d = A::default();
                feed(&mut d, &[&m[..i], &m[i..j], &m[j..]], i + j);
                assert_eq!(fin(d), want, "{} 3-split len {} at {} {}", A::NAME, len, i, j);
                n += 1;
            }
            // reversed mode switched on at the split point
            let mut d = A::default();
            feed(&mut d, &[&m[..i]], 0);
            let mut d = d.reverse();
            feed(&mut d, &[&m[i..]], 1);
            assert_eq!(fin(d), wantr, "{} reversed, split at {} of {}", A::NAME, i, len);
        }
    }
    // (c) byte at a time and random chunkings (with empty chunks) of longer inputs
    for len in [0usize, 1, 63, 64, 65, 127, 128, 129, 1000, 4096, 10_000] {
        let m = rng.bytes(len);
        let want = A::oracle(&m);
        let mut d = A::default();
        for b in &m {
            feed(&mut d, &[std::slice::from_ref(b)], *b as usize);
        }
        assert_eq!(fin(d), want, "{} bytewise len {}", A::NAME, len);
        for _ in 0..50 {
            let mut d = A::default();
            let mut pos = 0;
            while pos < len {
                let step = match rng.next() % 6 {
                    0 => 0,
                    1 => 1,
                    2 => 64,
                    3 => (rng.next() % 64) as usize,
                    4 => (rng.next() % 200) as usize,
                    _ => 63 + (rng.next() % 3) as usize,
                };
                let end = (pos + step).min(len);
                feed(&mut d, &[&m[pos..end]], rng.next() as usize);
                pos = end;
            }
            assert_eq!(fin(d), want, "{} random chunking len {}", A::NAME, len);
            n += 1;
        }
        // one-shot forms
        assert_eq!(A::digest(&m).to_vec(), want);
        assert_eq!(fin(Digest::chain(A::new(), &m)), want);
        assert_eq!(fin(digest::Update::chain(A::default().reverse(), &m)), rev(want.clone()));
        assert_eq!(fin(Digest::chain(A::default(), &m).reverse()), rev(want.clone()));
    }
    println!("{}: {} chunkings compared", A::NAME, n);
}

// ================================================================ E09/E10/E11: chunk independence + reversed mode for the three adapters
#[test]
fn e09_sha256r_chunking_and_reverse() {
    chunking_all::<Sha256r>();
}
#[test]
fn e10_sha256d_chunking_and_reverse() {
    chunking_all::<Sha256d>();
}
#[test]
fn e11_hash160_chunking_and_reverse() {
    chunking_all::<Hash160>();
    // the public constructor
    let m = b"constructor";
    assert_eq!(fin(Digest::chain(Hash160::new(false), m)), hash160_ref(m));
    assert_eq!(fin(digest::Update::chain(Hash160::new(true), m)), rev(hash160_ref(m)));
    assert_eq!(<Hash160 as Digest>::output_size(), 20);
    assert_eq!(<Sha256d as Digest>::output_size(), 32);
    assert_eq!(<Sha256r as Digest>::output_size(), 32);
}

// ================================================================ E12: reuse after reset / finalize_reset, clones taken half-way, reversed flag through reuse
fn reuse<A: Adapter>() {
    let mut rng = Lcg(3);
    let a = rng.bytes(100);
    let b = rng.bytes(77);
    // finalize_reset, then hash something else
    let mut d = A::default();
    feed(&mut d, &[&a], 0);
    assert_eq!(Digest::finalize_reset(&mut d).to_vec(), A::oracle(&a));
    feed(&mut d, &[&b], 1);
    assert_eq!(Digest::finalize_reset(&mut d).to_vec(), A::oracle(&b));
    assert_eq!(Digest::finalize_reset(&mut d).to_vec(), A::oracle(b""));
    // FixedOutput level
    feed(&mut d, &[&a[..50]], 2);
    let mut out = digest::generic_array::GenericArray::default();
    digest::FixedOutput::finalize_into_reset(&mut d, &mut out);
    assert_eq!(out.to_vec(), A::oracle(&a[..50]));
    feed(&mut d, &[&b], 2);
    assert_eq!(digest::FixedOutput::finalize_fixed_reset(&mut d).to_vec(), A::oracle(&b));
    feed(&mut d, &[&a], 2);
    let mut out = digest::generic_array::GenericArray::default();
    digest::FixedOutput::finalize_into(d.clone(), &mut out);
    assert_eq!(out.to_vec(), A::oracle(&a));
    assert_eq!(digest::FixedOutput::finalize_fixed(d.clone()).to_vec(), A::oracle(&a));
    // explicit reset in the middle drops what was fed
    Digest::reset(&mut d);
    feed(&mut d, &[&b[..3]], 0);
    digest::Reset::reset(&mut d);
    feed(&mut d, &[&b], 0);
    assert_eq!(fin(d), A::oracle(&b));
    // clone half-way: both continue independently
    let mut d1 = A::default();
    feed(&mut d1, &[&a[..70]], 0);
    let mut d2 = d1.clone();
    feed(&mut d1, &[&a[70..]], 0);
    feed(&mut d2, &[&b], 0);
    let mut ab = a[..70].to_vec();
    ab.extend_from_slice(&b);
    assert_eq!(fin(d1), A::oracle(&a));
    assert_eq!(fin(d2), A::oracle(&ab));
    // reverse() does not disturb the original object
    let mut d = A::default();
    feed(&mut d, &[&a], 0);
    let r = d.reverse();
    assert_eq!(fin(r.clone()), rev(A::oracle(&a)));
    assert_eq!(fin(d), A::oracle(&a));
    // reversed object reused after finalize_reset: each result is either the plain digest or its exact reversal,
    // and the first one must be the reversal
    let mut r = A::default().reverse();
    feed(&mut r, &[&a], 0);
    assert_eq!(Digest::finalize_reset(&mut r).to_vec(), rev(A::oracle(&a)));
    feed(&mut r, &[&b], 0);
    let second = Digest::finalize_reset(&mut r).to_vec();
    assert!(second == rev(A::oracle(&b)) || second == A::oracle(&b));
    println!("{}: reversed object after finalize_reset is still reversed: {}", A::NAME, second == rev(A::oracle(&b)));
    // reversing twice: record
    let rr = Digest::chain(A::default(), &a).reverse().reverse();
    let out = fin(rr);
    assert!(out == rev(A::oracle(&a)) || out == A::oracle(&a));
    println!("{}: reverse().reverse() gives reversed output: {}", A::NAME, out == rev(A::oracle(&a)));
    // palindromic sanity: reversal of reversal of bytes
    assert_eq!(rev(rev(A::oracle(&a))), A::oracle(&a));
}
#[test]
fn e12_reuse_reset_clone() {
    reuse::<Sha256r>();
    reuse::<Sha256d>();
    reuse::<Hash160>();
}

// ================================================================ E13: get_hash_digest (the entry used by signing) for both algorithms, plain and reversed, then fed further
#[test]
fn e13_get_hash_digest() {
    let mut rng = Lcg(8);
    for len in (0..=300usize).chain([1000, 5000]) {
        let m = rng.bytes(len);
        let d = get_hash_digest(SigningHash::Sha256, &m);
        assert_eq!(digest::FixedOutput::finalize_fixed(d.clone()).to_vec(), sha256_ref(&m));
        assert_eq!(digest::FixedOutput::finalize_fixed(d.reverse()).to_vec(), rev(sha256_ref(&m)));
        let dd = get_hash_digest(SigningHash::Sha256d, &m);
        assert_eq!(digest::FixedOutput::finalize_fixed(dd.clone()).to_vec(), sha256d_ref(&m));
        assert_eq!(digest::FixedOutput::finalize_fixed(dd.reverse()).to_vec(), rev(sha256d_ref(&m)));
        // feeding more afterwards keeps streaming semantics
        let mut d2 = d.clone();
        digest::Update::update(&mut d2, b"tail");
        let mut mt = m.clone();
        mt.extend_from_slice(b"tail");
        assert_eq!(digest::FixedOutput::finalize_fixed(d2).to_vec(), sha256_ref(&mt));
        let mut dd2 = dd.clone();
        digest::Update::update(&mut dd2, b"tail");
        let mut st = sha256_ref(&m);
        st.extend_from_slice(b"tail");
        assert_eq!(digest::FixedOutput::finalize_fixed(dd2).to_vec(), sha256_ref(&st));
    }
}

// ================================================================ E14: the adapters behind dyn DynDigest and inside hmac::Hmac with chunked input and reset
#[test]
fn e14_dyn_digest_and_hmac_streaming() {
    use hmac::{Hmac, Mac, NewMac};
    let mut rng = Lcg(21);
    let m = rng.bytes(333);
    let boxed: Vec<(Box<dyn DynDigest>, H)> = vec![
        (Box::new(Sha256r::default()), sha256_ref),
        (Box::new(Sha256d::default()), sha256d_ref),
        (Box::new(Hash160::default()), hash160_ref),
        (Box::new(Sha256r::default().reverse()), |m| rev(sha256_ref(m))),
        (Box::new(Sha256d::default().reverse()), |m| rev(sha256d_ref(m))),
        (Box::new(Hash160::new(true)), |m| rev(hash160_ref(m))),
    ];
    for (mut b, r) in boxed {
        b.update(&m[..100]);
        let mut c = b.box_clone();
        b.update(&m[100..]);
        assert_eq!(b.finalize_reset().to_vec(), r(&m));
        c.update(&m[100..200]);
        assert_eq!(c.finalize().to_vec(), r(&m[..200]));
        b.update(b"x");
        b.reset();
        b.update(&m[..5]);
        assert_eq!(b.finalize().to_vec(), r(&m[..5]));
    }
    fn mac<D>(r: H, rng: &mut Lcg)
    where
        D: digest::Update + digest::BlockInput + digest::FixedOutput + digest::Reset + Default + Clone,
    {
        for klen in [0usize, 1, 32, 63, 64, 65, 100, 200] {
            let key = rng.bytes(klen);
            let msg = rng.bytes(150);
            let want = hmac_ref(r, 64, &key, &msg);
            for split in 0..=150 {
                let mut h = Hmac::<D>::new_from_slice(&key).unwrap();
                h.update(&msg[..split]);
                h.update(&msg[split..]);
                assert_eq!(h.finalize().into_bytes().to_vec(), want);
            }
            let mut h = Hmac::<D>::new_from_slice(&key).unwrap();
            h.update(b"junk");
            h.reset();
            h.update(&msg);
            assert_eq!(h.finalize_reset().into_bytes().to_vec(), want);
            h.update(&msg[..10]);
            assert_eq!(h.clone().finalize().into_bytes().to_vec(), hmac_ref(r, 64, &key, &msg[..10]));
            assert!(h.verify(&hmac_ref(r, 64, &key, &msg[..10])).is_ok());
        }
    }
    mac::<Sha256r>(sha256_ref, &mut rng);
    mac::<Sha256d>(sha256d_ref, &mut rng);
    mac::<Hash160>(hash160_ref, &mut rng);
}

// ================================================================ E15: message bit length crossing 2^32 (512 MiB): plain functions and streaming adapters
#[test]
fn e15_bit_length_beyond_32_bits() {
    let n: usize = (1usize << 29) + 57; // 2^32 bits + 456 bits
    let mut big = vec![0u8; n];
    let mut x = 0x1234_5678_9abc_def0u64;
    for c in big.chunks_mut(8) {
        x ^= x << 13;
        x ^= x >> 7;
        x ^= x << 17;
        let b = x.to_le_bytes();
        c.copy_from_slice(&b[..c.len()]);
    }
    let w256 = sha256_ref(&big);
    assert_eq!(Hash::sha_256(&big).to_bytes(), w256);
    assert_eq!(Hash::sha_256d(&big).to_bytes(), sha256_ref(&w256));
    assert_eq!(Hash::hash_160(&big).to_bytes(), ripemd160_ref(&w256));
    assert_eq!(Hash::sha_1(&big).to_bytes(), sha1_ref(&big));
    assert_eq!(Hash::ripemd_160(&big).to_bytes(), ripemd160_ref(&big));
    assert_eq!(Hash::sha_512(&big).to_bytes(), sha512_ref(&big));
    let mut a = Sha256r::default();
    let mut b = Sha256d::default().reverse();
    let mut c = Hash160::default();
    for ch in big.chunks(1_000_003) {
        digest::Update::update(&mut a, ch);
        digest::Update::update(&mut b, ch);
        Digest::update(&mut c, ch);
    }
    assert_eq!(fin(a), w256);
    assert_eq!(fin(b), rev(sha256_ref(&w256)));
    assert_eq!(fin(c), ripemd160_ref(&w256));
}

// ================================================================ E16: Hash value object: to_bytes / to_hex agree, equality is by bytes, nothing is shared between results
#[test]
fn e16_hash_value_object() {
    let a = Hash::sha_256(b"a");
    let b = Hash::sha_256(b"a");
    assert_eq!(a, b);
    assert_eq!(a.to_hex(), hx(&a.to_bytes()));
    let mut bytes = a.to_bytes();
    bytes[0] ^= 1;
    assert_eq!(a.to_bytes(), sha256_ref(b"a"));
    assert_ne!(Hash::sha_256(b"a"), Hash::sha_256d(b"a"));
    assert_eq!(Hash::default().to_bytes(), Vec::<u8>::new());
    // input/key argument order of the HMAC functions: (input, key)
    assert_eq!(Hash::sha_256_hmac(b"msg", b"key").to_bytes(), hmac_ref(sha256_ref, 64, b"key", b"msg"));
    assert_ne!(Hash::sha_256_hmac(b"msg", b"key").to_bytes(), hmac_ref(sha256_ref, 64, b"msg", b"key"));
}

// ================================================================ E17: concurrency: the functions are pure (same results from many threads)
#[test]
fn e17_parallel_purity() {
    use rayon::prelude::*;
    (0..2000usize).into_par_iter().for_each(|i| {
        let mut rng = Lcg(i as u64);
        let m = rng.bytes(i % 300);
        let k = rng.bytes((i * 7) % 200);
        assert_eq!(Hash::sha_256d(&m).to_bytes(), sha256d_ref(&m));
        assert_eq!(Hash::hash_160_hmac(&m, &k).to_bytes(), hmac_ref(hash160_ref, 64, &k, &m));
        assert_eq!(Hash::sha_512_hmac(&m, &k).to_bytes(), hmac_ref(sha512_ref, 128, &k, &m));
        assert_eq!(KDF::pbkdf2(&k, Some(m.clone()), PBKDF2Hashes::SHA512, 2, 70).get_hash().to_bytes(), pbkdf2_ref(sha512_ref, 128, &k, &m, 2, 70));
    });
}

// ================================================================ E18: callers: mnemonic -> seed uses PBKDF2-HMAC-SHA512(2048); BIP32 master key uses HMAC-SHA512("Bitcoin seed")
#[test]
fn e18_callers_mnemonic_and_master_key() {
    let mn = b"abandon abandon abandon abandon abandon abandon abandon abandon abandon abandon abandon about";
    let seed = pbkdf2_ref(sha512_ref, 128, mn, b"mnemonicTREZOR", 2048, 64);
    let i = hmac_ref(sha512_ref, 128, b"Bitcoin seed", &seed);
    let x = ExtendedPrivateKey::from_mnemonic(mn, Some(b"mnemonicTREZOR".to_vec())).unwrap();
    assert_eq!(x.get_private_key().to_bytes(), i[..32].to_vec());
    assert_eq!(x.get_chain_code(), i[32..].to_vec());
    assert_eq!(
        x.to_string().unwrap(),
        "xprv9s21ZrQH143K3h3fDYiay8mocZ3afhfULfb5GX8kCBdno77K4HiA15Tg23wpbeF1pLfs1c5SPmYHrEpTuuRhxMwvKDwqdKiGJS9XFKzUsAF"
    );
    let y = ExtendedPrivateKey::from_seed(&seed).unwrap();
    assert_eq!(y.to_string().unwrap(), x.to_string().unwrap());
}

// ================================================================ E19: HMAC over the two composite hashes, exhaustive key length x message length square 0..=140
#[test]
fn e19_hmac_composites_exhaustive_square() {
    let mut rng = Lcg(1234);
    let key = rng.bytes(140);
    let msg = rng.bytes(140);
    for kl in 0..=140usize {
        for ml in 0..=140usize {
            assert_eq!(Hash::sha_256d_hmac(&msg[..ml], &key[..kl]).to_bytes(), hmac_ref(sha256d_ref, 64, &key[..kl], &msg[..ml]), "sha256d {} {}", kl, ml);
            assert_eq!(Hash::hash_160_hmac(&msg[..ml], &key[..kl]).to_bytes(), hmac_ref(hash160_ref, 64, &key[..kl], &msg[..ml]), "hash160 {} {}", kl, ml);
        }
    }
}

// ================================================================ E20: PBKDF2 block counter beyond one byte and beyond two bytes (more than 255 / 65535 output blocks)
#[test]
fn e20_pbkdf2_many_blocks() {
    let cases: Vec<(PBKDF2Hashes, H, usize, usize)> = vec![
        (PBKDF2Hashes::SHA1, sha1_ref, 64, 20 * 257 + 7),
        (PBKDF2Hashes::SHA256, sha256_ref, 64, 32 * 258 + 1),
        (PBKDF2Hashes::SHA512, sha512_ref, 128, 64 * 256 + 63),
        (PBKDF2Hashes::SHA1, sha1_ref, 64, 20 * 65537 + 3),
        (PBKDF2Hashes::SHA256, sha256_ref, 64, 32 * 65536 + 31),
    ];
    for (a, r, b, dklen) in cases {
        for c in [1u32, 2] {
            let got = KDF::pbkdf2(b"counter", Some(b"carry".to_vec()), a, c, dklen).get_hash().to_bytes();
            let want = pbkdf2_ref(r, b, b"counter", b"carry", c, dklen);
            assert_eq!(got.len(), dklen);
            assert!(got == want, "{:?} dklen {} c {}", a, dklen, c);
        }
    }
}

// ================================================================ E21: the hash opcodes of the interpreter give the standard digests (callers of the anchored functions)
#[test]
fn e21_interpreter_hash_opcodes() {
    let ops: Vec<(&str, H)> = vec![("OP_RIPEMD160", ripemd160_ref), ("OP_SHA1", sha1_ref), ("OP_SHA256", sha256_ref), ("OP_HASH160", hash160_ref), ("OP_HASH256", sha256d_ref)];
    let mut rng = Lcg(31);
    for len in (0..=130usize).chain([255, 256, 300, 65535, 65536, 70000]) {
        let data = rng.bytes(len);
        for (op, r) in &ops {
            let mut bytes = if len == 0 { vec![0u8] } else { Script::get_pushdata_bytes(len).unwrap() };
            bytes.extend_from_slice(&data);
            let mut script = Script::from_bytes(&bytes).unwrap();
            script.push(ScriptBit::OpCode(Script::from_asm_string(op).unwrap().to_bytes()[0].try_into_opcode()));
            let mut i = Interpreter::from_script(&script);
            i.run().unwrap();
            assert_eq!(i.state().stack().last().unwrap(), &r(&data), "{} on len {}", op, len);
        }
    }
}
trait IntoOp {
    fn try_into_opcode(self) -> OpCodes;
}
impl IntoOp for u8 {
    fn try_into_opcode(self) -> OpCodes {
        num_traits::FromPrimitive::from_u8(self).unwrap()
    }
}

// ================================================================ E22: adapters accept any AsRef<[u8]> and give the same digest; digests of digests (nesting) stay standard
#[test]
fn e22_asref_inputs_and_nesting() {
    let s = String::from("some text");
    let v: Vec<u8> = s.clone().into_bytes();
    let arr: [u8; 9] = *b"some text";
    let want = sha256d_ref(&v);
    assert_eq!(fin(Digest::chain(Sha256d::default(), &s)), want);
    assert_eq!(fin(Digest::chain(Sha256d::default(), v.clone())), want);
    assert_eq!(fin(Digest::chain(Sha256d::default(), arr)), want);
    assert_eq!(fin(Digest::chain(Sha256d::default(), &arr[..])), want);
    // sha256d == sha256 . sha256, hash160 == ripemd160 . sha256 through the library's own single functions, against the reference
    for len in 0..=200usize {
        let m = vec![0xa5u8; len];
        assert_eq!(Hash::sha_256(&Hash::sha_256(&m).to_bytes()).to_bytes(), sha256d_ref(&m));
        assert_eq!(Hash::ripemd_160(&Hash::sha_256(&m).to_bytes()).to_bytes(), hash160_ref(&m));
        // quadruple
        assert_eq!(Hash::sha_256d(&Hash::sha_256d(&m).to_bytes()).to_bytes(), sha256d_ref(&sha256d_ref(&m)));
    }
}
